#!/usr/bin/env python3
"""mutrun.py <group|all> <n-per-group> [seed]   automated mutation run (not a registered check).

Works on a COPY of /repo (/var/tmp/mut/repo, refreshed from /repo's HEAD at start) and a copy of
the harness (/var/tmp/mut/harness, whose go.mod points at the copy), so neither /repo nor the
registered checks are touched and the run can go on beside other work. For every sampled
mutation point (mutgen.go): apply, build the module, run the repository's own baseline tests
(a mutant they kill is not interesting), build the check workers, run the quick tier of the
checks mapped to the file's group, record which check (if any) reports a violation.
Results: /var/tmp/mut/results.jsonl ; survivors are summarised by mutsummary.py.
"""
import json, os, random, shutil, subprocess, sys, time

ENV = dict(os.environ, GOFLAGS="-mod=mod", GOPROXY="off", GOSUMDB="off", GOTOOLCHAIN="local")
ROOT = "/var/tmp/mut"
REPO = ROOT + "/repo"
HARN = ROOT + "/harness"
GROUPS = {
    "crdt": (["client/pkg/orda/list.go", "client/pkg/orda/ordered.go", "client/pkg/orda/map.go", "client/pkg/orda/timed.go",
              "client/pkg/orda/counter.go", "client/pkg/orda/json_object.go", "client/pkg/orda/json_array.go",
              "client/pkg/orda/json_primitive.go", "client/pkg/orda/json_element.go", "client/pkg/orda/document.go",
              "client/pkg/orda/document_marshal.go"],
             ["C01", "C02", "C03", "C04", "C09", "C10", "C19"]),
    "datatypes": (["client/pkg/internal/datatypes/base.go", "client/pkg/internal/datatypes/transaction.go",
                   "client/pkg/internal/datatypes/wired.go", "client/pkg/internal/datatypes/snapshot.go"],
                  ["C01", "C09", "C10", "C15", "C05", "C07", "C13", "C16"]),
    "managers": (["client/pkg/internal/managers/datatype.go", "client/pkg/internal/managers/sync.go",
                  "client/pkg/internal/managers/notify.go"],
                 ["C05", "C16", "C18"]),
    "model": (["client/pkg/model/timestamp.go", "client/pkg/model/operation_id.go", "client/pkg/model/checkpoint.go",
               "client/pkg/model/push_pull_pack.go", "client/pkg/operations/converter.go", "client/pkg/operations/base.go",
               "client/pkg/operations/meta.go", "client/pkg/types/json_values.go"],
              ["C01", "C02", "C14", "C15", "C05"]),
    "service": (["server/service/service_pushpull_datatype.go", "server/service/service_pushpull_client.go",
                 "server/service/service_client.go", "server/service/service_patch_document.go",
                 "server/service/service_collection.go"],
                ["C05", "C06", "C07", "C08", "C11", "C13", "C16", "C17", "C19"]),
    "store": (["server/mongodb/collection_datatypes.go", "server/mongodb/collection_operations.go",
               "server/mongodb/collection_snapshots.go", "server/mongodb/collection_clients.go",
               "server/mongodb/collection_collections.go", "server/mongodb/collection_real_collection.go",
               "server/mongodb/mongo_collection.go", "server/schema/operations.go", "server/schema/datatypes.go",
               "server/schema/schema.go", "server/snapshot/manager.go", "server/notification/notifier.go",
               "server/utils/local_lock.go"],
              ["C05", "C06", "C08", "C11", "C13", "C17", "C18"]),
}


def sh(cmd, cwd=None, timeout=900):
    try:
        p = subprocess.run(cmd, shell=True, cwd=cwd, env=ENV, stdout=subprocess.PIPE, stderr=subprocess.STDOUT, timeout=timeout)
        return p.returncode, p.stdout.decode(errors="replace")
    except subprocess.TimeoutExpired:
        return 124, "timeout"


def setup():
    os.makedirs(ROOT, exist_ok=True)
    shutil.rmtree(REPO, ignore_errors=True)
    shutil.rmtree(HARN, ignore_errors=True)
    rc, out = sh("git -C /repo archive --format=tar HEAD | (mkdir -p %s && tar -x -C %s)" % (REPO, REPO))
    assert rc == 0, out
    shutil.copytree("/verif/harness", HARN)
    gm = open(HARN + "/go.mod").read().replace("=> /repo", "=> " + REPO)
    assert REPO in gm
    open(HARN + "/go.mod", "w").write(gm)
    sh("cat %s/go.sum %s/server/go.sum %s/client/go.sum go.sum.extra | sort -u > go.sum" % (REPO, REPO, REPO), cwd=HARN)
    rc, out = sh("go build -tags verif -o %s/bin/vcheck ./cmd/vcheck && go build -race -tags verif -o %s/bin/vcheck-race ./cmd/vcheck" % (ROOT, ROOT), cwd=HARN)
    assert rc == 0, out[-2000:]


_unc = None


def dead(rel, line):
    global _unc
    if _unc is None:
        try:
            _unc = json.load(open("/var/tmp/cov/unc.json"))
        except Exception:
            _unc = {}
    for a, b, n in _unc.get("github.com/orda-io/orda/" + rel, []):
        if a <= line <= b:
            return True
    return False


def points(files):
    out = []
    for f in files:
        path = REPO + "/" + f
        if not os.path.exists(path):
            continue
        rc, txt = sh("/verif/mutation/mutgen %s" % path)
        for l in txt.splitlines():
            try:
                p = json.loads(l)
            except Exception:
                continue
            p["rel"] = f
            if dead(f, p["line"]):
                continue  # never executed by any quick check (coverage run): dead or out-of-scope code
            out.append(p)
    return out


def run_group(name, n, seed):
    files, checks = GROUPS[name]
    pts = points(files)
    rnd = random.Random(seed * 1000003 + hash(name) % 1000)
    rnd.shuffle(pts)
    done = set()
    if os.path.exists(ROOT + "/results.jsonl"):
        for l in open(ROOT + "/results.jsonl"):
            try:
                r = json.loads(l)
                done.add((r["rel"], r["start"], r["repl"]))
            except Exception:
                pass
    count = 0
    for p in pts:
        if count >= n:
            break
        key = (p["rel"], p["start"], p["repl"])
        if key in done:
            continue
        path = REPO + "/" + p["rel"]
        src = open(path, "rb").read()
        mut = src[:p["start"]] + p["repl"].encode() + src[p["end"]:]
        open(path, "wb").write(mut)
        res = dict(p, group=name, t=time.time())
        try:
            mod = p["rel"].split("/")[0]
            rc, out = sh("go build ./... && go build -tags verif ./...", cwd=REPO + "/" + mod, timeout=300)
            if rc != 0:
                res["status"] = "no-compile"
                continue
            if mod == "client":
                rc2, _ = sh("go build ./... ", cwd=REPO + "/server", timeout=300)
                rc, out = sh("go test -vet=off -count=1 ./pkg/...", cwd=REPO + "/client", timeout=600)
                if rc != 0 or rc2 != 0:
                    res["status"] = "killed-by-baseline"
                    continue
            rc, out = sh("go build -tags verif -o %s/bin/vcheck ./cmd/vcheck" % ROOT, cwd=HARN, timeout=600)
            if rc != 0:
                res["status"] = "harness-no-compile"
                res["out"] = out[-500:]
                continue
            if any(c in ("C12", "C18", "C20") for c in checks):
                rc, out = sh("go build -race -tags verif -o %s/bin/vcheck-race ./cmd/vcheck" % ROOT, cwd=HARN, timeout=900)
            count += 1
            res["status"] = "survived"
            res["checks"] = {}
            for chk in checks:
                rc, out = sh("VERIF_SKIP_BUILD=1 VERIF_BIN_DIR=%s/bin VERIF_OUT_DIR=%s/out ./check %s quick" % (ROOT, ROOT, chk), cwd="/verif", timeout=900)
                res["checks"][chk] = rc
                if rc == 1:
                    res["status"] = "caught"
                    res["by"] = chk
                    sig = [l.strip() for l in out.splitlines() if "signature-tally" in l][:2]
                    res["sig"] = sig
                    break
                if rc not in (0, 1):
                    res.setdefault("odd", []).append((chk, rc, out[-300:]))
        finally:
            open(path, "wb").write(src)
            with open(ROOT + "/results.jsonl", "a") as f:
                f.write(json.dumps(res) + "\n")
            print(name, p["rel"], p["line"], p["kind"], repr(p["orig"][:40]), "->", repr(p["repl"][:20]), res.get("status"), res.get("by", ""), flush=True)


if __name__ == "__main__":
    grp, n = sys.argv[1], int(sys.argv[2])
    seed = int(sys.argv[3]) if len(sys.argv) > 3 else 1
    if not os.path.exists(HARN) or os.environ.get("MUT_SETUP"):
        setup()
    for g in (GROUPS if grp == "all" else [grp]):
        run_group(g, n, seed)
