// mutgen lists small syntactic mutation points of Go source files as JSON lines:
//
//	go run mutgen.go file.go ...
//
// Each point is a byte range of the file and its replacement text. Kinds: relational and
// arithmetic operator swaps, boolean connective swaps, negated conditions, integer literal
// shifts, removed statements (calls, assignments, inc/dec), early "continue" removal.
package main

import (
	"encoding/json"
	"fmt"
	"go/ast"
	"go/parser"
	"go/token"
	"os"
)

type point struct {
	File  string `json:"file"`
	Line  int    `json:"line"`
	Kind  string `json:"kind"`
	Start int    `json:"start"`
	End   int    `json:"end"`
	Repl  string `json:"repl"`
	Orig  string `json:"orig"`
	Func  string `json:"func"`
}

var swaps = map[token.Token][]string{
	token.LSS: {"<="}, token.LEQ: {"<"}, token.GTR: {">="}, token.GEQ: {">"},
	token.EQL: {"!="}, token.NEQ: {"=="},
	token.ADD: {"-"}, token.SUB: {"+"},
	token.LAND: {"||"}, token.LOR: {"&&"},
}

func main() {
	enc := json.NewEncoder(os.Stdout)
	for _, path := range os.Args[1:] {
		src, err := os.ReadFile(path)
		if err != nil {
			fmt.Fprintln(os.Stderr, err)
			continue
		}
		fset := token.NewFileSet()
		f, err := parser.ParseFile(fset, path, src, 0)
		if err != nil {
			fmt.Fprintln(os.Stderr, err)
			continue
		}
		off := func(p token.Pos) int { return fset.Position(p).Offset }
		emit := func(fn string, kind string, s, e token.Pos, repl string) {
			a, b := off(s), off(e)
			enc.Encode(point{File: path, Line: fset.Position(s).Line, Kind: kind, Start: a, End: b, Repl: repl, Orig: string(src[a:b]), Func: fn})
		}
		for _, d := range f.Decls {
			fd, ok := d.(*ast.FuncDecl)
			if !ok || fd.Body == nil {
				continue
			}
			name := fd.Name.Name
			if name == "String" || name == "ToString" || name == "GetSummary" {
				continue
			}
			ast.Inspect(fd.Body, func(n ast.Node) bool {
				switch x := n.(type) {
				case *ast.CallExpr:
					// skip logging calls entirely
					if se, ok := x.Fun.(*ast.SelectorExpr); ok {
						switch se.Sel.Name {
						case "Infof", "Warnf", "Errorf", "Debugf", "Sprintf", "Fprintf":
							return false
						}
					}
				case *ast.BinaryExpr:
					for _, r := range swaps[x.Op] {
						emit(name, "op", x.OpPos, x.OpPos+token.Pos(len(x.Op.String())), r)
					}
				case *ast.IfStmt:
					if x.Init == nil {
						a, b := off(x.Cond.Pos()), off(x.Cond.End())
						emit(name, "negate-if", x.Cond.Pos(), x.Cond.End(), "!("+string(src[a:b])+")")
					}
				case *ast.BasicLit:
					if x.Kind == token.INT && (x.Value == "0" || x.Value == "1") {
						r := "1"
						if x.Value == "1" {
							r = "0"
						}
						emit(name, "int", x.Pos(), x.End(), r)
					}
				case *ast.ExprStmt:
					if _, ok := x.X.(*ast.CallExpr); ok {
						emit(name, "drop-call", x.Pos(), x.End(), "")
					}
				case *ast.IncDecStmt:
					emit(name, "drop-incdec", x.Pos(), x.End(), "")
				case *ast.AssignStmt:
					if x.Tok == token.ASSIGN || x.Tok == token.ADD_ASSIGN || x.Tok == token.SUB_ASSIGN {
						emit(name, "drop-assign", x.Pos(), x.End(), "")
					}
				case *ast.BranchStmt:
					if x.Tok == token.CONTINUE || x.Tok == token.BREAK {
						emit(name, "drop-branch", x.Pos(), x.End(), "")
					}
				}
				return true
			})
		}
	}
}
