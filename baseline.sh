#!/bin/bash
# Runs the repository's baseline suite (the command of /root/.vp/BASELINE.json) with the
# verif tag OFF and compares the passing tests with the 53 stable ones.
export GOFLAGS=-mod=mod GOPROXY=off GOSUMDB=off GOTOOLCHAIN=local
out=$(mktemp /var/tmp/baseline.XXXXXX)
for m in $(cat /w/out/gomods.txt); do MF=$(cd /repo/$m && . /w/out/goenv.sh && gomodflag); (cd /repo/$m && go test $MF -json -vet=off -count=1 -timeout 25m ./... ); done > "$out" 2>/dev/null
python3 - "$out" <<'PY'
import json,sys
base=json.load(open('/root/.vp/BASELINE.json'))
stable=set(base['stable_pass'])
passed=set()
for l in open(sys.argv[1]):
    try: e=json.loads(l)
    except: continue
    if e.get('Action')=='pass' and e.get('Test'):
        passed.add(e['Package']+'::'+e['Test'])
missing=sorted(stable-passed)
print("baseline: %d of %d stable tests pass"%(len(stable&passed),len(stable)))
for m in missing: print("  MISSING", m)
sys.exit(1 if missing else 0)
PY
rc=$?
rm -f "$out"
exit $rc
