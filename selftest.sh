#!/bin/bash
# ./selftest.sh <patch-file> <ID> [tier] [seed]
# Applies a source change to /repo's working tree, runs the check, restores the tree.
# Expected outcome for a mutant that breaks the property: exit 1 with a VIOLATION line.
set -u
PATCH="$(readlink -f "$1")"; ID="$2"; TIER="${3:-quick}"; SEED="${4:-1}"
cd /repo || exit 2
if [ -n "$(git status --porcelain)" ]; then echo "selftest: /repo working tree is not clean"; exit 2; fi
restore() { git -C /repo checkout -- . ; git -C /repo clean -fdq ; }
trap restore EXIT
git apply "$PATCH" || { echo "selftest: patch does not apply"; exit 2; }
cd /verif && VERIF_SEED="$SEED" ./check "$ID" "$TIER" > /tmp/selftest.$$.out 2>&1
rc=$?
grep -E "^VIOLATION|signature-tally|^C[0-9]+ tier|BUILD-FAILED|KNOWN-FINDING|BROKEN" /tmp/selftest.$$.out | head -12
rm -f /tmp/selftest.$$.out
echo "selftest: $(basename "$PATCH") on $ID/$TIER -> exit $rc"
exit $rc
