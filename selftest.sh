#!/bin/bash
# ./selftest.sh <patch-file> <ID> [tier] [seed]
# Builds the check's workers from /repo + a source change (applied only during the build,
# under the exclusive /repo build lock), runs the check from those binaries with output in a
# scratch directory. Expected for a change that breaks the property: exit 1 + VIOLATION line.
V="$(cd "$(dirname "$0")" && pwd)"   # the /verif tree these scripts belong to (also a snapshot of it)
set -u
PATCH="$(readlink -f "$1")"; ID="$2"; TIER="${3:-quick}"; SEED="${4:-1}"
SCR=/var/tmp/verif-selftest/$$
LOCK=/var/tmp/verif-repo.lock
mkdir -p "$SCR"
(
  flock -x 9
  cd /repo || exit 2
  if [ -n "$(git status --porcelain)" ]; then echo "selftest: /repo working tree is not clean"; exit 2; fi
  git apply "$PATCH" || { echo "selftest: patch does not apply"; exit 2; }
  (cd "$V" && VERIF_REPO_LOCKED=1 VERIF_BIN_DIR="$SCR/bin" ./check "$ID" --build-only); rc=$?
  git checkout -q -- . ; git clean -fdq
  exit $rc
) 9>"$LOCK" || { rm -rf "$SCR"; echo "selftest: build failed"; exit 2; }
cd "$V" && VERIF_SKIP_BUILD=1 VERIF_BIN_DIR="$SCR/bin" VERIF_OUT_DIR="$SCR" VERIF_SEED="$SEED" ./check "$ID" "$TIER" > "$SCR/out" 2>&1
rc=$?
grep -E "^VIOLATION|signature-tally|^C[0-9]+ tier|BUILD-FAILED|KNOWN-FINDING|BROKEN" "$SCR/out" | head -12
rm -rf "$SCR"
echo "selftest: $(basename "$PATCH") on $ID/$TIER -> exit $rc"
exit $rc
