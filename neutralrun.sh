#!/bin/bash
# ./neutralrun.sh <id> [checks...]   runs the quick tier of all (or the named) checks against a behaviour-preserving
# change (/tmp/seed-<id>/OUT/patch.diff or $V/seeded/<id>/patch.diff). Expected: every check exits 0.
# The change is applied to /repo only while the worker binaries are built (exclusive build lock).
V="$(cd "$(dirname "$0")" && pwd)"   # the /verif tree these scripts belong to (also a snapshot of it)
set -u
export GOFLAGS=-mod=mod GOPROXY=off GOSUMDB=off GOTOOLCHAIN=local
ID="$1"; shift
CHECKS="${*:-C01 C02 C03 C04 C05 C06 C07 C08 C09 C10 C11 C12 C13 C14 C15 C16 C17 C18 C19 C20}"
OUT=$V/seeded/$ID
SCR=/var/tmp/verif-neutral/$ID
LOCK=/var/tmp/verif-repo.lock
mkdir -p "$OUT" "$SCR"
if [ -f /tmp/seed-$ID/OUT/patch.diff ]; then cp /tmp/seed-$ID/OUT/patch.diff /tmp/seed-$ID/OUT/meta.json "$OUT"/ 2>/dev/null; fi
PATCH="$OUT/patch.diff"
[ -f "$OUT/patch-rebased.diff" ] && PATCH="$OUT/patch-rebased.diff"   # the same change on a later /repo head
(
  flock -x 9
  cd /repo || exit 2
  [ -n "$(git status --porcelain)" ] && { echo "/repo not clean"; exit 2; }
  git apply --check "$PATCH" 2>/dev/null || { echo "[$ID] patch does not apply"; exit 3; }
  git apply "$PATCH"
  base=$( (cd client && go test -vet=off -count=1 ./pkg/... 2>&1 | grep -c "^ok") )
  sb=$( (cd server && go build ./... && go build -tags verif ./...) >/dev/null 2>&1 && echo ok || echo FAIL)
  echo "[$ID] baseline packages ok: $base/6, server build: $sb"
  (cd "$V" && VERIF_REPO_LOCKED=1 VERIF_BIN_DIR="$SCR/bin" ./check C12 --build-only && VERIF_REPO_LOCKED=1 VERIF_BIN_DIR="$SCR/bin" ./check C08 --build-only); rc=$?   # C12: both worker binaries; C08: the server binary of the process cases
  git checkout -q -- . ; git clean -fdq
  exit $rc
) 9>"$LOCK" || { echo "[$ID] build failed"; exit 2; }
res=""
for chk in $CHECKS; do
  (cd "$V" && VERIF_SKIP_BUILD=1 VERIF_BIN_DIR="$SCR/bin" VERIF_OUT_DIR="$SCR" ./check $chk quick > "$SCR/$chk.out" 2>&1); rc=$?
  sig=$(grep "signature-tally" "$SCR/$chk.out" | head -3 | sed 's/ *signature-tally: *//' | tr '\n' ';' | cut -c1-200)
  [ $rc -ne 0 ] && echo "[$ID] ALARM $chk -> exit $rc  $sig $(grep -E 'BROKEN|INCONCLUSIVE|HARNESS' "$SCR/$chk.out" | head -2 | cut -c1-200)"
  res="$res $chk=$rc"
done
echo "[$ID] quick exit codes:$res"
rm -rf "$SCR/bin" "$SCR/work"
python3 - "$OUT/meta.json" "$res" <<'PY'
import json,sys
p=sys.argv[1]
try: m=json.load(open(p))
except Exception: m={}
m.setdefault('confirmed_by_verif',{})['checks_quick_exit_codes']=sys.argv[2].strip()
json.dump(m,open(p,'w'),indent=1)
PY
