#!/usr/bin/env python3
"""matrix_update.py <seedauto logs...>   replaces / adds the rows of CATCH_MATRIX.md for the seeded changes
that were re-run one by one after the last full ./matrix.sh run (lines '[ID] check CNN quick -> exit N  sigs')."""
import re, sys, collections
new = collections.OrderedDict()
for f in sys.argv[1:]:
    for l in open(f, errors='replace'):
        m = re.match(r'\[(\w+)\] check (C\d+) quick -> exit (\d+)\s*(.*)', l)
        if m:
            i, c, rc, sig = m.groups()
            new.setdefault(i, collections.OrderedDict())[c] = (rc, sig.strip()[:120])
lines = open('/verif/CATCH_MATRIX.md').read().split('\n')
out, seen = [], set()
for l in lines:
    m = re.match(r'\| seeded \| (\w+) \| (C\d+|-) \|', l)
    if m and m.group(1) in new:
        i = m.group(1)
        if i not in seen:
            seen.add(i)
            for c, (rc, sig) in new[i].items():
                out.append('| seeded | %s | %s | %s | %s |' % (i, c, rc, sig))
        continue
    if l.startswith('changes:'):
        continue
    out.append(l)
while out and out[-1] == '':
    out.pop()
for i, v in new.items():
    if i not in seen:
        for c, (rc, sig) in v.items():
            out.append('| seeded | %s | %s | %s | %s |' % (i, c, rc, sig))
open('/verif/CATCH_MATRIX.md', 'w').write('\n'.join(out) + '\n')
print('updated', len(new), 'changes')
