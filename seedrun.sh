#!/bin/bash
# ./seedrun.sh <seed-dir-id> <module(client|server)> <pkg-dir-rel-to-module> <demo-file> <run-regex> <check-ids...>
# Confirms a seeded change in its scratch worktree /tmp/seed-<id> (existing tests pass, demo
# fails with / passes without the change), stores it under $V/seeded/<id>/ and runs the
# named checks against it: the change is applied to /repo only while the worker binaries are
# built (under the exclusive /repo build lock), undone straight afterwards; the checks then
# run from those binaries and write their evidence / replays to a scratch directory, never to
# /verif/evidence.
# With VERIF_SEED_ONLY_CHECKS=1 the confirmation part is skipped (re-run of a stored seed).
V="$(cd "$(dirname "$0")" && pwd)"   # the /verif tree these scripts belong to (also a snapshot of it)
set -u
export GOFLAGS=-mod=mod GOPROXY=off GOSUMDB=off GOTOOLCHAIN=local
ID="$1"; MOD="$2"; PKG="$3"; DEMO="$4"; RX="$5"; shift 5
W=/tmp/seed-$ID
OUT=$V/seeded/$ID
TIER="${VERIF_SEED_TIER:-quick}"
SCR=/var/tmp/verif-seedrun/$ID
LOCK=/var/tmp/verif-repo.lock
mkdir -p "$OUT" "$SCR"
res_tests=-; res_build=-; with=-; without=-
if [ -z "${VERIF_SEED_ONLY_CHECKS:-}" ]; then
  cp "$W"/OUT/* "$OUT"/ 2>/dev/null
  cd "$W" || exit 2
  git checkout -q -- . ; git clean -fdq -e OUT
  git apply OUT/patch.diff || { echo "patch does not apply in its own worktree"; exit 2; }
  res_tests=$(cd client && go test -vet=off -count=1 ./pkg/... 2>&1 | grep -c "^ok")
  res_build=$( (cd server && go build ./... ) >/dev/null 2>&1 && echo ok || echo FAIL)
  cp "OUT/$DEMO" "$MOD/$PKG/"
  with=$( (cd $MOD && go test -vet=off -count=1 -run "$RX" ./$PKG/ ) 2>&1 | tail -1 | cut -c1-80)
  git apply -R OUT/patch.diff
  without=$( (cd $MOD && go test -vet=off -count=1 -run "$RX" ./$PKG/ ) 2>&1 | tail -1 | cut -c1-80)
  rm -f "$MOD/$PKG/$DEMO"
  git checkout -q -- . ; git clean -fdq -e OUT
  echo "[$ID] client tests ok packages: $res_tests/6, server build: $res_build"
  echo "[$ID] demo with change   : $with"
  echo "[$ID] demo without change: $without"
fi
# build the workers from /repo + change
PATCH="$OUT/patch.diff"
[ -f "$OUT/patch-rebased.diff" ] && PATCH="$OUT/patch-rebased.diff"
results=""
built=no
(
  flock -x 9
  cd /repo || exit 2
  if [ -n "$(git status --porcelain)" ]; then echo "/repo not clean"; exit 2; fi
  if ! git apply --check "$PATCH" 2>/dev/null; then echo "[$ID] patch does not apply to /repo HEAD"; exit 3; fi
  git apply "$PATCH"
  rc=0
  for chk in "$@"; do
    (cd "$V" && VERIF_REPO_LOCKED=1 VERIF_BIN_DIR="$SCR/bin" ./check $chk --build-only) || rc=4
  done
  git checkout -q -- . ; git clean -fdq
  exit $rc
) 9>"$LOCK"
brc=$?
if [ $brc -eq 0 ]; then
  for chk in "$@"; do
    (cd "$V" && VERIF_SKIP_BUILD=1 VERIF_BIN_DIR="$SCR/bin" VERIF_OUT_DIR="$SCR" ./check $chk $TIER > "$SCR/$chk.out" 2>&1); rc=$?
    sigs=$(grep "signature-tally" "$SCR/$chk.out" | head -4 | sed 's/ *signature-tally: *//' | tr '\n' ';' | cut -c1-300)
    echo "[$ID] check $chk $TIER -> exit $rc  $sigs"
    results="$results $chk=$rc"
  done
else
  echo "[$ID] build with the change failed (rc=$brc)"; results="build-failed"
fi
rm -rf "$SCR/bin" "$SCR/work"
python3 - "$OUT/meta.json" "$res_tests" "$res_build" "$with" "$without" "$results" <<'PY'
import json,sys
p=sys.argv[1]
try: m=json.load(open(p))
except Exception: m={}
c=m.get('confirmed_by_verif',{})
if sys.argv[2]!='-':
    c.update({'client_test_packages_ok':sys.argv[2],'server_build':sys.argv[3],'demo_with_change':sys.argv[4],'demo_without_change':sys.argv[5]})
old=dict(x.split('=') for x in c.get('checks_quick_exit_codes','').split() if '=' in x)
old.update(dict(x.split('=') for x in sys.argv[6].split() if '=' in x))
c['checks_quick_exit_codes']=' '.join('%s=%s'%kv for kv in sorted(old.items()))
m['confirmed_by_verif']=c
json.dump(m,open(p,'w'),indent=1)
PY
