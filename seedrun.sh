#!/bin/bash
# ./seedrun.sh <seed-dir-id> <module(client|server)> <pkg-dir-rel-to-module> <demo-file> <run-regex> <check-ids...>
# Confirms a seeded change in its scratch worktree (existing tests pass, demo fails with /
# passes without the change), stores it under /verif/seeded/<id>/ and runs the named checks
# against it (apply to /repo, run, undo).
set -u
export GOFLAGS=-mod=mod GOPROXY=off GOSUMDB=off GOTOOLCHAIN=local
ID="$1"; MOD="$2"; PKG="$3"; DEMO="$4"; RX="$5"; shift 5
W=/tmp/seed-$ID
OUT=/verif/seeded/$ID
mkdir -p "$OUT"
cp "$W"/OUT/* "$OUT"/ 2>/dev/null
cd "$W" || exit 2
git checkout -q -- . ; git clean -fdq -e OUT
git apply OUT/patch.diff || { echo "patch does not apply in its own worktree"; exit 2; }
res_tests=$(cd client && go test -vet=off -count=1 ./pkg/... 2>&1 | grep -c "^ok")
res_build=$( (cd server && go build ./... ) >/dev/null 2>&1 && echo ok || echo FAIL)
cp "OUT/$DEMO" "$MOD/$PKG/"
with=$( (cd $MOD && go test -vet=off -count=1 -run "$RX" ./$PKG/ ) 2>&1 | tail -1 | cut -c1-80)
git apply -R OUT/patch.diff
without=$( (cd $MOD && go test -vet=off -count=1 -run "$RX" ./$PKG/ ) 2>&1 | tail -1 | cut -c1-80)
rm -f "$MOD/$PKG/$DEMO"
git checkout -q -- . ; git clean -fdq -e OUT
echo "[$ID] client tests ok packages: $res_tests/6, server build: $res_build"
echo "[$ID] demo with change   : $with"
echo "[$ID] demo without change: $without"
# against /repo
cd /repo || exit 2
if [ -n "$(git status --porcelain)" ]; then echo "/repo not clean"; exit 2; fi
if ! git apply --check "$OUT/patch.diff" 2>/dev/null; then echo "[$ID] patch does not apply to /repo HEAD"; applies=no; else applies=yes; fi
results=""
if [ "$applies" = yes ]; then
  for chk in "$@"; do
    git apply "$OUT/patch.diff"
    (cd /verif && ./check $chk quick > /tmp/seedrun.$$.out 2>&1); rc=$?
    git checkout -q -- . ; git clean -fdq
    sigs=$(grep "signature-tally" /tmp/seedrun.$$.out | head -4 | sed 's/ *signature-tally: *//' | tr '\n' ';' | cut -c1-300)
    echo "[$ID] check $chk quick -> exit $rc  $sigs"
    results="$results $chk=$rc"
  done
fi
rm -f /tmp/seedrun.$$.out
python3 - "$OUT/meta.json" "$res_tests" "$res_build" "$with" "$without" "$results" <<'PY'
import json,sys
p=sys.argv[1]
try: m=json.load(open(p))
except Exception: m={}
m['confirmed_by_verif']={'client_test_packages_ok':sys.argv[2],'server_build':sys.argv[3],'demo_with_change':sys.argv[4],'demo_without_change':sys.argv[5],'checks_quick_exit_codes':sys.argv[6].strip()}
json.dump(m,open(p,'w'),indent=1)
PY
