#!/bin/bash
# Run once after a fresh restore, offline: pre-builds the check binaries (normal and -race)
# from files on disk only, so that the first ./check does not pay the cold build.
set -e
cd "$(dirname "$0")"
export GOFLAGS=-mod=mod GOPROXY=off GOSUMDB=off GOTOOLCHAIN=local
mkdir -p bin evidence replays work
( cd harness && cat /repo/go.sum /repo/server/go.sum /repo/client/go.sum go.sum.extra | sort -u > go.sum \
  && go build -tags verif -o ../bin/vcheck ./cmd/vcheck \
  && go build -race -tags verif -o ../bin/vcheck-race ./cmd/vcheck )
( cd /repo/server && go build -tags verif -o /verif/bin/orda-server . )
echo "setup ok"
