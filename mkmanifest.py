#!/usr/bin/env python3
"""Regenerates /verif/MANIFEST.json from the table below (kept in one place so that the
manifest stays valid and consistent with what ./check implements)."""
import json, os, subprocess

HERE = os.path.dirname(os.path.abspath(__file__))

ENGINES = [
    {"name": "E-crdt", "path": "harness/crdt", "kind_free_text": "real client replicas (public API + iface.Datatype) over a deterministic log-order mini-server; reference models (RGA tree, LWW, int32 sum); seeded histories; worker processes",
     "serves_properties": ["C01", "C02", "C03", "C04", "C09", "C10", "C14", "C15", "C19"]},
    {"name": "E-svc", "path": "harness/bed", "kind_free_text": "real server/service + mongodb + snapshot + notification code over in-memory MongoDB wire-protocol and MQTT stand-ins (fault plans, command log, store dump/diff); direct mode and real grpc",
     "serves_properties": ["C05", "C06", "C07", "C08", "C11", "C12", "C13", "C16", "C17", "C18", "C19", "C20"]},
]

# id -> (level, technique, text, note, design_ref)
TRUST_CRDT = "Trusted: the harness (log-order mini-server, generators, reference models, monitors) and the Go runtime; replicas are the real client code reached through the public API and iface.Datatype. Exploration: says nothing about histories not generated."

CHECKS = {
    "C01": ("exploration", "runtime monitoring: convergence oracle over seeded multi-replica histories of the real datatypes",
            "Held on the K seeded histories reported in the evidence file: 2-4 real replicas per history, every public mutator, batches >= 11, nested and Go-native values, clocks past 10/100/1000 and near 2^32/2^53/2^62, partial deliveries in log order, forced quiescent points and continuation, equal-clock bursts (every replica writes at the same place right after a quiescent point), committed and aborted transactions, an array-of-containers phase in a third of the document histories; at each quiescent point all replicas are compared (canonical JSON view, sizes, sweep of element reads). Exploration is the right level: the space of histories x schedules is unbounded and the oracle is exact at each quiescent point.",
            TRUST_CRDT + " The harness log reproduces the server's delivery contract (decided separately by C05/C06).",
            "DESIGN.md §4 C01"),
    "C02": ("exploration", "runtime monitoring: reference-model comparator (int32 sum, LWW by (lamport,cuid), RGA tree) computed from the emitted operations only",
            "Every replica and a log replay (the server's own copy) are compared with the outcome computed from the emitted operations alone, on conflict-dense seeded histories; a consistently wrong winner is therefore detected, not only divergence.",
            TRUST_CRDT + " The document reference derives container identities for the root, the top node of a put value and array elements only; the generator keeps object values flat accordingly.",
            "DESIGN.md §4 C02"),
    "C03": ("exploration", "runtime monitoring: lock-step comparison of one replica with the plain data structure after every call, valid and invalid arguments",
            "Every call's error-ness, return value, readable state, size and pending-operation count are compared with an executable plain-structure model after each call of seeded sequences that mix valid calls, each listed class of invalid call, reads, committed and aborted transactions (an aborted one must leave view, reads and pending operations as before) and calls on deleted child documents; document calls are compared by return value too (previous value of a put over a present key, of a remove, of array delete / update; range reads on arrays); panics are caught with the call as witness.",
            TRUST_CRDT + " Calls the statement does not classify (remove of a missing key, zero-value insert, empty document key) may error or be a no-op; the return value of a put over a removed (tombstoned) key is not judged.",
            "DESIGN.md §4 C03"),
    "C04": ("exploration", "runtime monitoring: per-step sequence observer with unique tags (no duplicate / lost / resurrected element, insert-at-index, global pairwise order relation never contradicted)",
            "After every step of every seeded history the touched replica's whole sequence is read; membership is checked against the operations that replica has applied, and a global before-relation over element identities must never be contradicted on any replica at any moment (not only at quiescence); histories contain committed and aborted transactions, so replicas also hold state restored from their own snapshot export.",
            TRUST_CRDT, "DESIGN.md §4 C04"),
    "C09": ("exploration", "runtime monitoring: before/after state comparison around failing transactions, same-identity twin, unit structure check, malformed-unit delivery with panic/hang watchdog",
            "Failing transactions (random bodies) are bracketed by full state observations (view, reads, meta, pending operations); a twin with the same identity that skips them must stay equal, also in the operations emitted afterwards; committed units are checked for header count and contiguity; a failing transaction nested on a child handle inside a transaction body must leave nothing readable or pending; truncated / mis-counted units are delivered to fresh replicas and must change nothing, not panic, not hang.",
            TRUST_CRDT + " Hang = delivery goroutine still inside ReceiveRemoteModelOperations on three stack samples.",
            "DESIGN.md §4 C09"),
    "C10": ("exploration", "runtime monitoring: original vs restored-from-snapshot instance under a shared continuation; canonical snapshot comparison",
            "At random points of multi-replica histories the state is exported and imported into a fresh instance; both then get the same continuation (local calls, transactions, remote deliveries addressing old tombstones and containers) and are compared after every step including emitted operation ids and bodies; the pair is exported again up to four times during the continuation and at the end and the exports are compared canonically (an export that lags behind the state shows there).",
            TRUST_CRDT + " Import = SetMetaAndSnapshot + ResetTransaction as the SDK's init does.",
            "DESIGN.md §4 C10"),
    "C14": ("exploration", "runtime monitoring: codec-chain round trip (proto, BSON document, decode, re-encode, echo service) with same-effect oracle on replicas",
            "Operations produced by real datatypes from Go-native values of every shape (integers of every width signed and unsigned, floats, strings, booleans, pointers to each of them, structs, typed slices and maps) go through every encoding stage; pointers to primitives are handed over as private copies that are overwritten as soon as the call returns, so a datatype that keeps the caller's pointer encodes something else than it applied; ids, types and JSON bodies must survive, the echo service must return an equivalent operation, and replicas fed with decoded operations must equal the issuing replica; a fifth of the histories run at a non-zero era; service stage (one case in eight): the operations (values of several KiB included) are pushed through the real service, every stored operation document is read back from the MongoDB stand-in and compared with what was sent, and a later subscriber plus the server's rebuild read what the issuing client reads.",
            TRUST_CRDT + " BSON stage of the codec chain = bson.Marshal/Unmarshal of schema.OperationDoc (what the repository layer stores); the service stage uses the real driver and the MongoDB stand-in; values are JSON-representable, strings valid UTF-8.",
            "DESIGN.md §4 C14"),
    "C15": ("exploration", "runtime monitoring: exhaustive bounded grid + random tuples for Hash injectivity and order axioms; identifier monitors on seeded histories",
            "Timestamp.Hash is checked injective over an exhaustive grid (2.4M keys) and 10^6 random tuples, the order axioms on 2x10^5 triples, and every history of C01/C03/C09/C15 runs under monitors for gapless client sequence numbers, causality of new operations and distinct identity keys.",
            TRUST_CRDT + " Grid bounds as stated in the evidence rule; clock differences < 2^62.",
            "DESIGN.md §4 C15"),
    "C19": ("exploration", "runtime monitoring: target-equality oracle on patched replica and on receiving replica, unit check of emitted operations; REST half over the real service",
            "Chains of seeded (current, target) pairs incl. keys needing JSON-pointer escaping, type changes and array growth/shrink/permutation; the patched document must equal the target, emit one unit, and bring a second replica to the target (through PatchByJSON and through explicit JSON-patch steps); invalid JSON and unpatchable step lists (also after valid steps) must be refused without a trace. REST half: OrdaService.PatchDocument against the stored document: answer, replay of the stored log, server rebuild and every subscribed client must equal the target after each patch of a chain.",
            TRUST_CRDT + " Targets contain no null. Every fourth case is a REST-half case over the E-svc bed (real service, in-memory MongoDB stand-in): document absent / created / subscribed, patches back to back and interleaved with pushes, with and without stored snapshots; one case in 200 goes over HTTP through the REST gateway of the repository's own server binary running as a child process.",
            "DESIGN.md §4 C19"),
}

TRUST_SVC = "Trusted: the harness and its stand-ins (fakemongo = in-memory MongoDB wire-protocol server for the command subset orda issues; fakemqtt = MQTT 3.1.1 broker subset), the Go runtime. Real: server/service, server/mongodb, server/snapshot, server/notification, server/managers, mongo-go-driver, paho, grpc, the client SDK. Only the in-process local lock is exercised (no Redis). Says nothing about executions not produced."

CHECKS.update({
    "C05": ("exploration", "runtime monitoring: convergence / exactly-once / checkpoint-monotonicity monitors over seeded multi-client sync scenarios against the real service",
            "Seeded scenarios of 1-6 MANUALLY clients, 1-3 datatypes each, all entry modes and late joins drive the real service over the in-memory MongoDB stand-in; after quiescence every subscribed client equals every other, the server's rebuilt copy (snapshot.Manager.GetLatestDatatype) and a replay of the stored log; the remote-operation handlers give exactly-once / log order / never-own; checkpoints never move backwards; store invariants after every request; every entry that is legal in the final state must have completed. Scenarios contain committed and aborted transactions; every fourth runs through the SDK's own Client.Sync() over real grpc (several datatypes per message, shuffled response packs, lost responses); a quarter have database reads inside handlers fail now and then (single packs aborted by the server).",
            TRUST_SVC, "DESIGN.md §4 C05"),
    "C06": ("exploration", "runtime monitoring: invariant checker over the stored collections after every request (gapless sseq, _id, end of log, per-client order, exactly-once against the boundary ledger, checkpoints)",
            "After EVERY request of seeded scenarios (incl. replays of old requests, stale checkpoints, empty pushes, batches of 1-200 operations, read-only syncs of writers and of a dedicated read-only reader) the stand-in's collections are read directly and checked per datatype: sseq = 1..n = recorded end of log, _id = duid:sseq, per-client seq 1,2,3,... in sseq order, each stored operation offered exactly once at the boundary, recorded and returned checkpoints covered by what is stored.",
            TRUST_SVC, "DESIGN.md §4 C06"),
    "C07": ("fault_enumeration", "runtime monitoring under enumerated message faults: the harness is the network (drop response / duplicate request / stale response / retry); exactly-once + convergence + store-invariant oracles after recovery",
            "Complete enumeration of at most two message faults over the five exchanges of 8 exchange patterns x 3 operation masks (x 2 types in the thorough tier) plus long random faulty histories on all four types (also lost / duplicated entry requests with both responses applied); after faults stop and everyone syncs to quiescence every issued operation is stored exactly once, every replica equals the fault-free replay of the stored log, no handler saw an operation twice or an own one.",
            TRUST_SVC + " Exhaustive only for the stated plan space.", "DESIGN.md §4 C07"),
    "C08": ("fault_enumeration", "runtime monitoring under enumerated storage faults: fail / sever / sever-after at every database command of every request (profiled from a fault-free run), restart of the service, retry; SIGKILL of a real server child process at database commands; recovery oracles",
            "For 7 scenario variants (create + subscribers; all subscribe-or-create plus a refused duplicate creator) every database command issued while serving each request (incl. those of the background snapshot goroutine) is in turn failed, severed before, and severed after execution; a new service incarnation starts, all clients retry; the faulted call must have been answered with an error (no panic, no hang), acknowledged operations are in the log, store invariants hold, retries reach quiescence, exactly one datatype document per key exists, and every replica and the server's rebuild agree with the stored log. Process cases: the repository's server binary runs as a child process behind a grpc front, SDK clients call Client.Sync() over real grpc, the process is SIGKILLed at database command k (before / after executing it), a new process starts on the same store and everybody retries; a server process that ends by itself is a violation. Collection cases: the same three faults at every database command of CreateCollection / ResetCollection of a second collection: an acknowledged creation / reset has really happened (collection stored; every datatype, operation, snapshot, client document and the user collection gone), a refused one succeeds when retried, the bystander collection never changes, new clients re-create the key and converge. After every recovery one more push is made and the user-visible document must then record the end of the log and equal its replay.",
            TRUST_SVC + " In the enumerated in-process cases server death is approximated (connections severed, service object abandoned); the process cases kill a real process. Injected command failures use a code the driver does not retry.", "DESIGN.md §4 C08"),
    "C11": ("exploration", "runtime monitoring: offline checker over the stored snapshots, user-collection writes (command log) and rebuilds vs replay of the stored log, with background updates held at database commands to overlap later pushes",
            "Every stored snapshot (duid, v) restored into a fresh datatype equals replay(1..v); every user-collection write leaves a stored document (post-image recorded by the stand-in, independent of the form of the update statement) with _orda_ver_ = v and the JSON view of replay(1..v); written versions per key never decrease (also when the document has a user key named like the version field); GetLatestDatatype equals the full replay for every position of the latest snapshot; schedules hold a background update at each of its database commands while later pushes commit, run updates back to back, or start them out of order.",
            TRUST_SVC + " Keys avoid NUL, '$' and '.'.", "DESIGN.md §4 C11"),
    "C12": ("exploration", "Go race detector + runtime monitors on real parallel executions: critical-section overlap monitor on hook events, porcupine linearizability of the recorded push-pull history against a sequential specification, independence gate, watchdog",
            "2-16 goroutines call the real service at the same instant on shared and distinct keys (own context each, cancelled on return) with injected yields at hook points and database commands; at most one handler per key inside the critical section; the call/return history of every key is linearizable against the push-pull specification (porcupine); requests on other keys return while one key's handler is held (independence probe: one existing and 40 fresh other keys); every request returns, also ones abandoned by their client (context cancelled before / during / exactly at lock acquisition), and the key stays usable afterwards; no race report attributed to orda code.",
            TRUST_SVC + " Schedules are those the Go scheduler produced under the injected delays; the evidence counts the distinct critical-section entry orders seen. porcupine timeout = inconclusive.", "DESIGN.md §4 C12"),
    "C13": ("exploration", "runtime monitoring: complete entry-mode matrix with outcome oracle (error handler, state transitions, store diff, single datatype document under races, first state vs replay)",
            "The complete matrix entry mode x existing datatype x other client (absent / first / racing) x point of history x type (432 cells) is executed with seeded repetitions; illegal entries must reach the error handler with an empty store diff and no transition to SUBSCRIBED, legal ones report SUBSCRIBED exactly once with a first state equal to the replay up to the response checkpoint; racing subscribe-or-create leaves exactly one datatype document; a first entry attempt aborted by the server (failing database command) must reach the error handler without SUBSCRIBED and the retry is judged like a first entry; an entry response delivered twice and a second open of a held key through the public API change nothing; a client id already recorded as subscriber that enters the key again as ANOTHER type (any mode, new DUID) is refused with unchanged store; every report of the state-change handler is truthful (starts at the state before, ends at the state the datatype is in).",
            TRUST_SVC + " The matrix is complete; histories around the cells are seeded samples.", "DESIGN.md §4 C13"),
    "C16": ("exploration", "runtime monitoring: request mutation (hostile requests) with answered/hang/panic watchdog, refused => empty store diff oracle, canary client; client half for error packs",
            "Valid requests captured from correct clients in every state are mutated in 1-3 fields (ids, keys, types, every option-bit combination, checkpoints, operation lists, client / collection fields) plus ClientMessage / PatchMessage / CollectionMessage / EncodingMessage variants; every call must be answered (a call that returns neither response nor error is not an answer), never crash the server, and a refusal must leave the store unchanged; a canary client must still be served afterwards, and a well-formed REST patch of the key and a fresh subscriber must be answered whatever the accepted hostile requests have left stored (incl. a correctly numbered pack whose transaction header over-counts); a panic injected inside a handler goroutine must be answered, survived and must not leave the key locked; after an ACCEPTED hostile request the structural log invariants of C06 must still hold; a handler fault in one pack of a two-pack message must still be answered with both packs; clients must survive every error pack and push again after a refused push, also through the SDK's own Client.Sync() (lost response, RPC refusal, error pack: the next Sync() must return and succeed); one case in five ends with valid requests unusual only in size or repetition (ONE message with 17-60 packs, 40 more registrations of one client, 20 more creations of an existing collection); one case in 150: a REST request that arrives while the server process shuts down gracefully (SIGTERM with a request still in progress) is answered while the shutdown is pending.",
            TRUST_SVC, "DESIGN.md §4 C16"),
    "C17": ("exploration", "runtime monitoring: store diff partitioned by owner after every request over several collections in a fresh store; foreign-request and reset oracles",
            "Seeded histories over 2-3 collections with overlapping keys: every request may touch only documents owned by its own collection and datatype; foreign requests must change and read nothing of the other collection; notifications caused by a sync are published on its own collection's topic with that collection's datatype id; ResetCollection removes exactly the owner's documents and leaves the rest byte-identical.",
            TRUST_SVC, "DESIGN.md §4 C17"),
    "C18": ("exploration", "runtime monitoring: publish-log checker (exactly one notification iff operations stored, content) + bounded-progress convergence of REALTIME clients over real grpc/paho under the race detector",
            "Deterministic part: after every request the broker stand-in's publish log grew by exactly one message {pusher, DUID, new end of log} per datatype that stored operations and by none otherwise. Realtime part: 2-5 REALTIME SDK clients only issue local operations; after logical quiescence all hold equal state with nothing left to push, also after epilogues steered by logical events (push in flight + second local operation + delayed earlier notification; later foreign push announced during the flight) and after a notification naming another datatype id on the key's topic; own notifications trigger no pull.",
            TRUST_SVC + " 'Eventually' is decided as bounded progress to logical quiescence (60 s watchdog => inconclusive). Race reports of this workload are advisory (counted, decided under C20).", "DESIGN.md §4 C18"),
    "C20": ("exploration", "Go race detector + runtime monitors on real parallel use of one datatype: conservation, gapless id order, transaction contiguity and isolation, porcupine linearizability of return values, deadlock/panic watchdog",
            "2-8 goroutines issue operations and transactions (a quarter aborted by their own body; documents: also through child handles kept from inside a transaction body) on one datatype of each type while a background goroutine syncs with the real service and remote operations arrive, with yields injected inside BeginTransaction / unlock; the counter equals the sum of successful deltas, every successful call is queued exactly once in identifier order, transaction units are contiguous and isolated (also as seen by a pack observer reading CreatePushPullPack while units are in progress: a pack never ends inside a unit), the second client's recognisable units are never seen half-applied inside a local transaction, a transaction that fails after staying open while a pending call was pushed and acknowledged leaves nothing behind, return values are linearizable, no deadlock / panic, and race reports are classified (mutator paths: violation; unlocked public readers: known finding).",
            TRUST_SVC + " One known finding (readers outside the lock) is listed in known_findings.json.", "DESIGN.md §4 C20"),
})

PENDING_REASON = "check not built yet in this revision of /verif (work in progress; DESIGN.md §4 describes the planned monitor)"

ALL = ["C%02d" % i for i in range(1, 21)]


def main():
    hooks_commits = []
    try:
        out = subprocess.run(["git", "-C", "/repo", "log", "--format=%H %s"], capture_output=True, text=True).stdout
        for line in out.splitlines():
            h, _, s = line.partition(" ")
            if s.startswith("verif-hooks:"):
                hooks_commits.append(h)
    except Exception:
        pass
    baseline = json.load(open("/root/.vp/BASELINE.json"))["cmd"]
    m = {
        "version": 1,
        "setup_cmd": "./setup.sh",
        "hooks": {
            "guard": "verif",
            "enable": "go build -tags verif (harness module /verif/harness replaces the three orda modules with /repo, /repo/client, /repo/server)",
            "baseline_off_cmd": baseline,
            "source_commits": hooks_commits,
            "add_only": True,
        },
        "engines": ENGINES,
        "checks": [],
        "not_applicable": [],
        "notes": "Technique family: runtime monitoring and sanitizers. ./check <ID> <tier> rebuilds the worker from /repo's current tree (build tag verif), fans seeded cases out to worker processes, writes evidence/<ID>.json; known findings are in known_findings.json; see DESIGN.md.",
    }
    for pid in ALL:
        if pid in CHECKS:
            level, tech, text, note, ref = CHECKS[pid]
            m["checks"].append({
                "property_id": pid,
                "quick_cmd": "./check %s quick" % pid,
                "thorough_cmd": "./check %s thorough" % pid,
                "evidence_file": "evidence/%s.json" % pid,
                "replay_cmd_template": "./check %s --replay {path}" % pid,
                "engine": "E-crdt" if pid in ENGINES[0]["serves_properties"] else "E-svc",
                "level_claimed": {"category": level, "text": text, "design_ref": ref},
                "level_note": note,
                "technique": tech,
            })
        else:
            m["not_applicable"].append({"property_id": pid, "reason": PENDING_REASON})
    json.dump(m, open(os.path.join(HERE, "MANIFEST.json"), "w"), indent=1)
    print("MANIFEST.json: %d checks, %d not applicable" % (len(m["checks"]), len(m["not_applicable"])))


if __name__ == "__main__":
    main()
