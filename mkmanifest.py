#!/usr/bin/env python3
"""Regenerates /verif/MANIFEST.json from the table below (kept in one place so that the
manifest stays valid and consistent with what ./check implements)."""
import json, os, subprocess

HERE = os.path.dirname(os.path.abspath(__file__))

ENGINES = [
    {"name": "E-crdt", "path": "harness/crdt", "kind_free_text": "real client replicas (public API + iface.Datatype) over a deterministic log-order mini-server; reference models (RGA tree, LWW, int32 sum); seeded histories; worker processes",
     "serves_properties": ["C01", "C02", "C03", "C04", "C09", "C10", "C14", "C15", "C19"]},
    {"name": "E-svc", "path": "harness/bed", "kind_free_text": "real server/service + mongodb + snapshot + notification code over in-memory MongoDB wire-protocol and MQTT stand-ins (fault plans, command log, store dump/diff); direct mode and real grpc",
     "serves_properties": ["C05", "C06", "C07", "C08", "C11", "C12", "C13", "C16", "C17", "C18", "C19", "C20"]},
]

# id -> (level, technique, text, note, design_ref)
TRUST_CRDT = "Trusted: the harness (log-order mini-server, generators, reference models, monitors) and the Go runtime; replicas are the real client code reached through the public API and iface.Datatype. Exploration: says nothing about histories not generated."

CHECKS = {
    "C01": ("exploration", "runtime monitoring: convergence oracle over seeded multi-replica histories of the real datatypes",
            "Held on the K seeded histories reported in the evidence file: 2-4 real replicas per history, every public mutator, batches >= 11, nested and Go-native values, clocks past 10/100/1000 and near 2^32/2^53/2^62, partial deliveries in log order, forced quiescent points and continuation; at each quiescent point all replicas are compared (canonical JSON view, sizes, sweep of element reads). Exploration is the right level: the space of histories x schedules is unbounded and the oracle is exact at each quiescent point.",
            TRUST_CRDT + " The harness log reproduces the server's delivery contract (decided separately by C05/C06).",
            "DESIGN.md §4 C01"),
    "C02": ("exploration", "runtime monitoring: reference-model comparator (int32 sum, LWW by (lamport,cuid), RGA tree) computed from the emitted operations only",
            "Every replica and a log replay (the server's own copy) are compared with the outcome computed from the emitted operations alone, on conflict-dense seeded histories; a consistently wrong winner is therefore detected, not only divergence.",
            TRUST_CRDT + " The document reference derives container identities for the root, the top node of a put value and array elements only; the generator keeps object values flat accordingly.",
            "DESIGN.md §4 C02"),
    "C03": ("exploration", "runtime monitoring: lock-step comparison of one replica with the plain data structure after every call, valid and invalid arguments",
            "Every call's error-ness, return value, readable state, size and pending-operation count are compared with an executable plain-structure model after each call of seeded sequences that mix valid calls, each listed class of invalid call, reads, transactions and calls on deleted child documents; panics are caught with the call as witness.",
            TRUST_CRDT + " Calls the statement does not classify (remove of a missing key, zero-value insert, empty document key) may error or be a no-op.",
            "DESIGN.md §4 C03"),
    "C04": ("exploration", "runtime monitoring: per-step sequence observer with unique tags (no duplicate / lost / resurrected element, insert-at-index, global pairwise order relation never contradicted)",
            "After every step of every seeded history the touched replica's whole sequence is read; membership is checked against the operations that replica has applied, and a global before-relation over element identities must never be contradicted on any replica at any moment (not only at quiescence).",
            TRUST_CRDT, "DESIGN.md §4 C04"),
    "C09": ("exploration", "runtime monitoring: before/after state comparison around failing transactions, same-identity twin, unit structure check, malformed-unit delivery with panic/hang watchdog",
            "Failing transactions (random bodies) are bracketed by full state observations (view, reads, meta, pending operations); a twin with the same identity that skips them must stay equal, also in the operations emitted afterwards; committed units are checked for header count and contiguity; truncated / mis-counted units are delivered to fresh replicas and must change nothing, not panic, not hang.",
            TRUST_CRDT + " Hang = delivery goroutine still inside ReceiveRemoteModelOperations on three stack samples.",
            "DESIGN.md §4 C09"),
    "C10": ("exploration", "runtime monitoring: original vs restored-from-snapshot instance under a shared continuation; canonical snapshot comparison",
            "At random points of multi-replica histories the state is exported and imported into a fresh instance; both then get the same continuation (local calls, transactions, remote deliveries addressing old tombstones and containers) and are compared after every step including emitted operation ids and bodies; re-exports are compared canonically.",
            TRUST_CRDT + " Import = SetMetaAndSnapshot + ResetTransaction as the SDK's init does.",
            "DESIGN.md §4 C10"),
    "C14": ("exploration", "runtime monitoring: codec-chain round trip (proto, BSON document, decode, re-encode, echo service) with same-effect oracle on replicas",
            "Operations produced by real datatypes from Go-native values of every shape go through every encoding stage; ids, types and JSON bodies must survive, the echo service must return an equivalent operation, and replicas fed with decoded operations must equal the issuing replica.",
            TRUST_CRDT + " BSON stage = bson.Marshal/Unmarshal of schema.OperationDoc (what the repository layer stores); values are JSON-representable, strings valid UTF-8.",
            "DESIGN.md §4 C14"),
    "C15": ("exploration", "runtime monitoring: exhaustive bounded grid + random tuples for Hash injectivity and order axioms; identifier monitors on seeded histories",
            "Timestamp.Hash is checked injective over an exhaustive grid (2.4M keys) and 10^6 random tuples, the order axioms on 2x10^5 triples, and every history of C01/C03/C09/C15 runs under monitors for gapless client sequence numbers, causality of new operations and distinct identity keys.",
            TRUST_CRDT + " Grid bounds as stated in the evidence rule; clock differences < 2^62.",
            "DESIGN.md §4 C15"),
    "C19": ("exploration", "runtime monitoring: target-equality oracle on patched replica and on receiving replica, unit check of emitted operations; REST half over the real service",
            "Chains of seeded (current, target) pairs incl. keys needing JSON-pointer escaping, type changes and array growth/shrink/permutation; the patched document must equal the target, emit one unit, and bring a second replica to the target; invalid JSON must be refused without a trace. REST half: OrdaService.PatchDocument against the stored document (see level_note).",
            TRUST_CRDT + " Targets contain no null. The REST half runs when the E-svc bed is linked in (cases with index%4==3).",
            "DESIGN.md §4 C19"),
}

PENDING_REASON = "check not built yet in this revision of /verif (work in progress; DESIGN.md §4 describes the planned monitor)"

ALL = ["C%02d" % i for i in range(1, 21)]


def main():
    hooks_commits = []
    try:
        out = subprocess.run(["git", "-C", "/repo", "log", "--format=%H %s"], capture_output=True, text=True).stdout
        for line in out.splitlines():
            h, _, s = line.partition(" ")
            if s.startswith("verif-hooks:"):
                hooks_commits.append(h)
    except Exception:
        pass
    baseline = json.load(open("/root/.vp/BASELINE.json"))["cmd"]
    m = {
        "version": 1,
        "setup_cmd": "./setup.sh",
        "hooks": {
            "guard": "verif",
            "enable": "go build -tags verif (harness module /verif/harness replaces the three orda modules with /repo, /repo/client, /repo/server)",
            "baseline_off_cmd": baseline,
            "source_commits": hooks_commits,
            "add_only": True,
        },
        "engines": ENGINES,
        "checks": [],
        "not_applicable": [],
        "notes": "Technique family: runtime monitoring and sanitizers. ./check <ID> <tier> rebuilds the worker from /repo's current tree (build tag verif), fans seeded cases out to worker processes, writes evidence/<ID>.json; known findings are in known_findings.json; see DESIGN.md.",
    }
    for pid in ALL:
        if pid in CHECKS:
            level, tech, text, note, ref = CHECKS[pid]
            m["checks"].append({
                "property_id": pid,
                "quick_cmd": "./check %s quick" % pid,
                "thorough_cmd": "./check %s thorough" % pid,
                "evidence_file": "evidence/%s.json" % pid,
                "replay_cmd_template": "./check %s --replay {path}" % pid,
                "engine": "E-crdt" if pid in ENGINES[0]["serves_properties"] else "E-svc",
                "level_claimed": {"category": level, "text": text, "design_ref": ref},
                "level_note": note,
                "technique": tech,
            })
        else:
            m["not_applicable"].append({"property_id": pid, "reason": PENDING_REASON})
    json.dump(m, open(os.path.join(HERE, "MANIFEST.json"), "w"), indent=1)
    print("MANIFEST.json: %d checks, %d not applicable" % (len(m["checks"]), len(m["not_applicable"])))


if __name__ == "__main__":
    main()
