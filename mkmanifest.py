#!/usr/bin/env python3
"""Regenerates /verif/MANIFEST.json from the table below (kept in one place so that the
manifest stays valid and consistent with what ./check implements)."""
import json, os, subprocess

HERE = os.path.dirname(os.path.abspath(__file__))

ENGINES = [
    {"name": "E-crdt", "path": "harness/crdt", "kind_free_text": "real client replicas (public API + iface.Datatype) over a deterministic log-order mini-server; reference models (RGA tree, LWW, int32 sum); seeded histories; worker processes",
     "serves_properties": ["C01", "C02", "C03", "C04", "C09", "C10", "C14", "C15", "C19"]},
    {"name": "E-svc", "path": "harness/bed", "kind_free_text": "real server/service + mongodb + snapshot + notification code over in-memory MongoDB wire-protocol and MQTT stand-ins (fault plans, command log, store dump/diff); direct mode and real grpc",
     "serves_properties": ["C05", "C06", "C07", "C08", "C11", "C12", "C13", "C16", "C17", "C18", "C19", "C20"]},
]

# id -> (level, technique, text, note, design_ref)
CHECKS = {
    "C01": ("exploration", "runtime monitoring: convergence oracle over seeded multi-replica histories of the real datatypes",
            "Held on the K seeded histories reported in the evidence file: 2-4 real replicas per history, every public mutator, batches >= 11, nested values, clock advance past 10/100/1000, partial deliveries in log order, forced quiescent points and continuation; at each quiescent point all replicas are compared (canonical JSON view, sizes, sweep of element reads). Exploration is the right level: the space of histories x schedules is unbounded and the oracle is exact at each quiescent point.",
            "Trusted: the harness log reproduces the server's delivery contract (decided separately by C05/C06); canonical JSON comparison. Not a proof: says nothing about histories not generated.",
            "DESIGN.md §4 C01"),
}

PENDING_REASON = "check not built yet in this revision of /verif (work in progress; DESIGN.md §4 describes the planned monitor)"

ALL = ["C%02d" % i for i in range(1, 21)]


def main():
    hooks_commits = []
    try:
        out = subprocess.run(["git", "-C", "/repo", "log", "--format=%H %s"], capture_output=True, text=True).stdout
        for line in out.splitlines():
            h, _, s = line.partition(" ")
            if s.startswith("verif-hooks:"):
                hooks_commits.append(h)
    except Exception:
        pass
    baseline = json.load(open("/root/.vp/BASELINE.json"))["cmd"]
    m = {
        "version": 1,
        "setup_cmd": "./setup.sh",
        "hooks": {
            "guard": "verif",
            "enable": "go build -tags verif (harness module /verif/harness replaces the three orda modules with /repo, /repo/client, /repo/server)",
            "baseline_off_cmd": baseline,
            "source_commits": hooks_commits,
            "add_only": True,
        },
        "engines": ENGINES,
        "checks": [],
        "not_applicable": [],
        "notes": "Technique family: runtime monitoring and sanitizers. ./check <ID> <tier> rebuilds the worker from /repo's current tree (build tag verif), fans seeded cases out to worker processes, writes evidence/<ID>.json; known findings are in known_findings.json; see DESIGN.md.",
    }
    for pid in ALL:
        if pid in CHECKS:
            level, tech, text, note, ref = CHECKS[pid]
            m["checks"].append({
                "property_id": pid,
                "quick_cmd": "./check %s quick" % pid,
                "thorough_cmd": "./check %s thorough" % pid,
                "evidence_file": "evidence/%s.json" % pid,
                "replay_cmd_template": "./check %s --replay {path}" % pid,
                "engine": "E-crdt" if pid in ENGINES[0]["serves_properties"] else "E-svc",
                "level_claimed": {"category": level, "text": text, "design_ref": ref},
                "level_note": note,
                "technique": tech,
            })
        else:
            m["not_applicable"].append({"property_id": pid, "reason": PENDING_REASON})
    json.dump(m, open(os.path.join(HERE, "MANIFEST.json"), "w"), indent=1)
    print("MANIFEST.json: %d checks, %d not applicable" % (len(m["checks"]), len(m["not_applicable"])))


if __name__ == "__main__":
    main()
