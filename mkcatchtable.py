#!/usr/bin/env python3
"""Fills the catch table of DESIGN.md §10 from CATCH_MATRIX.md (written by ./matrix.sh)."""
import re, collections, json, os
rows=[]
for l in open('/verif/CATCH_MATRIX.md'):
    m=re.match(r'\| (mutant|seeded) \| (\S+) \| (C\d+|-) \| (\w*) \|',l)
    if m: rows.append(m.groups())
by=collections.OrderedDict()
for k,ch,c,rc in rows:
    by.setdefault((k,ch),[]).append((c,rc))
out=["| change | breaks | caught by (exit 1) | run but silent |","|---|---|---|---|"]
for (k,ch),v in by.items():
    prop=''
    if k=='seeded':
        try:
            m=json.load(open('/verif/seeded/%s/meta.json'%ch)); prop=str(m.get('property',''))[:3]
        except Exception: pass
        name='seeded/'+ch
    else:
        name='mutants/'+ch.replace('.patch','')
        prop=v[0][0]
    caught=' '.join(c for c,rc in v if rc=='1') or '—'
    silent=' '.join(c for c,rc in v if rc!='1') or ''
    out.append('| %s | %s | %s | %s |'%(name,prop,caught,silent))
n=len(by); ok=sum(1 for v in by.values() if any(rc=='1' for _,rc in v))
out.append('')
out.append('%d changes, %d caught by at least one of the checks named for them.'%(n,ok))
s=open('/verif/DESIGN.md').read()
a=s.index('<!-- CATCH-TABLE-BEGIN -->')+len('<!-- CATCH-TABLE-BEGIN -->')
b=s.index('<!-- CATCH-TABLE-END -->')
s=s[:a]+'\n'+'\n'.join(out)+'\n'+s[b:]
open('/verif/DESIGN.md','w').write(s)
print('%d changes, %d caught'%(n,ok))
