#!/bin/bash
# ./matrix.sh [mutants|seeded|all]   re-runs every self-test mutant and every stored seeded
# change against the checks named for it (quick tier) and writes CATCH_MATRIX.md.
# Not a registered check; used to keep DESIGN.md's catch table honest.
V="$(cd "$(dirname "$0")" && pwd)"   # the /verif tree these scripts belong to (also a snapshot of it)
set -u
cd "$(dirname "$0")"
WHAT="${1:-all}"
OUT=CATCH_MATRIX.md
TMP=$(mktemp /var/tmp/matrix.XXXXXX)
if [ "$WHAT" = all ] || [ "$WHAT" = mutants ]; then
  grep -v '^#' mutants/MAP.txt | while read -r patch checks; do
    for chk in $checks; do
      res=$(./selftest.sh mutants/$patch $chk quick 2>&1)
      rc=$(echo "$res" | sed -n 's/.*-> exit \([0-9]*\)$/\1/p' | tail -1)
      sig=$(echo "$res" | grep signature-tally | head -2 | sed 's/ *signature-tally: *//' | tr '\n' ';' | cut -c1-120)
      echo "mutant|$patch|$chk|$rc|$sig" | tee -a "$TMP"
    done
  done
fi
if [ "$WHAT" = all ] || [ "$WHAT" = seeded ]; then
  for d in seeded/C*/; do
    id=$(basename $d)
    checks=$(python3 -c "
import json,sys
m=json.load(open('$d/meta.json'))
c=m.get('confirmed_by_verif',{}).get('checks_quick_exit_codes','')
print(' '.join(x.split('=')[0] for x in c.split()))")
    [ -z "$checks" ] && checks=${id:0:3}
    res=$(VERIF_SEED_ONLY_CHECKS=1 ./seedrun.sh $id x x x x $checks 2>&1)
    if echo "$res" | grep -q "does not apply\|build with the change failed"; then
      echo "seeded|$id|-|NOAPPLY|patch does not apply to /repo HEAD or does not build" | tee -a "$TMP"
    fi
    echo "$res" | grep "check C" | while read -r line; do
      chk=$(echo "$line" | sed -n 's/.*check \(C[0-9]*\) .*/\1/p')
      rc=$(echo "$line" | sed -n 's/.*-> exit \([0-9]*\).*/\1/p')
      sig=$(echo "$line" | sed 's/.*-> exit [0-9]* *//' | cut -c1-120)
      echo "seeded|$id|$chk|$rc|$sig" | tee -a "$TMP"
    done
  done
fi
python3 - "$TMP" "$OUT" <<'PY'
import sys,collections
rows=[l.rstrip('\n').split('|',4) for l in open(sys.argv[1]) if l.strip()]
out=["# Catch matrix (written by ./matrix.sh; quick tier, VERIF_SEED=1)","",
"exit 1 = the check reported a VIOLATION for the changed tree; exit 0 = it did not.","",
"| kind | change | check | exit | first signatures |","|---|---|---|---|---|"]
for r in rows: out.append("| "+" | ".join(r)+" |")
open(sys.argv[2],'w').write("\n".join(out)+"\n")
caught=collections.defaultdict(bool)
for k,ch,c,rc,s in rows: caught[(k,ch)] |= (rc=='1')
missed=[x for x,v in caught.items() if not v]
print("changes:",len(caught),"caught by at least one named check:",sum(caught.values()),"missed:",missed)
PY
rm -f "$TMP"
