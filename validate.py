#!/usr/bin/env python3-vt
"""Validates MANIFEST.json and every evidence file against the given schemas."""
import json, glob, sys, jsonschema
ok = True
try:
    jsonschema.validate(json.load(open('/verif/MANIFEST.json')), json.load(open('/root/.vp/MANIFEST.schema.json')))
    print("MANIFEST.json valid")
except Exception as e:
    ok = False; print("MANIFEST.json INVALID:", str(e)[:400])
es = json.load(open('/root/.vp/EVIDENCE.schema.json'))
for f in sorted(glob.glob('/verif/evidence/*.json')):
    try:
        jsonschema.validate(json.load(open(f)), es)
    except Exception as e:
        ok = False; print(f, "INVALID:", str(e)[:400])
print("evidence files checked:", len(glob.glob('/verif/evidence/*.json')))
sys.exit(0 if ok else 1)
