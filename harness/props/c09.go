package props

import (
	"errors"
	"fmt"
	"runtime"
	"strings"
	"time"

	"github.com/orda-io/orda/client/pkg/model"
	"github.com/orda-io/orda/client/pkg/orda"
	"google.golang.org/protobuf/proto"
	"vh/core"
	"vh/crdt"
)

func init() {
	core.Register(&core.Prop{
		ID:          "C09",
		Level:       "exploration",
		CaseTimeout: 45e9, // a case of this check takes milliseconds; one that does not end is cut after 45 s
		Rule: "seeded multi-replica histories in which replica R runs failing transactions (random bodies of valid calls, invalid calls, reads, final error return) at random points and committed transactions; around every failing transaction R's ToJSON, Size, element reads, meta (next operation id) and pending operations are compared before/after; a same-identity twin T receives everything except the failing transactions and must stay equal to R (state and emitted operations); every committed unit is checked in the pending list (header count, contiguity); intact, truncated and mis-counted units are delivered to a third replica (all-or-nothing, no panic, no hang); " +
			"non-trivial = a failed transaction executed >=2 operations after >=1 remote delivery; distinct = hash of the step script",
		Assumptions: []string{
			"the twin is given R's identity through GetMeta/SetMeta right after creation (the mechanism snapshot restore itself uses)",
			"a unit whose announced count is too small but otherwise well-formed is indistinguishable from a shorter unit followed by single operations and is not judged",
			"hang classification: the delivery goroutine is still inside ReceiveRemoteModelOperations on three stack samples 1 s apart",
		},
		Cases: func(t string) int { return tierN(t, 3000, 40000) },
		Floor: func(t string) int { return tierN(t, 500, 8000) },
		Run:   runC09,
	})
}

var errBoom = errors.New("boom")

type obsState struct {
	view, reads, meta, pend string
	size                    int
}

func observeAll(r *crdt.Rep, keys int) obsState {
	meta, _ := r.W.GetMeta()
	view := r.View()
	if c, ok := r.DT.(orda.Counter); ok {
		view = crdt.Canon(c.Get())
	}
	return obsState{view: view, reads: crdt.Reads(r, keys), meta: string(meta), pend: pendString(r.Pending()[1:]), size: r.Size()}
}

func pendString(ops []*model.Operation) string {
	var sb strings.Builder
	for _, o := range ops {
		fmt.Fprintf(&sb, "%d:%d:%s:%d|%d|%s;", o.ID.Era, o.ID.Lamport, o.ID.CUID, o.ID.Seq, o.OpType, string(o.Body))
	}
	return sb.String()
}

func diffObs(a, b obsState) string {
	switch {
	case a.view != b.view:
		return fmt.Sprintf("ToJSON %s vs %s", clip(a.view, 400), clip(b.view, 400))
	case a.size != b.size:
		return fmt.Sprintf("Size %d vs %d", a.size, b.size)
	case a.reads != b.reads:
		return fmt.Sprintf("element reads %s vs %s", clip(a.reads, 400), clip(b.reads, 400))
	case a.meta != b.meta:
		return fmt.Sprintf("meta (next operation id) %s vs %s", a.meta, b.meta)
	case a.pend != b.pend:
		return fmt.Sprintf("pending operations differ: %s vs %s", clip(a.pend, 400), clip(b.pend, 400))
	}
	return ""
}

// runTx runs a transaction on r whose body performs the given ops (errors of individual
// calls are ignored unless stopOnErr) and finally returns fail (nil = commit).
func runTx(r *crdt.Rep, ops []crdt.Op, fail error, stopOnErr bool) (err error, executed int) {
	body := func(tx interface{}) error {
		for _, o := range ops {
			if _, e := crdt.Apply(tx, o); e != nil {
				if stopOnErr {
					return e
				}
				continue
			}
			executed++
		}
		return fail
	}
	switch t := r.DT.(type) {
	case orda.Counter:
		err = t.Transaction("tx", func(x orda.CounterInTx) error { return body(x) })
	case orda.Map:
		err = t.Transaction("tx", func(x orda.MapInTx) error { return body(x) })
	case orda.List:
		err = t.Transaction("tx", func(x orda.ListInTx) error { return body(x) })
	case orda.Document:
		err = t.Transaction("tx", func(x orda.DocumentInTx) error { return body(x) })
	}
	return err, executed
}

// invalidFor returns an invalid call for the type.
func invalidFor(typ string, g *crdt.Gen) crdt.Op {
	switch typ {
	case "map":
		return crdt.Op{Kind: "put", Key: "", Val: "x"}
	case "list":
		return crdt.Op{Kind: "del", Pos: 9999, N: 1}
	case "doc":
		return crdt.Op{Kind: "ins", Pos: 0, Vals: []interface{}{"x"}} // array call on the root object
	}
	return crdt.Op{Kind: "inc", N: 0}
}

// deliverWithWatchdog delivers ops to rep; returns (err, panicMsg, hung).
func deliverWithWatchdog(rep *crdt.Rep, ops []*model.Operation) (error, string, bool) {
	type res struct {
		err error
		pm  string
	}
	ch := make(chan res, 1)
	go func() {
		var err error
		pm := safely(func() {
			_, e := rep.W.ReceiveRemoteModelOperations(ops, false)
			if e != nil {
				err = e
			}
		})
		ch <- res{err, pm}
	}()
	select {
	case x := <-ch:
		return x.err, x.pm, false
	case <-time.After(3 * time.Second):
	}
	// classify: still inside ReceiveRemoteModelOperations on three samples?
	inside := 0
	for i := 0; i < 3; i++ {
		buf := make([]byte, 1<<20)
		n := runtime.Stack(buf, true)
		if strings.Contains(string(buf[:n]), "ReceiveRemoteModelOperations") {
			inside++
		}
		select {
		case x := <-ch:
			return x.err, x.pm, false
		case <-time.After(time.Second):
		}
	}
	return nil, "", inside == 3
}

func runC09(c *core.Case) *core.Result {
	maxSteps := tierN(c.Tier, 50, 110)
	sh := drawShape(c, maxSteps)
	if sh.idle > 60 {
		sh.idle = 60 // rollback replays everything since the last rollback
	}
	g := crdt.NewGen(c.Rng)
	h := crdt.NewHist(c, g, sh.typ, sh.nrep)
	AttachIDMonitor(c, h)
	R := h.Reps[0]
	// same-identity twin
	T := crdt.NewRep(0, sh.typ)
	meta, _ := R.W.GetMeta()
	if err := T.W.SetMeta(meta); err != nil {
		return c.Violation("setup", "SetMeta on the twin failed: %v", err)
	}
	T.ResetTransaction()
	c.Step("type=%s replicas=%d steps=%d idle=%d (r0 has a same-identity twin)", sh.typ, sh.nrep, sh.steps, sh.idle)
	sh.idleOn = 1 % sh.nrep
	// the digit-boundary prefix (histShape.boundary) runs on R: the twin gets the same calls
	inPrefix := true
	h.OnLocal = append(h.OnLocal, func(h *crdt.Hist, rep *crdt.Rep, op crdt.Op, ret interface{}) {
		if inPrefix && rep == R {
			crdt.Apply(T.DT, op)
		}
	})
	if sig, msg := runIdle(h, sh); sig != "" {
		return c.Violation(sig, "%s", msg)
	}
	inPrefix = false
	r := c.Rng
	deliveredToR := 0
	twinCheck := func(when string) *core.Result {
		a, b := observeAll(R, g.Keys), observeAll(T, g.Keys)
		a.meta, b.meta = "", "" // metas differ in nothing but are compared through emitted ids
		if d := diffObs(a, b); d != "" {
			return c.Violation(sh.typ+":twin-diverged", "%s: replica R (which ran failing transactions) and its twin (which did not) differ: %s", when, d)
		}
		c.Count("twin_comparisons", 1)
		return nil
	}
	type unit struct{ ops []*model.Operation }
	var units []unit
	for s := 0; s < sh.steps; s++ {
		rep := h.Reps[r.Intn(len(h.Reps))]
		k := r.Intn(20)
		switch {
		case k < 9:
			op := g.Op(rep)
			_, err, sig, msg := h.Local(rep, op)
			if sig != "" {
				return c.Violation(sh.typ+":"+sig, "%s", msg)
			}
			if rep == R {
				_, err2 := crdt.Apply(T.DT, op)
				if (err == nil) != (err2 == nil) {
					return c.Violation(sh.typ+":twin-call-outcome", "call %s: R returned %v, twin returned %v", op, err, err2)
				}
			}
		case k < 14:
			upto := rep.Recvd + r.Intn(len(h.Log.Entries)-rep.Recvd+2)
			if sig, msg := h.Sync(rep, upto); sig != "" {
				return c.Violation(sh.typ+":"+sig, "%s", msg)
			}
			if rep == R {
				n, err := h.Log.Deliver(T, R.Recvd)
				if err != nil {
					return c.Violation(sh.typ+":twin-remote-apply-error", "twin: %v", err)
				}
				deliveredToR += n
			}
		case k < 17:
			// failing transaction on R
			nops := 1 + r.Intn(4)
			var body []crdt.Op
			for i := 0; i < nops; i++ {
				if r.Intn(5) == 0 {
					body = append(body, invalidFor(sh.typ, g))
				} else {
					body = append(body, g.Op(R))
				}
			}
			stop := r.Intn(4) == 0
			c.Step("r0 failing transaction body=%s stopOnErr=%v", crdt.JS(body), stop)
			before := observeAll(R, g.Keys)
			var txErr error
			var executed int
			if pm := safely(func() { txErr, executed = runTx(R, body, errBoom, stop) }); pm != "" {
				return c.Violation(sh.typ+":panic:failing-tx", "failing transaction panicked: %s", pm)
			}
			if txErr == nil {
				return c.Violation(sh.typ+":failing-tx-no-error", "Transaction() whose body returned an error returned nil")
			}
			after := observeAll(R, g.Keys)
			if d := diffObs(before, after); d != "" {
				return c.Violation(sh.typ+":failed-tx-changed-state", "a transaction whose body returned an error (after executing %d operations) left a trace: %s", executed, d)
			}
			c.Count("failing_transactions", 1)
			c.Count("ops_rolled_back", int64(executed))
			if executed >= 2 && deliveredToR >= 1 {
				c.NonTrivial()
			}
			if res := twinCheck("right after a failed transaction"); res != nil {
				return res
			}
			if sig, msg := h.After(R); sig != "" {
				return c.Violation(sh.typ+":"+sig, "%s", msg)
			}
		default:
			// committed transaction on a random replica
			nops := 1 + r.Intn(4)
			var body []crdt.Op
			for i := 0; i < nops; i++ {
				body = append(body, g.Op(rep))
			}
			c.Step("r%d committed transaction body=%s", rep.Idx, crdt.JS(body))
			pendBefore := len(rep.Pending())
			var txErr error
			var executed int
			if pm := safely(func() { txErr, executed = runTx(rep, body, nil, false) }); pm != "" {
				return c.Violation(sh.typ+":panic:committed-tx", "committed transaction panicked: %s", pm)
			}
			if txErr != nil {
				return c.Violation(sh.typ+":committed-tx-error", "Transaction() whose body returned nil returned %v", txErr)
			}
			pend := rep.Pending()
			added := pend[pendBefore:]
			if len(added) < 2 && executed > 0 || len(added) > executed+1 {
				// header + at most one operation per successful call (a call without effect may
				// emit nothing); at least header + one operation when something was executed
				return c.Violation(sh.typ+":unit-length", "a committed transaction that executed %d operations added %d operations to the pending list", executed, len(added))
			}
			hd, err := crdt.Decode(added[0])
			if err != nil || hd.Type != model.TypeOfOperation_TRANSACTION {
				return c.Violation(sh.typ+":unit-header", "the unit does not start with a TRANSACTION header: %v", added[0])
			}
			if int(hd.N) != len(added) {
				return c.Violation(sh.typ+":unit-count", "header announces %d operations, the unit has %d", hd.N, len(added))
			}
			for i := 1; i < len(added); i++ {
				if added[i].ID.Seq != added[i-1].ID.Seq+1 {
					return c.Violation(sh.typ+":unit-contiguity", "unit operations carry seq %d then %d", added[i-1].ID.Seq, added[i].ID.Seq)
				}
			}
			c.Count("committed_units_checked", 1)
			units = append(units, unit{crdt.WireOps(added)})
			if rep == R {
				if err2, _ := runTx(T, body, nil, false); err2 != nil {
					return c.Violation(sh.typ+":twin-call-outcome", "committed transaction failed on the twin: %v", err2)
				}
			}
			if sig, msg := h.After(rep); sig != "" {
				return c.Violation(sh.typ+":"+sig, "%s", msg)
			}
		}
	}
	if sig, msg := h.Quiesce(); sig != "" {
		return c.Violation(sh.typ+":"+sig, "%s", msg)
	}
	// the twin mirrors R's deliveries: give it the suffix R received in the final quiesce
	if _, err := h.Log.Deliver(T, len(h.Log.Entries)); err != nil {
		return c.Violation(sh.typ+":twin-remote-apply-error", "twin: %v", err)
	}
	if sig, msg := h.CompareAll(); sig != "" {
		return c.Violation(sh.typ+":"+sig, "%s", msg)
	}
	if res := twinCheck("at the end of the history"); res != nil {
		return res
	}
	if sig, msg := FinishIDMonitor(c, h); sig != "" {
		return c.Violation(sh.typ+":"+sig, "%s", msg)
	}
	// remote atomicity on fresh third replicas
	if len(units) > 0 {
		u := units[r.Intn(len(units))]
		if res := remoteAtomicity(c, sh.typ, h, u.ops); res != nil {
			return res
		}
	}
	if sh.typ == "doc" {
		if res := nestedFailedTransaction(c, h, R); res != nil {
			return res
		}
	}
	c.Count("histories_"+sh.typ, 1)
	return c.Held()
}

// nestedFailedTransaction: inside the body of a transaction on the document, a transaction is
// started on a child handle and its body returns an error, which the enclosing body handles.
// Whatever becomes of the enclosing transaction (the implementation may abort it as a whole),
// nothing the FAILED transaction wrote may stay readable or pending on the replica, nor become
// readable on another replica.
func nestedFailedTransaction(c *core.Case, h *crdt.Hist, R *crdt.Rep) *core.Result {
	doc := R.DT.(orda.Document)
	tag := h.G.Tag() + "-nested"
	outerFails := c.Rng.Intn(3) == 0
	var innerErr error
	c.Step("r0 transaction with a failing transaction nested on a child handle (outer fails too: %v)", outerFails)
	pm := safely(func() {
		doc.Transaction("outer", func(tx orda.DocumentInTx) error {
			if _, err := tx.PutToObject("nest", map[string]interface{}{"keep": tag + "-outer"}); err != nil {
				return err
			}
			child, err := tx.GetFromObject("nest")
			if err != nil || child == nil {
				return errBoom
			}
			innerErr = child.Transaction("inner", func(_ orda.DocumentInTx) error {
				child.PutToObject("lost", tag+"-inner")
				child.DeleteInObject("keep")
				return errBoom
			})
			tx.PutToObject("after", tag+"-after")
			if outerFails {
				return errBoom
			}
			return nil
		})
	})
	if pm != "" {
		return c.Violation("doc:panic:nested-tx", "a failing transaction nested inside a transaction body panicked: %s", pm)
	}
	if innerErr == nil {
		return c.Violation("doc:nested-tx-no-error", "a nested transaction whose body returned an error reported success")
	}
	leaked := func(what, text string) *core.Result {
		if strings.Contains(text, tag+"-inner") {
			return c.Violation("doc:failed-nested-tx-visible", "%s shows a value written by the failed nested transaction: %s", what, clip(text, 600))
		}
		return nil
	}
	if res := leaked("replica r0", R.View()); res != nil {
		return res
	}
	for _, op := range R.Pending()[R.Sent:] {
		if res := leaked("a pending operation of r0", string(op.Body)); res != nil {
			return res
		}
	}
	if strings.Contains(R.View(), tag+"-outer") && !strings.Contains(R.View(), `"keep"`) {
		return c.Violation("doc:failed-nested-tx-visible", "the enclosing transaction's object is readable without the member the failed nested transaction deleted: %s", clip(R.View(), 600))
	}
	if sig, msg := h.Quiesce(); sig != "" {
		return c.Violation("doc:"+sig, "%s", msg)
	}
	for _, rep := range h.Reps {
		if res := leaked(fmt.Sprintf("replica r%d", rep.Idx), rep.View()); res != nil {
			return res
		}
	}
	if sig, msg := h.CompareAll(); sig != "" {
		return c.Violation("doc:"+sig+"-after-nested-tx", "%s", msg)
	}
	c.Count("nested_failed_transactions", 1)
	return nil
}

// remoteAtomicity delivers an intact unit and malformed variants to replicas that hold
// the log prefix preceding the unit.
func remoteAtomicity(c *core.Case, typ string, h *crdt.Hist, unitOps []*model.Operation) *core.Result {
	// find the entry that contains the unit
	first := unitOps[0].ID
	pos := -1
	for i, e := range h.Log.Entries {
		for _, o := range e.Ops {
			if o.ID.CUID == first.CUID && o.ID.Seq == first.Seq {
				pos = i
			}
		}
	}
	if pos < 0 {
		return nil
	}
	mk := func() (*crdt.Rep, error) {
		rep := crdt.NewRep(99, typ)
		var prefix []*model.Operation
		for _, e := range h.Log.Entries[:pos] {
			prefix = append(prefix, e.Ops...)
		}
		// operations of the same entry that precede the unit
		for _, o := range h.Log.Entries[pos].Ops {
			if o.ID.CUID == first.CUID && o.ID.Seq == first.Seq {
				break
			}
			prefix = append(prefix, o)
		}
		_, err := rep.W.ReceiveRemoteModelOperations(crdt.CloneOps(prefix), false)
		return rep, err
	}
	n := len(unitOps)
	header := func(count int32) *model.Operation {
		hd := proto.Clone(unitOps[0]).(*model.Operation)
		d, _ := crdt.Decode(hd)
		hd.Body = []byte(fmt.Sprintf(`{"Tag":%q,"NumOfOps":%d}`, d.Tag, count))
		return hd
	}
	type variant struct {
		name string
		ops  []*model.Operation
		ok   bool // intact: must apply fully
	}
	vs := []variant{{"intact", crdt.CloneOps(unitOps), true}}
	if n > 1 {
		j := 1 + c.Rng.Intn(n-1)
		vs = append(vs, variant{fmt.Sprintf("truncated-after-%d-of-%d", j, n), crdt.CloneOps(unitOps[:j]), false})
	}
	vs = append(vs,
		variant{"count-too-large", append([]*model.Operation{header(int32(n + 1 + c.Rng.Intn(3)))}, crdt.CloneOps(unitOps[1:])...), false},
		variant{"count-zero", append([]*model.Operation{header(0)}, crdt.CloneOps(unitOps[1:])...), false},
		variant{"count-negative", append([]*model.Operation{header(-1 - int32(c.Rng.Intn(3)))}, crdt.CloneOps(unitOps[1:])...), false},
	)
	var intactView string
	for _, v := range vs {
		rep, err := mk()
		if err != nil {
			return c.Violation(typ+":remote-apply-error", "prefix replay failed: %v", err)
		}
		before := rep.View()
		c.Step("deliver %s unit (%d ops) to a fresh replica", v.name, len(v.ops))
		derr, pm, hung := deliverWithWatchdog(rep, v.ops)
		kind := strings.SplitN(v.name, "-after-", 2)[0]
		if hung {
			c.Poisoned()
			return c.Violation(typ+":unit-"+kind+":hang", "delivering a %s transaction unit never returns (delivery loop does not advance)", v.name)
		}
		if pm != "" {
			return c.Violation(typ+":unit-"+kind+":panic", "delivering a %s transaction unit panicked: %s", v.name, pm)
		}
		after := rep.View()
		if v.ok {
			if derr != nil {
				return c.Violation(typ+":unit-intact-refused", "an intact unit was refused: %v", derr)
			}
			intactView = after
			continue
		}
		c.Count("malformed_units_delivered", 1)
		if after != before {
			return c.Violation(typ+":unit-"+kind+":partial", "a %s unit changed the replica (%s -> %s; error returned: %v): not all-or-nothing", v.name, clip(before, 300), clip(after, 300), derr)
		}
	}
	_ = intactView
	return nil
}
