package props

import (
	"context"
	"fmt"
	"strings"
	"sync"

	"github.com/orda-io/orda/client/pkg/model"
	"vh/bed"
	"vh/core"
	"vh/crdt"
	"vh/fakemongo"
)

// C08 collection cases: the requests that create and reset a collection are requests too.
// Every database command issued while serving CreateCollection / ResetCollection is, in
// turn, the fault point (fail / sever / sever-after as in the push-pull cases). Oracle:
//   - the faulted call returns: no panic, no hang;
//   - an ACKNOWLEDGED CreateCollection has stored the collection (clients can register and
//     create datatypes in it right away); a refused one succeeds when retried;
//   - an ACKNOWLEDGED ResetCollection has removed every datatype / operation / snapshot /
//     client document of the collection and its user collection; a refused one may have
//     removed a part, and succeeds when retried with the same final result;
//   - documents of the bystander collection are untouched throughout;
//   - afterwards new clients create the same key again, push, subscribe and converge.

const c08ColMaxJ = 12 // fault positions per window (create issues 3 data commands, reset 8-9; positions beyond the last one: fault not reached)

var c08ColWindows = []string{"create", "reset"}

func c08ColCases(t string) int {
	return tierN(t, 1, 4) * len(c08ColWindows) * c08ColMaxJ * len(c08Kinds)
}

func runC08Col(c *core.Case, ci int) *core.Result {
	kind := c08Kinds[ci%len(c08Kinds)]
	ci /= len(c08Kinds)
	j := ci%c08ColMaxJ + 1
	ci /= c08ColMaxJ
	window := c08ColWindows[ci%len(c08ColWindows)]
	ci /= len(c08ColWindows)
	typ := crdt.Types[ci%4]
	c.Fingerprint(fmt.Sprintf("col/%s/j%d/%s/%s", window, j, kind, typ))
	c.Step("collection case: window=%s fault=%s at its data command %d, type=%s", window, kind, j, typ)
	w, err := newSvcWorld(c, "colA")
	if err != nil {
		return c.Inconclusive("test bed did not start: %v", err)
	}
	defer w.close()
	if kind != "fail" {
		w.b.Taint()
	}
	// ---- bystander collection colA with the same key
	a0 := w.b.NewClient("colA", "a0")
	ad := a0.Open("k", typ, bed.Create)
	if ad == nil || a0.Register() != nil {
		return c.Inconclusive("bystander setup")
	}
	for i := 0; i < 2; i++ {
		w.localOp(ad)
	}
	if _, sig, msg := w.sync(a0); sig != "" {
		return verdict(c, "setup:", sig, msg)
	}
	if !w.idle() {
		return c.Inconclusive("idle")
	}
	// ---- fault plan: the j-th data command inside the chosen window
	var mu sync.Mutex
	inWindow := ""
	n := 0
	var hit *fakemongo.Cmd
	needRestart := false
	w.b.DB.SetPlan(func(cmd *fakemongo.Cmd) fakemongo.Action {
		mu.Lock()
		defer mu.Unlock()
		if inWindow != window || hit != nil {
			return fakemongo.Action{}
		}
		n++
		if n != j {
			return fakemongo.Action{}
		}
		cp := *cmd
		hit = &cp
		switch kind {
		case "fail":
			return fakemongo.Action{Fail: true}
		case "sever":
			needRestart = true
			return fakemongo.Action{Sever: true}
		default:
			needRestart = true
			return fakemongo.Action{SeverAfter: true}
		}
	})
	defer w.b.DB.SetPlan(nil)
	setWindow := func(s string) {
		mu.Lock()
		inWindow = s
		mu.Unlock()
	}
	restartIfNeeded := func() *core.Result {
		mu.Lock()
		nr := needRestart
		needRestart = false
		mu.Unlock()
		if !nr {
			return nil
		}
		w.b.Idle(10e9)
		c.Step("server incarnation %s is dead; starting a new one on the same store", w.b.App)
		if err := w.b.Restart(); err != nil {
			if bed.Environmental(err) {
				return c.Inconclusive("the new server incarnation did not start for a reason of time or transport: %v", err)
			}
			return c.Violation("restart-failed", "a new server incarnation cannot start on the store left by the fault: %v", err)
		}
		return nil
	}
	where := func() string {
		mu.Lock()
		defer mu.Unlock()
		if hit == nil {
			return ""
		}
		return fmt.Sprintf("%s at %q: ", kind, hit.Key())
	}
	// admin performs one collection request; acknowledged = answered without error
	admin := func(name string) (acked bool, res *core.Result) {
		out := bed.Guard(20e9, func(ctx context.Context) error {
			var err error
			if name == "create" {
				_, err = w.b.Svc.CreateCollection(ctx, &model.CollectionMessage{Collection: "colB"})
			} else {
				_, err = w.b.Svc.ResetCollection(ctx, &model.CollectionMessage{Collection: "colB"})
			}
			return err
		})
		if out.Panic != "" {
			return false, c.Violation(where()+"server-panic", "%sCollection panicked: %s", name, out.Panic)
		}
		if out.TimedOut {
			if out.Hang {
				return false, c.Violation(where()+"request-hang", "%sCollection never returned\n%s", name, clipDump(out.Dump))
			}
			return false, c.Inconclusive("request watchdog")
		}
		if !w.idle() {
			return false, c.Inconclusive("idle")
		}
		c.Step("%sCollection(colB) -> error: %v", name, out.Err)
		return out.Err == nil, nil
	}
	// withRetries: the request under the fault plan, then fault-free retries until acknowledged
	withRetries := func(name string, check func(acked bool) *core.Result) *core.Result {
		setWindow(name)
		acked, res := admin(name)
		setWindow("")
		if res != nil {
			return res
		}
		if res := restartIfNeeded(); res != nil {
			return res
		}
		if acked {
			c.Count("acknowledged_"+name, 1)
			if res := check(true); res != nil {
				return res
			}
			return nil
		}
		c.Count("refused_"+name, 1)
		for try := 0; try < 4 && !acked; try++ {
			if acked, res = admin(name); res != nil {
				return res
			}
		}
		if !acked {
			return c.Violation(where()+"no-recovery", "%sCollection(colB) was refused under the fault and is still refused by four fault-free retries", name)
		}
		return check(false)
	}
	names := func() map[int32]string {
		return map[int32]string{w.b.CollectionNum("colA"): "colA", w.b.CollectionNum("colB"): "colB"}
	}
	bystander := c17Take(w.b, map[int32]string{w.b.CollectionNum("colA"): "colA"})
	bystanderSame := func(when string) *core.Result {
		now := c17Take(w.b, map[int32]string{w.b.CollectionNum("colA"): "colA"})
		for k, o := range bystander.owner {
			if o == "colA" && now.flat[k] != bystander.flat[k] {
				return c.Violation(where()+"bystander-collection-changed", "%s: document %s of collection colA changed or disappeared", when, k)
			}
		}
		return nil
	}
	// ---- create colB
	if res := withRetries("create", func(first bool) *core.Result {
		if w.b.CollectionNum("colB") == 0 {
			return c.Violation(where()+"acknowledged-collection-missing", "CreateCollection(colB) was acknowledged (under the fault: %v) but no collection document is stored", first)
		}
		return nil
	}); res != nil {
		return res
	}
	if res := bystanderSame("after CreateCollection(colB)"); res != nil {
		return res
	}
	w.col, w.colNum = "colB", w.b.CollectionNum("colB")
	enter := func(alias, mode string) (*bed.Client, *bed.DT, *core.Result) {
		cl := w.b.NewClient("colB", alias)
		d := cl.Open("k", typ, mode)
		if d == nil {
			return nil, nil, c.Inconclusive("open")
		}
		if err := cl.Register(); err != nil && strings.Contains(err.Error(), "timed out") {
			return nil, nil, c.Inconclusive("registration watchdog")
		} else if err != nil {
			return nil, nil, c.Violation(where()+"client-refused-in-new-collection", "client %s cannot register in collection colB after its creation / reset was acknowledged: %v", alias, err)
		}
		w.cls = append(w.cls, cl)
		if _, sig, msg := w.sync(cl); sig != "" {
			return nil, nil, verdict(c, where(), sig, msg)
		}
		if !w.idle() {
			return nil, nil, c.Inconclusive("idle")
		}
		if d.DT.GetState() != model.StateOfDatatype_SUBSCRIBED {
			errs, _, _ := d.Handler()
			return nil, nil, c.Violation(where()+"entry-refused-in-new-collection", "%s of key k by %s in collection colB did not succeed (state %v, errors %v)", mode, alias, d.DT.GetState(), errs)
		}
		return cl, d, nil
	}
	use := func(tag string) *core.Result {
		_, d0, res := enter(tag+"0", bed.Create)
		if res != nil {
			return res
		}
		w.localOp(d0)
		w.localOp(d0)
		_, d1, res := enter(tag+"1", bed.Subscribe)
		if res != nil {
			return res
		}
		w.localOp(d1)
		ok, sig, msg := w.settle(6)
		if sig != "" {
			return verdict(c, where(), sig, msg)
		}
		if !ok {
			return c.Violation(where()+"no-quiescence", "clients of collection colB do not reach quiescence")
		}
		dd := w.b.Datatype(w.colNum, "k")
		if dd == nil {
			return c.Violation(where()+"datatype-lost", "no datatype document for key k of collection colB although its clients are subscribed")
		}
		if sig, msg := w.b.CheckLog(w.ledger, dd.DUID); sig != "" { // the ledger after a reset knows this collection's new clients only
			return c.Violation(where()+sig, "%s", msg)
		}
		if sig, msg := w.finalAgreement(); sig != "" {
			return c.Violation(where()+sig, "%s", msg)
		}
		return nil
	}
	if res := use("b"); res != nil {
		return res
	}
	// ---- reset colB
	if res := withRetries("reset", func(first bool) *core.Result {
		now := c17Take(w.b, names())
		for k, o := range now.owner {
			if o == "colB" {
				return c.Violation(where()+"acknowledged-reset-left-documents", "ResetCollection(colB) was acknowledged (under the fault: %v) but the document %s still exists", first, k)
			}
		}
		if w.b.CollectionNum("colB") == 0 {
			return c.Violation(where()+"acknowledged-collection-missing", "ResetCollection(colB) was acknowledged but no collection document is stored")
		}
		return nil
	}); res != nil {
		return res
	}
	if res := bystanderSame("after ResetCollection(colB)"); res != nil {
		return res
	}
	// the clients of the reset collection are gone with it; new ones start over
	w.cls = nil
	w.ledger = bed.NewLedger()
	w.colNum = w.b.CollectionNum("colB")
	if res := use("n"); res != nil {
		return res
	}
	// the bystander still works
	w.localOp(ad)
	if _, sig, msg := w.sync(a0); sig != "" {
		return verdict(c, where()+"bystander:", sig, msg)
	}
	if !w.idle() {
		return c.Inconclusive("idle")
	}
	if p := ad.W.CreatePushPullPack(); len(p.Operations) > 0 {
		return c.Violation(where()+"bystander-push-refused", "the client of collection colA cannot push any more (%d operations stay pending)", len(p.Operations))
	}
	mu.Lock()
	h := hit
	mu.Unlock()
	if h == nil {
		c.Count("fault_not_reached", 1)
		return c.Held()
	}
	c.Count("col_faults_"+kind, 1)
	c.Count("col_fault_at_"+h.Name+"_"+h.Coll, 1)
	if isWrite(h.Name) {
		c.NonTrivial()
	}
	return c.Held()
}
