package props

import (
	"fmt"

	"github.com/orda-io/orda/client/pkg/model"
	"vh/core"
	"vh/crdt"
)

// Identifier monitors (C15) attached to every E-crdt history of C01/C03/C09 (shared code;
// violations are reported with an "id:" signature by the check that ran the history, and
// C15 runs its own histories with the same monitors).

type idState struct {
	seen    []int     // per replica: number of pending operations already examined
	maxSeen []crdt.TS // per replica: greatest foreign timestamp applied so far
	scanned []int     // per replica: log entries scanned for maxSeen
	checked int64
}

// AttachIDMonitor installs the per-step identifier monitor on h.
func AttachIDMonitor(c *core.Case, h *crdt.Hist) {
	st := &idState{seen: make([]int, len(h.Reps)), maxSeen: make([]crdt.TS, len(h.Reps)), scanned: make([]int, len(h.Reps))}
	h.AfterStep = append(h.AfterStep, func(h *crdt.Hist, r *crdt.Rep) (string, string) {
		return st.step(c, h, r)
	})
}

func (st *idState) step(c *core.Case, h *crdt.Hist, r *crdt.Rep) (string, string) {
	if r.Idx < 0 || r.Idx >= len(st.seen) {
		return "", ""
	}
	i := r.Idx
	pend := r.Pending()
	// new local operations: seq gapless, clock strictly increasing, after everything applied
	for k := st.seen[i]; k < len(pend); k++ {
		op := pend[k]
		if op.ID == nil {
			return "id:nil-id", fmt.Sprintf("r%d pending operation %d has no id", i, k)
		}
		if op.ID.Seq != uint64(k+1) {
			return "id:seq-gap", fmt.Sprintf("r%d: pending operation at position %d carries seq %d (expected %d): client sequence numbers are not 1,2,3,...", i, k, op.ID.Seq, k+1)
		}
		if k > 0 && op.ID.CUID != r.CUID() { // position 0 is the creation snapshot operation
			return "id:foreign-cuid", fmt.Sprintf("r%d: pending operation %d carries cuid %s", i, k, op.ID.CUID)
		}
		if k > 0 && !(pend[k-1].ID.Lamport < op.ID.Lamport) {
			return "id:clock-not-increasing", fmt.Sprintf("r%d: operation seq %d has lamport %d, previous %d", i, op.ID.Seq, op.ID.Lamport, pend[k-1].ID.Lamport)
		}
		t := crdt.TS{E: op.ID.Era, L: op.ID.Lamport, C: op.ID.CUID}
		if st.maxSeen[i].C != "" && !st.maxSeen[i].Less(t) {
			return "id:not-after-applied", fmt.Sprintf("r%d: new local operation %v is not ordered after already applied operation %v", i, t, st.maxSeen[i])
		}
		st.checked++
	}
	st.seen[i] = len(pend)
	// foreign operations applied so far
	for ; st.scanned[i] < r.Recvd && st.scanned[i] < len(h.Log.Entries); st.scanned[i]++ {
		e := h.Log.Entries[st.scanned[i]]
		if e.From == i {
			continue
		}
		for _, op := range e.Ops {
			t := crdt.TS{E: op.ID.Era, L: op.ID.Lamport, C: op.ID.CUID}
			if st.maxSeen[i].C == "" || st.maxSeen[i].Less(t) {
				st.maxSeen[i] = t
			}
		}
	}
	return "", ""
}

// FinishIDMonitor checks, over the whole log, that all element identities have pairwise
// distinct Hash() and that identities of distinct operations are distinct.
func FinishIDMonitor(c *core.Case, h *crdt.Hist) (string, string) {
	ops, err := crdt.DecodeAll(h.Log.All())
	if err != nil {
		return "id:undecodable-op", err.Error()
	}
	ids := map[crdt.TS]bool{}
	opSeen := map[crdt.TS]bool{}
	for _, o := range ops {
		if o.Type%10 == 0 { // snapshot ops carry no timestamp of their own
			continue
		}
		if opSeen[o.ID] {
			return "id:duplicate-op-timestamp", fmt.Sprintf("two operations share timestamp %v", o.ID)
		}
		opSeen[o.ID] = true
		switch o.Type {
		case model.TypeOfOperation_LIST_INSERT:
			for k := range o.V {
				ids[crdt.TS{E: o.ID.E, L: o.ID.L, C: o.ID.C, D: uint32(k)}] = true
			}
		case model.TypeOfOperation_DOC_ARR_INS, model.TypeOfOperation_DOC_ARR_UPD, model.TypeOfOperation_DOC_OBJ_PUT:
			n := uint32(0)
			for _, v := range o.V {
				n += crdt.CountNodes(v)
			}
			for k := uint32(0); k < n; k++ {
				ids[crdt.TS{E: o.ID.E, L: o.ID.L, C: o.ID.C, D: k}] = true
			}
		}
		for _, t := range o.T {
			ids[t] = true
		}
		if o.P != nil {
			ids[*o.P] = true
		}
	}
	hashes := map[string]crdt.TS{}
	for id := range ids {
		hsh := id.Model().Hash()
		if other, ok := hashes[hsh]; ok && other != id {
			return "id:hash-collision", fmt.Sprintf("distinct element identities %v and %v share the identity key %q", other, id, hsh)
		}
		hashes[hsh] = id
	}
	c.Count("id_ops_checked", int64(len(opSeen)))
	c.Count("id_identities_checked", int64(len(ids)))
	return "", ""
}
