package props

import (
	"encoding/json"
	"fmt"
	"runtime"
	"sort"
	"strings"
	"sync"
	"sync/atomic"
	"time"

	"github.com/anishathalye/porcupine"
	"github.com/orda-io/orda/client/pkg/model"
	"github.com/orda-io/orda/client/pkg/orda"
	"github.com/wI2L/jsondiff"
	"vh/bed"
	"vh/core"
	"vh/crdt"
)

const c20D = 1000003 // magnitude of the second client's {+D,-D} counter units

func init() {
	// accesses made under the datatype's transaction lock
	core.RaceLockMarkers = []string{"SentenceInTx", "DoTransaction", "ExecuteRemoteTransactionWithCtx", "(*TransactionDatatype).Rollback"}
	core.Register(&core.Prop{
		ID:          "C20",
		MaxBatch:    60,
		Level:       "exploration",
		Workers:     4,
		Race:        true,
		CaseTimeout: 200e9,
		Rule: "real parallel executions under the Go race detector: 2-8 goroutines issue operations and transactions - a quarter of which are aborted by their own body after doing all their calls - (values tagged goroutine x counter; documents: also through child handles kept from inside a transaction body (single calls and two-step patches; inserts, deletes and two-value updates at the tail of an array through a kept handle of it); lists: also range deletes at the tail of the list as it is at the moment of the call, which another goroutine may shorten before the call holds the datatype - refused is fine, a panic is not) on ONE datatype of each type while a background goroutine syncs it with the real service and, in half of the rounds, a second client's operations arrive; yields / sleeps are injected at the BeginTransaction / unlock hook points with seeded probabilities; a pack observer builds push packs in a tight loop meanwhile. Monitors: every pack the observer or a sync builds holds whole transaction units only; conservation (counter = sum of the deltas of calls that returned success, plus the remote deltas; for the other types the final state equals the replay of the stored log, which holds exactly one operation per successful call); exactly-once and identifier order (the client's stored operations carry seq 1..n without gap or repeat and strictly increasing clocks); transaction contiguity (each TRANSACTION header is followed by exactly NumOfOps-1 operations, all carrying tags of the issuing goroutine); isolation inside a transaction body (a counter read-modify-read sequence sees only its own writes; the second client's recognisable units - {+D,-D} pairs on a counter, six keys written to one value on a map / document - are never seen half-applied by reads inside a local transaction); linearizability of return values in rounds without a second client (porcupine: counter IncreaseBy -> new value; map Put/Remove -> previous value, per key); a transaction that fails after staying open while a pending call of the same application was pushed and acknowledged leaves nothing behind (rounds without a second client); no deadlock / panic (watchdog, worker crash); race-detector reports attributed to orda code, keyed by the unordered pair of innermost orda functions; " +
			"non-trivial = >= 3 goroutines completed >= 5 calls each while >= 1 background sync applied a response; distinct = hash of the emitted (goroutine-tag) sequence, i.e. the interleaving actually observed",
		Assumptions: []string{
			"the application goroutines use the public mutators and transactions; getters are called only inside transaction bodies or after the goroutines have joined",
			"the background sync is the harness' single-in-flight exchange loop (what Sync() in MANUALLY mode does); REALTIME delivery goroutines are exercised by C18 whose race reports are advisory",
		},
		Trusted: []string{"fakemongo", "fakemqtt", "harness transport (direct mode)", "porcupine v1.3.0", "Go race detector"},
		Cases:   func(t string) int { return tierN(t, 40, 1500) },
		Floor:   func(t string) int { return tierN(t, 15, 400) },
		Run:     runC20,
	})
}

type c20in struct {
	key   string
	kind  string // inc | put | rm
	delta int32
	val   string
}

type c20out struct {
	ret string
	err bool
}

var c20Model = porcupine.Model{
	Init: func() interface{} { return "" },
	Step: func(st, in, out interface{}) (bool, interface{}) {
		i, o := in.(c20in), out.(c20out)
		s := st.(string)
		switch i.kind {
		case "inc":
			var cur int32
			fmt.Sscan(s, &cur)
			if s == "" {
				cur = 0
			}
			nv := cur + i.delta
			return o.ret == fmt.Sprint(nv), fmt.Sprint(nv)
		case "put":
			return o.ret == s, i.val
		case "rm":
			if o.err {
				return s == "", s
			}
			return o.ret == s, "" // removing an absent key without an error (returning nothing) is a legal no-op as well
		}
		return false, st
	},
	Equal: func(a, b interface{}) bool { return a.(string) == b.(string) },
	Partition: func(h []porcupine.Operation) [][]porcupine.Operation {
		m := map[string][]porcupine.Operation{}
		for _, op := range h {
			k := op.Input.(c20in).key
			m[k] = append(m[k], op)
		}
		var ks []string
		for k := range m {
			ks = append(ks, k)
		}
		sort.Strings(ks)
		var out [][]porcupine.Operation
		for _, k := range ks {
			out = append(out, m[k])
		}
		return out
	},
}

func runC20(c *core.Case) *core.Result {
	w, err := newSvcWorld(c, "colA")
	if err != nil {
		return c.Inconclusive("test bed did not start: %v", err)
	}
	defer w.close()
	r := c.Rng
	typ := crdt.Types[c.Index%4]
	ngo := 2 + r.Intn(7)
	withRemote := c.Index%8 >= 4
	calls := tierN(c.Tier, 30, 50)
	noTx := (c.Index/8)%2 == 0 // rounds without transactions keep the recorded histories complete
	key := fmt.Sprintf("g%d", c.Index)
	c.Step("type=%s goroutines=%d calls=%d second-client=%v", typ, ngo, calls, withRemote)
	// yields at the client hook points
	seedJ := r.Int63()
	var jc int64
	w.b.OnHook(func(point string, args ...interface{}) {
		if !strings.HasPrefix(point, "tx.") && point != "wired.apply" {
			return
		}
		n := atomic.AddInt64(&jc, 1)
		switch (seedJ + n*7919) % 6 {
		case 0:
			time.Sleep(100 * time.Microsecond)
		case 1, 2:
			time.Sleep(5 * time.Microsecond)
		}
	})
	cl := w.b.NewClient("colA", "app")
	w.cls = append(w.cls, cl)
	d := cl.Open(key, typ, bed.Create)
	cl.Register()
	var arrSizeHint atomic.Int64 // documents: a rough size of the array "arr" (not read from the datatype)
	setupOps := int64(0)
	if doc, ok := d.DT.(orda.Document); ok {
		// an object child for the handles that goroutines keep from inside their transactions
		if _, e := doc.PutToObject("box", map[string]interface{}{"init": "x"}); e == nil {
			setupOps = 1
			if _, e := doc.PutToObject("arr", []interface{}{"a0", "a1", "a2"}); e == nil {
				setupOps = 2
				arrSizeHint.Store(3)
			}
		}
	}
	if _, sig, msg := w.sync(cl); sig != "" {
		return verdict(c, "setup:", sig, msg)
	}
	w.idle()
	var other *bed.Client
	var od *bed.DT
	if withRemote {
		other = w.b.NewClient("colA", "other")
		w.cls = append(w.cls, other)
		od = other.Open(key, typ, bed.Subscribe)
		other.Register()
		if _, sig, msg := w.sync(other); sig != "" {
			return verdict(c, "setup:", sig, msg)
		}
		w.idle()
	}
	var listSizeHint atomic.Int64 // a rough size the goroutines aim positions at (not read from the datatype)
	var hmu sync.Mutex
	var hist []porcupine.Operation
	var clock int64
	var okCalls, txCommitted, txOps, txAborted, keptHandleCalls, rangeDeletes, arrayCalls int64
	defer func() {
		c.Count("transactions_aborted_by_their_body", atomic.LoadInt64(&txAborted))
		c.Count("calls_through_a_child_handle_kept_from_a_transaction", atomic.LoadInt64(&keptHandleCalls))
		c.Count("accepted_tail_range_deletes", atomic.LoadInt64(&rangeDeletes))
		c.Count("accepted_array_calls_through_a_kept_handle", atomic.LoadInt64(&arrayCalls))
	}()
	var sumDeltas int64
	var violation atomic.Value
	fail := func(sig, format string, a ...interface{}) {
		violation.CompareAndSwap(nil, [2]string{sig, fmt.Sprintf(format, a...)})
	}
	done := make(chan struct{})
	var wg sync.WaitGroup
	completed := make([]int64, ngo)
	for gi := 0; gi < ngo; gi++ {
		wg.Add(1)
		go func(gi int) {
			defer wg.Done()
			defer func() {
				if p := recover(); p != nil {
					fail("panic:"+typ, "goroutine %d: a public call panicked: %v", gi, p)
				}
			}()
			rr := newRand(seedJ + int64(gi)*7919)
			tag := func(n int) string { return fmt.Sprintf("g%d-%d", gi, n) }
			var kept orda.Document    // documents: a child handle obtained inside a transaction body
			var keptArr orda.Document // documents: the handle of the array "arr", obtained the same way
			for n := 0; n < calls; n++ {
				if violation.Load() != nil {
					return
				}
				inTx := !noTx && rr.Intn(6) == 0
				abort := inTx && rr.Intn(4) == 0 // the body does everything and then returns an error
				switch t := d.DT.(type) {
				case orda.Counter:
					delta := int32(rr.Intn(9) - 4)
					if inTx {
						k := 1 + rr.Intn(3)
						if rr.Intn(4) == 0 {
							k = 12 + rr.Intn(20) // a long unit: its hand-over to the pending buffer takes a while
						}
						err := t.Transaction("t", func(tx orda.CounterInTx) error {
							// the second client's units are {+D,-D} pairs: applied as a whole they never
							// leave a value of that magnitude behind
							if v := tx.Get(); v > c20D/2 || v < -c20D/2 {
								fail("remote-unit-half-applied:counter", "inside a transaction body of goroutine %d the counter reads %d: a transaction unit of the second client ({+%d,-%d} pairs) is applied in part", gi, v, c20D, c20D)
							}
							for j := 0; j < k; j++ {
								before := tx.Get()
								nv, e := tx.IncreaseBy(delta)
								if e != nil {
									return e
								}
								if nv != before+delta || tx.Get() != nv {
									fail("tx-interleaved:counter", "inside a transaction body of goroutine %d: Get()=%d, IncreaseBy(%d) returned %d, Get() afterwards %d - another goroutine's call interleaved", gi, before, delta, nv, tx.Get())
								}
							}
							if abort {
								if rr.Intn(2) == 0 {
									time.Sleep(time.Duration(300+rr.Intn(500)) * time.Microsecond) // long enough for a sync answer to arrive while the body is open
								}
								return errAbort // nothing of this body may remain: not in the value, not in the pending list
							}
							return nil
						})
						if err == nil {
							atomic.AddInt64(&sumDeltas, int64(delta)*int64(k))
							atomic.AddInt64(&txCommitted, 1)
							atomic.AddInt64(&txOps, int64(k))
						} else if abort {
							atomic.AddInt64(&txAborted, 1)
						}
						continue
					}
					call := atomic.AddInt64(&clock, 1)
					nv, e := t.IncreaseBy(delta)
					ret := atomic.AddInt64(&clock, 1)
					if e == nil {
						atomic.AddInt64(&sumDeltas, int64(delta))
						atomic.AddInt64(&okCalls, 1)
						hmu.Lock()
						hist = append(hist, porcupine.Operation{ClientId: gi, Input: c20in{key: "counter", kind: "inc", delta: delta}, Call: call, Output: c20out{ret: fmt.Sprint(nv)}, Return: ret})
						hmu.Unlock()
					}
				case orda.Map:
					k := fmt.Sprintf("k%d", rr.Intn(3))
					if inTx {
						n1, n2 := tag(n*10), tag(n*10+1)
						err := t.Transaction("t", func(tx orda.MapInTx) error {
							// the second client writes uA..uF to one value in one unit
							if a, f := tx.Get("uA"), tx.Get("uF"); a != f {
								fail("remote-unit-half-applied:map", "inside a transaction body of goroutine %d: uA=%v but uF=%v - the second client writes both in ONE transaction unit", gi, a, f)
							}
							if _, e := tx.Put(k, n1); e != nil {
								return e
							}
							if got := tx.Get(k); got != n1 {
								fail("tx-interleaved:map", "inside a transaction body of goroutine %d: Put(%s,%s) then Get = %v", gi, k, n1, got)
							}
							if _, e := tx.Put(k, n2); e != nil {
								return e
							}
							if abort {
								if rr.Intn(2) == 0 {
									time.Sleep(time.Duration(300+rr.Intn(500)) * time.Microsecond) // long enough for a sync answer to arrive while the body is open
								}
								return errAbort
							}
							return nil
						})
						if err == nil {
							atomic.AddInt64(&txCommitted, 1)
							atomic.AddInt64(&txOps, 2)
						} else if abort {
							atomic.AddInt64(&txAborted, 1)
						}
						continue
					}
					call := atomic.AddInt64(&clock, 1)
					var old interface{}
					var e error
					kind := "put"
					v := tag(n)
					if rr.Intn(4) == 0 {
						kind = "rm"
						old, e = t.Remove(k)
					} else {
						old, e = t.Put(k, v)
					}
					ret := atomic.AddInt64(&clock, 1)
					os, _ := old.(string)
					if e == nil {
						atomic.AddInt64(&okCalls, 1)
					}
					hmu.Lock()
					hist = append(hist, porcupine.Operation{ClientId: gi, Input: c20in{key: k, kind: kind, val: v}, Call: call, Output: c20out{ret: os, err: e != nil}, Return: ret})
					hmu.Unlock()
				case orda.List:
					if inTx {
						err := t.Transaction("t", func(tx orda.ListInTx) error {
							if _, e := tx.InsertMany(0, tag(n*10), tag(n*10+1)); e != nil {
								return e
							}
							vs, e := tx.GetMany(0, 2)
							if e != nil || len(vs) != 2 || vs[0] != tag(n*10) || vs[1] != tag(n*10+1) {
								fail("tx-interleaved:list", "inside a transaction body of goroutine %d: InsertMany(0,a,b) then GetMany(0,2) = %v (%v)", gi, vs, e)
							}
							if abort {
								if rr.Intn(2) == 0 {
									time.Sleep(time.Duration(300+rr.Intn(500)) * time.Microsecond) // long enough for a sync answer to arrive while the body is open
								}
								return errAbort
							}
							return nil
						})
						if err == nil {
							atomic.AddInt64(&txCommitted, 1)
							atomic.AddInt64(&txOps, 1)
						} else if abort {
							atomic.AddInt64(&txAborted, 1)
						}
						continue
					}
					// positions are taken from a size that other goroutines and remote operations
					// change meanwhile: a refused call is fine, a panic is not
					sz := listSizeHint.Load()
					switch {
					case rr.Intn(6) == 0:
						// a range at the tail of the list as it is NOW: by the time the call holds the
						// datatype another goroutine or a remote operation may have shortened the list,
						// so that the start is still valid and the end is not (refused, not a panic)
						if cur := t.Size(); cur >= 2 {
							k := 2 + rr.Intn(minInt(2, cur-1))
							if _, e := t.DeleteMany(cur-k, k); e == nil {
								atomic.AddInt64(&okCalls, 1)
								atomic.AddInt64(&rangeDeletes, 1)
							}
						}
					case sz > 2 && rr.Intn(4) == 0:
						if _, e := t.Delete(rr.Intn(int(sz))); e == nil {
							atomic.AddInt64(&okCalls, 1)
						}
					case sz > 1 && rr.Intn(4) == 0:
						if _, e := t.Update(rr.Intn(int(sz)), tag(n)); e == nil {
							atomic.AddInt64(&okCalls, 1)
						}
					default:
						if _, e := t.InsertMany(rr.Intn(int(sz)+1), tag(n)); e == nil {
							atomic.AddInt64(&okCalls, 1)
							listSizeHint.Add(1)
						}
					}
				case orda.Document:
					if inTx {
						err := t.Transaction("t", func(tx orda.DocumentInTx) error {
							var a, f interface{}
							if x, e := tx.GetFromObject("uA"); e == nil && x != nil {
								a = x.GetValue()
							}
							if x, e := tx.GetFromObject("uF"); e == nil && x != nil {
								f = x.GetValue()
							}
							if a != f {
								fail("remote-unit-half-applied:doc", "inside a transaction body of goroutine %d: uA=%v but uF=%v - the second client writes both in ONE transaction unit", gi, a, f)
							}
							if _, e := tx.PutToObject(fmt.Sprintf("g%d", gi), tag(n*10)); e != nil {
								return e
							}
							if _, e := tx.PutToObject(fmt.Sprintf("k%d", rr.Intn(3)), tag(n*10+1)); e != nil {
								return e
							}
							// a child handle obtained inside the body is kept and used after the body has ended
							if h, e := tx.GetFromObject("box"); e == nil && h != nil {
								kept = h
							}
							if h, e := tx.GetFromObject("arr"); e == nil && h != nil && h.GetTypeOfJSON() == orda.TypeJSONArray {
								keptArr = h
							}
							if abort {
								if rr.Intn(2) == 0 {
									time.Sleep(time.Duration(300+rr.Intn(500)) * time.Microsecond) // long enough for a sync answer to arrive while the body is open
								}
								return errAbort
							}
							return nil
						})
						if err == nil {
							atomic.AddInt64(&txCommitted, 1)
							atomic.AddInt64(&txOps, 2)
						} else if abort {
							atomic.AddInt64(&txAborted, 1)
						}
						continue
					}
					if keptArr != nil && rr.Intn(4) == 0 {
						// array calls through the kept handle, aimed at a size other goroutines and
						// remote operations change meanwhile: a refused call is fine, and it must
						// leave nothing behind (the final state is the replay of the stored log)
						sz := arrSizeHint.Load()
						switch {
						case sz >= 2 && rr.Intn(3) == 0:
							if _, e := keptArr.UpdateManyInArray(int(sz)-2, tag(n), tag(n)+"u"); e == nil {
								atomic.AddInt64(&okCalls, 1)
								atomic.AddInt64(&arrayCalls, 1)
							}
						case sz >= 1 && rr.Intn(2) == 0:
							if _, e := keptArr.DeleteInArray(rr.Intn(int(sz))); e == nil {
								atomic.AddInt64(&okCalls, 1)
								atomic.AddInt64(&arrayCalls, 1)
								arrSizeHint.Add(-1)
							}
						default:
							if _, e := keptArr.InsertToArray(0, tag(n)); e == nil {
								atomic.AddInt64(&okCalls, 1)
								atomic.AddInt64(&arrayCalls, 1)
								arrSizeHint.Add(1)
							}
						}
						atomic.AddInt64(&completed[gi], 1)
						continue
					}
					if kept != nil && rr.Intn(3) == 0 {
						// through the kept child handle, outside any transaction of this goroutine
						if rr.Intn(3) == 0 {
							// a two-step patch (paths are those of the whole document): a transaction
							// of its own, whatever context the handle still carries
							var ps []jsondiff.Operation
							if json.Unmarshal([]byte(fmt.Sprintf(`[{"op":"add","path":"/box/p%d","value":%q},{"op":"add","path":"/box/q%d","value":%q}]`, gi, tag(n), gi, tag(n))), &ps) != nil || len(ps) != 2 {
								panic("harness: patch steps not built")
							}
							if e := kept.Patch(ps...); e == nil {
								atomic.AddInt64(&txCommitted, 1)
								atomic.AddInt64(&txOps, 2)
								atomic.AddInt64(&keptHandleCalls, 1)
							}
						} else if _, e := kept.PutToObject(fmt.Sprintf("b%d", gi), tag(n)); e == nil {
							atomic.AddInt64(&okCalls, 1)
							atomic.AddInt64(&keptHandleCalls, 1)
						}
						atomic.AddInt64(&completed[gi], 1)
						continue
					}
					if _, e := t.PutToObject(fmt.Sprintf("k%d", rr.Intn(3)), tag(n)); e == nil {
						atomic.AddInt64(&okCalls, 1)
					}
				}
				atomic.AddInt64(&completed[gi], 1)
				if rr.Intn(4) == 0 {
					time.Sleep(time.Duration(rr.Intn(50)) * time.Microsecond)
				}
			}
		}(gi)
	}
	// pack observer: whatever moment a sync picks to build its pack, the pack holds whole
	// transaction units only (a header is followed by all the operations it announces)
	var packsObserved int64
	bgObs := make(chan struct{})
	go func() {
		defer close(bgObs)
		for {
			select {
			case <-done:
				return
			default:
			}
			ops := d.W.CreatePushPullPack().Operations
			for i, o := range ops {
				if o.OpType != model.TypeOfOperation_TRANSACTION {
					continue
				}
				if hd, err := crdt.Decode(o); err == nil && hd.N > int64(len(ops)-i) {
					fail("pack:truncated-unit", "a pack built while application goroutines run holds a transaction header (seq %d) announcing %d operations with only %d operations after it: a sync at this moment pushes an incomplete unit", o.ID.GetSeq(), hd.N, len(ops)-i)
					return
				}
			}
			atomic.AddInt64(&packsObserved, 1)
			runtime.Gosched()
		}
	}()
	defer func() { <-bgObs; c.Count("packs_observed_during_concurrent_use", atomic.LoadInt64(&packsObserved)) }()
	// background sync loop (single in flight) and the second client
	var syncs, applied int64
	var bg sync.WaitGroup
	bg.Add(1)
	go func() {
		defer bg.Done()
		for {
			select {
			case <-done:
				return
			default:
			}
			req := cl.BuildRequest()
			w.ledger.Offer(req)
			ex := cl.Send(req)
			if ex.Out.Panic != "" {
				fail("server-panic", "ProcessPushPull panicked: %s", ex.Out.Panic)
				return
			}
			if ex.Out.TimedOut {
				if ex.Out.Hang {
					fail("request-hang", "background sync never returned\n%s", clipDump(ex.Out.Dump))
				} else {
					fail("INCONCLUSIVE", "background sync watchdog")
				}
				return
			}
			if ex.Out.Err == nil {
				if pm := cl.Apply(ex.Resp); pm != "" {
					fail("client-panic", "ApplyPushPullPack panicked during concurrent use: %s", pm)
					return
				}
				atomic.AddInt64(&applied, 1)
			}
			atomic.AddInt64(&syncs, 1)
			time.Sleep(200 * time.Microsecond)
		}
	}()
	var remoteDelta, remoteUnits int64
	defer func() { c.Count("second_client_units", atomic.LoadInt64(&remoteUnits)) }()
	if withRemote {
		bg.Add(1)
		go func() {
			defer bg.Done()
			rr := newRand(seedJ + 99)
			g := crdt.NewGen(rr)
			for n := 0; ; n++ {
				select {
				case <-done:
					return
				default:
				}
				if unit := rr.Intn(4) > 0; unit {
					// a recognisable all-or-nothing unit (see the reads inside the local transactions)
					v := fmt.Sprintf("U%d", n)
					keys := []string{"uA", "uB", "uC", "uD", "uE", "uF"}
					switch t := od.DT.(type) {
					case orda.Counter:
						t.Transaction("u", func(tx orda.CounterInTx) error {
							for j := 0; j < 6; j++ {
								tx.IncreaseBy(c20D)
								tx.IncreaseBy(-c20D)
							}
							return nil
						})
					case orda.Map:
						t.Transaction("u", func(tx orda.MapInTx) error {
							for _, k := range keys {
								tx.Put(k, v)
							}
							return nil
						})
					case orda.Document:
						t.Transaction("u", func(tx orda.DocumentInTx) error {
							for _, k := range keys {
								tx.PutToObject(k, v)
							}
							return nil
						})
					default:
						unit = false
					}
					if unit {
						atomic.AddInt64(&remoteUnits, 1)
					}
				}
				if cn, ok := od.DT.(orda.Counter); ok {
					dl := int32(rr.Intn(5))
					if _, e := cn.IncreaseBy(dl); e == nil {
						atomic.AddInt64(&remoteDelta, int64(dl))
					}
				} else if l, ok := od.DT.(orda.List); ok && l.Size() > 0 && rr.Intn(2) == 0 {
					l.DeleteMany(0, 1+rr.Intn(minInt(3, l.Size())))
				} else {
					crdt.Apply(od.DT, g.Op(wrapRep(od)))
				}
				req := other.BuildRequest()
				w.ledger.Offer(req)
				ex := other.Send(req)
				if ex.Out.Err == nil && ex.Out.Panic == "" && !ex.Out.TimedOut {
					other.Apply(ex.Resp)
				}
				time.Sleep(300 * time.Microsecond)
			}
		}()
	}
	// deadlock watchdog on the application goroutines
	joined := make(chan struct{})
	go func() { wg.Wait(); close(joined) }()
	select {
	case <-joined:
	case <-time.After(60 * time.Second):
		// logical evidence of a deadlock: no application goroutine completes a single call any
		// more (three samples one second apart), and goroutines wait for a mutex; goroutines
		// that still make progress on a slow machine are inconclusive
		progress := func() int64 {
			var n int64
			for i := range completed {
				n += atomic.LoadInt64(&completed[i])
			}
			return n
		}
		p0 := progress()
		moving := false
		for t := 0; t < 3 && !moving; t++ {
			time.Sleep(time.Second)
			moving = progress() != p0
		}
		dump := bed.Stacks()
		close(done)
		c.Poisoned()
		if moving {
			return c.Inconclusive("application goroutines did not finish within 60 s but still complete calls")
		}
		if strings.Contains(dump, "sync.(*RWMutex).Lock") || strings.Contains(dump, "sync.(*Mutex).Lock") {
			return c.Violation("deadlock:"+typ, "application goroutines did not finish within 60 s; goroutines are blocked on the datatype's mutex:\n%s", clipDump(dump))
		}
		return c.Inconclusive("application goroutines did not finish within 60 s")
	}
	if !withRemote && violation.Load() == nil {
		// quiet abort: the application is silent, everything it issued is acknowledged, only the
		// background sync keeps running. One transaction does two calls, stays open until at
		// least one more sync answer has been applied to the datatype, and then fails: the state
		// and the pending list must be what they were before it began.
		for t := 0; t < 400 && d.W.NeedPush(); t++ {
			time.Sleep(5 * time.Millisecond)
		}
		if !d.W.NeedPush() {
			rep := wrapRep(d)
			viewBefore := rep.View()
			if cn, ok := d.DT.(orda.Counter); ok {
				viewBefore = fmt.Sprint(cn.Get())
			}
			pendBefore := len(d.W.CreatePushPullPack().Operations)
			var body []crdt.Op
			switch typ {
			case "counter":
				body = []crdt.Op{{Kind: "inc", N: 3}, {Kind: "inc", N: 4}}
			case "map":
				body = []crdt.Op{{Kind: "put", Key: "qa", Val: "quiet-1"}, {Kind: "put", Key: "qb", Val: "quiet-2"}}
			case "list":
				body = []crdt.Op{{Kind: "ins", Pos: 0, Vals: []interface{}{"quiet-1"}}, {Kind: "ins", Pos: 0, Vals: []interface{}{"quiet-2"}}}
			default:
				body = []crdt.Op{{Kind: "put", Key: "qa", Val: "quiet-1"}, {Kind: "put", Key: "qb", Val: "quiet-2"}}
			}
			// one ordinary call right before: its push and acknowledgement then fall INTO the open body
			so := sureOp(typ, w.g)
			crdt.Apply(d.DT, so)
			atomic.AddInt64(&okCalls, 1)
			if typ == "counter" {
				atomic.AddInt64(&sumDeltas, int64(so.N))
			}
			viewBefore = rep.View()
			if cn, ok := d.DT.(orda.Counter); ok {
				viewBefore = fmt.Sprint(cn.Get())
			}
			answersBefore := atomic.LoadInt64(&applied)
			waited := false
			txBody := func(tx interface{}) error {
				for _, o := range body {
					if _, e := crdt.Apply(tx, o); e != nil {
						return e
					}
				}
				for t := 0; t < 150 && (d.W.NeedPush() || atomic.LoadInt64(&applied) < answersBefore+2); t++ {
					time.Sleep(2 * time.Millisecond)
				}
				waited = !d.W.NeedPush() && atomic.LoadInt64(&applied) >= answersBefore+2
				return errAbort
			}
			if pm := safely(func() {
				switch t := d.DT.(type) {
				case orda.Counter:
					t.Transaction("quiet", func(x orda.CounterInTx) error { return txBody(x) })
				case orda.Map:
					t.Transaction("quiet", func(x orda.MapInTx) error { return txBody(x) })
				case orda.List:
					t.Transaction("quiet", func(x orda.ListInTx) error { return txBody(x) })
				case orda.Document:
					t.Transaction("quiet", func(x orda.DocumentInTx) error { return txBody(x) })
				}
			}); pm != "" {
				fail("panic:"+typ, "a transaction that fails while sync answers arrive panicked: %s", pm)
			}
			viewAfter := rep.View()
			if cn, ok := d.DT.(orda.Counter); ok {
				viewAfter = fmt.Sprint(cn.Get())
			}
			if viewAfter != viewBefore {
				fail("failed-tx-left-something:"+typ, "a transaction did two calls, stayed open while sync answers were applied (%v) and then failed: before it the datatype read %s, afterwards %s", waited, clip(viewBefore, 300), clip(viewAfter, 300))
			} else if n := len(d.W.CreatePushPullPack().Operations); n > pendBefore+1 {
				fail("failed-tx-left-something:"+typ, "a failed transaction left %d operations in the pending list", n-pendBefore)
			}
			if waited {
				c.Count("quiet_aborts_with_answers_applied_meanwhile", 1)
			}
		}
	}
	close(done)
	bg.Wait()
	if v, ok := violation.Load().([2]string); ok {
		return verdict(c, "", v[0], v[1])
	}
	if !w.idle() {
		return c.Inconclusive("idle")
	}
	ok, sig, msg := w.settle(8)
	if sig != "" {
		return verdict(c, "", sig, msg)
	}
	if !ok {
		return c.Violation("no-quiescence", "after the goroutines finished, syncing does not reach a state with nothing left to push or pull")
	}
	// ---- exactly once, identifier order, transaction contiguity
	if sig, msg := w.b.CheckLog(w.ledger, ""); sig != "" {
		return c.Violation(sig, "%s", msg)
	}
	dd := w.b.Datatype(w.colNum, key)
	if dd == nil {
		return c.Violation("no-datatype-doc", "datatype document missing")
	}
	var mine []*model.Operation
	for _, o := range w.b.Ops(dd.DUID) {
		if o.OpID.CUID == cl.Model.CUID {
			mine = append(mine, o.GetOperation())
		}
	}
	wantOps := 1 + setupOps + atomic.LoadInt64(&okCalls) + atomic.LoadInt64(&txCommitted) + atomic.LoadInt64(&txOps)
	if int64(len(mine)) != wantOps {
		return c.Violation("calls-vs-operations:"+typ, "%d calls and %d transactions (%d operations) returned success, so %d operations should have been queued and stored, but %d are", okCalls, txCommitted, txOps, wantOps, len(mine))
	}
	var order []string
	for i := 0; i < len(mine); i++ {
		if i > 0 && !(mine[i-1].ID.Lamport < mine[i].ID.Lamport) {
			return c.Violation("clock-order:"+typ, "stored operations seq %d and %d carry clocks %d and %d", mine[i-1].ID.Seq, mine[i].ID.Seq, mine[i-1].ID.Lamport, mine[i].ID.Lamport)
		}
		dop, _ := crdt.Decode(mine[i])
		if dop.Type == model.TypeOfOperation_TRANSACTION {
			n := int(dop.N)
			if n < 1 || i+n > len(mine) {
				return c.Violation("tx-unit:"+typ, "TRANSACTION header at seq %d announces %d operations, %d follow", mine[i].ID.Seq, n, len(mine)-i-1)
			}
			owner := ""
			for j := i + 1; j < i+n; j++ {
				dj, _ := crdt.Decode(mine[j])
				if dj.Type == model.TypeOfOperation_TRANSACTION {
					return c.Violation("tx-unit:"+typ, "a TRANSACTION header lies inside the unit that starts at seq %d", mine[i].ID.Seq)
				}
				for _, v := range dj.V {
					if s, ok := v.(string); ok && strings.HasPrefix(s, "g") {
						g := s[:strings.Index(s, "-")]
						if owner == "" {
							owner = g
						} else if owner != g {
							return c.Violation("tx-not-contiguous:"+typ, "the transaction unit starting at seq %d contains operations tagged by goroutines %s and %s", mine[i].ID.Seq, owner, g)
						}
					}
				}
			}
			order = append(order, "T"+owner)
			i += n - 1
			continue
		}
		for _, v := range dop.V {
			if s, ok := v.(string); ok && strings.HasPrefix(s, "g") {
				order = append(order, s[:strings.Index(s, "-")])
			}
		}
	}
	c.Fingerprint(core.Hash(order...))
	// ---- conservation
	if sig, msg := w.finalAgreement(); sig != "" {
		return c.Violation(sig, "%s", msg)
	}
	if cn, ok := d.DT.(orda.Counter); ok {
		want := int32(atomic.LoadInt64(&sumDeltas) + atomic.LoadInt64(&remoteDelta))
		if cn.Get() != want {
			return c.Violation("lost-update:counter", "the deltas of all successful calls sum to %d (own %d, second client %d) but the counter reads %d", want, sumDeltas, remoteDelta, cn.Get())
		}
	}
	// ---- linearizability of return values (rounds without a second client)
	if !withRemote && len(hist) > 0 {
		res, _ := porcupine.CheckOperationsVerbose(c20Model, hist, 20*time.Second)
		switch res {
		case porcupine.Illegal:
			sort.Slice(hist, func(a, b int) bool { return hist[a].Call < hist[b].Call })
			var sb strings.Builder
			for i, h := range hist {
				if i > 60 {
					break
				}
				fmt.Fprintf(&sb, "  g%d [%d,%d] %+v -> %+v\n", h.ClientId, h.Call, h.Return, h.Input, h.Output)
			}
			if txCommitted == 0 || typ == "map" {
				// transactions are not part of the recorded history: counter histories are only
				// judged when no transaction changed the value in between
				if typ == "map" && txCommitted > 0 {
					c.Count("linearizability_skipped_tx", 1)
				} else {
					return c.Violation("not-linearizable:"+typ, "the return values of concurrent calls are not those of any one-at-a-time order:\n%s", sb.String())
				}
			} else {
				c.Count("linearizability_skipped_tx", 1)
			}
		case porcupine.Unknown:
			c.Count("linearizability_timeout", 1)
		default:
			c.Count("linearizable_histories", 1)
		}
	}
	c.Count("calls_ok", atomic.LoadInt64(&okCalls))
	c.Count("transactions_committed", atomic.LoadInt64(&txCommitted))
	c.Count("background_syncs", atomic.LoadInt64(&syncs))
	busy := 0
	for _, n := range completed {
		if n >= 5 {
			busy++
		}
	}
	if busy >= 3 && atomic.LoadInt64(&applied) >= 1 {
		c.NonTrivial()
	}
	return c.Held()
}
