package props

// C19, REST half over HTTP: the patch goes through the REST gateway of a real server process
// (POST /api/v1/collections/{collection}/documents/{key}), i.e. through server/server, the
// grpc-gateway JSON mapping and the grpc service, to the same stand-ins; an SDK client created
// the document through the same process before and reads the targets afterwards.

import (
	"bytes"
	"encoding/json"
	"fmt"
	"io"
	"net/http"
	"path/filepath"
	"time"

	"github.com/orda-io/orda/client/pkg/model"
	"vh/bed"
	"vh/core"
	"vh/crdt"
)

func c19HTTP(c *core.Case) *core.Result {
	w, err := newSvcWorld(c, "colA")
	if err != nil {
		return c.Inconclusive("test bed did not start: %v", err)
	}
	defer w.close()
	w.b.Taint()
	r := c.Rng
	g := w.g
	key := fmt.Sprintf("Hd%dK", c.Index) // mixed case: names are case-sensitive on every route
	w.ledger.SkipKeys[key] = true
	proc, err := w.b.StartProc(filepath.Join(core.OutDir, "work", fmt.Sprintf("c19http-%d", c.Index)), 0, 0)
	if err != nil {
		return c.Inconclusive("child server did not start: %v", err)
	}
	defer proc.Kill()
	front, err := w.b.Front()
	if err != nil {
		return c.Inconclusive("grpc front: %v", err)
	}
	front.SetBackend(func() model.OrdaServiceClient { return proc.Client() })
	defer front.SetBackend(nil)
	if err := w.useSDK(); err != nil {
		return c.Inconclusive("%v", err)
	}
	crashed := func(when string) *core.Result {
		if exited, byHarness := proc.Exited(); exited && !byHarness {
			return c.Violation("http:server-process-died", "%s the server process ended by itself (%s): %s", when, proc.ExitDescription(), proc.LogTail(2500))
		}
		return nil
	}
	variant := r.Intn(2) // 0: the document is absent at the first patch; 1: created by an SDK client first
	var reader *bed.DT
	if variant == 1 {
		cl, err := w.b.NewSDKBedClient("colA", "author")
		if err != nil {
			return c.Inconclusive("SDK client: %v", err)
		}
		w.cls = append(w.cls, cl)
		reader = cl.Open(key, "doc", bed.Create)
		for j := 0; j < 1+r.Intn(3); j++ {
			w.localOp(reader)
		}
		if _, sig, msg := w.sync(cl); sig != "" {
			return verdict(c, "http:setup:", sig, msg)
		}
		if !dbQuiet(w.b, 10*time.Second) {
			return c.Inconclusive("the child's database traffic did not stop")
		}
	}
	url := fmt.Sprintf("http://127.0.0.1:%d/api/v1/collections/colA/documents/%s", proc.RESTPort, key)
	httpc := &http.Client{Timeout: 15 * time.Second}
	post := func(body []byte) (int, []byte, error) {
		resp, err := httpc.Post(url, "application/json", bytes.NewReader(body))
		if err != nil {
			return 0, nil, err
		}
		defer resp.Body.Close()
		b, _ := io.ReadAll(resp.Body)
		return resp.StatusCode, b, nil
	}
	var cur interface{} = map[string]interface{}{}
	if reader != nil {
		cur = crdt.Norm(reader.DT.ToJSON())
	}
	n := 2 + r.Intn(3)
	for i := 0; i < n; i++ {
		var target interface{}
		if i == 0 || r.Intn(3) == 0 {
			target = genObject(r, 0, g)
		} else {
			target = mutateJSON(r, cur, 0, g)
		}
		tjson := crdt.JS(target)
		body, _ := json.Marshal(map[string]string{"json": tjson})
		c.Step("HTTP POST %s  target %s", url, clip(tjson, 300))
		code, rb, err := post(body)
		if res := crashed("while a REST patch was served"); res != nil {
			return res
		}
		if err != nil && !dbQuiet(w.b, 3*time.Second) {
			return c.Inconclusive("the REST patch was not answered within the client's timeout; the server is still busy: %v", err)
		}
		if err != nil {
			return c.Violation("http:no-answer", "the REST patch was not answered: %v", err)
		}
		if code != 200 {
			return c.Violation("http:refused", "the REST gateway refused a null-free target object with status %d: %s (current %s, target %s)", code, clip(string(rb), 400), clip(crdt.Canon(cur), 300), clip(tjson, 300))
		}
		var pm struct {
			JSON string `json:"json"`
		}
		if err := json.Unmarshal(rb, &pm); err != nil {
			return c.Violation("http:bad-answer", "the REST answer is not a patch message: %s", clip(string(rb), 400))
		}
		if got, want := crdt.CanonJSON(pm.JSON), crdt.Canon(target); got != want {
			return c.Violation("http:response-not-target", "the REST patch answered %s, the target was %s", clip(got, 500), clip(want, 500))
		}
		if !dbQuiet(w.b, 10*time.Second) {
			return c.Inconclusive("the child's database traffic did not stop")
		}
		dd := w.b.Datatype(w.colNum, key)
		if dd == nil {
			return c.Violation("http:not-stored", "after a REST patch no datatype document is stored for %q", key)
		}
		if sig, msg := w.b.CheckLog(nil, dd.DUID); sig != "" {
			return c.Violation("http:"+sig, "%s", msg)
		}
		rv, err := w.replayJSON(w.b.Ops(dd.DUID))
		if err != nil {
			return c.Violation("http:replay-error", "replaying the stored log failed: %v", err)
		}
		if got, want := crdt.Canon(rv), crdt.Canon(target); got != want {
			return c.Violation("http:stored-not-target", "after the REST patch the stored log replays to %s, the target was %s", clip(got, 500), clip(want, 500))
		}
		c.Count("http_patches_applied", 1)
		cur = target
		if reader != nil && r.Intn(2) == 0 {
			if _, sig, msg := w.sync(reader.C); sig != "" {
				return verdict(c, "http:", sig, msg)
			}
			if got, want := crdt.Canon(reader.DT.ToJSON()), crdt.Canon(target); got != want && len(reader.W.CreatePushPullPack().Operations) == 0 {
				return c.Violation("http:client-not-target", "an SDK client that synced after the REST patch reads %s, the target was %s", clip(got, 500), clip(want, 500))
			}
			c.Count("http_clients_read_target", 1)
		}
	}
	// unpatchable bodies are refused with a client error, change nothing, and the process lives
	before := w.b.DB.Flat(true)
	for _, bad := range []string{`{"json":"{"}`, `{"json":"nope"}`, `{`, `{"json":5}`, ``} {
		code, rb, err := post([]byte(bad))
		if res := crashed("while an unpatchable REST request was served"); res != nil {
			return res
		}
		if err != nil && !dbQuiet(w.b, 3*time.Second) {
			return c.Inconclusive("the REST request was not answered within the client's timeout; the server is still busy: %v", err)
		}
		if err != nil {
			return c.Violation("http:no-answer", "the unpatchable REST request %q was not answered: %v", bad, err)
		}
		if code == 200 && bad != `` {
			return c.Violation("http:unpatchable-accepted", "the unpatchable REST request %q was answered 200: %s", bad, clip(string(rb), 300))
		}
		c.Count(fmt.Sprintf("http_unpatchable_status_%d", code), 1)
	}
	if !dbQuiet(w.b, 10*time.Second) {
		return c.Inconclusive("the child's database traffic did not stop")
	}
	after := w.b.DB.Flat(true)
	if d := fakemongoDiff(before, after); len(d) > 0 {
		// an empty body is a patch message without json: whether it is refused is recorded above;
		// only refused requests must leave the store unchanged
		c.Count("http_diagnostic_store_changed_by_odd_bodies", 1)
	}
	c.NonTrivial()
	return c.Held()
}
