package props

import (
	"bytes"
	"encoding/json"
	"fmt"
	"sort"

	"vh/core"
	"vh/crdt"
)

func init() {
	core.Register(&core.Prop{
		ID:          "C10",
		Level:       "exploration",
		CaseTimeout: 45e9, // a case of this check takes milliseconds; one that does not end is cut after 45 s
		Rule: "seeded multi-replica histories; at a random point (states with tombstones, superseded nested containers, updated array slots, lost-LWW values) replica R exports (meta, snapshot) which is imported into a fresh instance R' the way the SDK initialises one (SetMetaAndSnapshot + ResetTransaction); R and R' then receive the same continuation (local calls, failing and committed transactions, remote deliveries that address old tombstones and containers) and are compared after every step: return values, ToJSON, sizes, element reads, emitted operation ids and bodies; up to four more times during the continuation, and at the end, both are exported again and the snapshots compared in canonical form (an export that lags behind the state shows here) and the pair continues from a fresh restore of the later export, and export(import(export(R))) is compared with export(R); in half of the restores two more instances are imported, one the SDK's way and one the server's way (SetMetaAndSnapshot + ResetWired), and up to three successful local calls must leave both with the same readable state; " +
			"non-trivial = the exported state held a tombstone or a superseded container and the continuation delivered >=1 remote operation and >=3 local calls; distinct = hash of the step script",
		Assumptions: []string{
			"import = SetMetaAndSnapshot followed by ResetTransaction, as the SDK's own init does; a bare SetMetaAndSnapshot followed by a failing user transaction is outside the claim (DESIGN.md D18)",
			"canonical snapshot form: JSON-decoded; document node table sorted by creation timestamp; an array slot [order, created] with created == order equals [order]",
		},
		Cases: func(t string) int { return tierN(t, 3000, 40000) },
		Floor: func(t string) int { return tierN(t, 600, 8000) },
		Run:   runC10,
	})
}

// canonSnapshot brings an exported snapshot to a canonical comparable string.
func canonSnapshot(typ string, snap []byte) string {
	var v interface{}
	dec := json.NewDecoder(bytes.NewReader(snap))
	dec.UseNumber() // clocks above 2^53 must not be rounded by the canonicaliser
	if err := dec.Decode(&v); err != nil {
		return "!unparsable:" + err.Error()
	}
	if typ == "doc" {
		m, _ := v.(map[string]interface{})
		nm, _ := m["nm"].([]interface{})
		key := func(x interface{}) string {
			n, _ := x.(map[string]interface{})
			c, _ := n["c"].(map[string]interface{})
			l, _ := c["l"].(json.Number)
			d, _ := c["d"].(json.Number)
			cu, _ := c["c"].(string)
			return fmt.Sprintf("%024s|%s|%012s", string(l), cu, string(d))
		}
		for _, x := range nm {
			n, _ := x.(map[string]interface{})
			if a, ok := n["a"].(map[string]interface{}); ok {
				if slots, ok := a["n"].([]interface{}); ok {
					for i, s := range slots {
						pair, _ := s.([]interface{})
						if len(pair) == 2 && (pair[1] == nil || crdt.JS(pair[1]) == crdt.JS(pair[0])) {
							slots[i] = []interface{}{pair[0]}
						}
					}
				}
			}
		}
		sort.SliceStable(nm, func(i, j int) bool { return key(nm[i]) < key(nm[j]) })
	}
	return crdt.JS(v)
}

// hasTombOrSuperseded inspects a snapshot for tombstones / superseded containers.
func hasTombOrSuperseded(typ string, snap []byte) bool {
	var v interface{}
	json.Unmarshal(snap, &v)
	switch typ {
	case "list":
		m, _ := v.(map[string]interface{})
		nodes, _ := m["Nodes"].([]interface{})
		for _, n := range nodes {
			if nm, _ := n.(map[string]interface{}); nm != nil && nm["V"] == nil {
				return true
			}
		}
	case "map":
		m, _ := v.(map[string]interface{})
		mm, _ := m["Map"].(map[string]interface{})
		for _, n := range mm {
			if nm, _ := n.(map[string]interface{}); nm != nil && nm["v"] == nil {
				return true
			}
		}
	case "doc":
		m, _ := v.(map[string]interface{})
		nm, _ := m["nm"].([]interface{})
		for _, n := range nm {
			if x, _ := n.(map[string]interface{}); x != nil && x["d"] != nil {
				return true
			}
		}
	case "counter":
		return true
	}
	return false
}

func runC10(c *core.Case) *core.Result {
	maxSteps := tierN(c.Tier, 60, 130)
	sh := drawShape(c, maxSteps)
	if sh.idle > 60 {
		sh.idle = 60
	}
	g := crdt.NewGen(c.Rng)
	g.UpdBias = 0.25
	if c.Index%8 >= 4 && sh.typ != "counter" {
		g.Exotic = 0.1
	}
	h := crdt.NewHist(c, g, sh.typ, sh.nrep)
	R := h.Reps[0]
	var T *crdt.Rep
	c.Step("type=%s replicas=%d steps=%d idle=%d", sh.typ, sh.nrep, sh.steps, sh.idle)
	if sig, msg := runIdle(h, sh); sig != "" {
		return c.Violation(sig, "%s", msg)
	}
	r := c.Rng
	snapAt := sh.steps/4 + r.Intn(sh.steps/2+1)
	var rBase int // R's pending length at export
	interesting := false
	contLocal, contRemote := 0, 0
	mirror := func(when string) *core.Result {
		if T == nil {
			return nil
		}
		a, b := observeAll(R, g.Keys), observeAll(T, g.Keys)
		a.pend = pendString(R.Pending()[rBase:])
		if d := diffObs(a, b); d != "" {
			return c.Violation(sh.typ+":restored-differs", "%s: the original and the instance restored from its snapshot differ: %s", when, d)
		}
		c.Count("original_vs_restored_comparisons", 1)
		return nil
	}
	reexports := 0
	// A twin of R that has NEVER exported: same identity, fed with R's calls and deliveries from
	// the start. Whatever an instance keeps between two exports (a cached encoding, a field that
	// only some paths refresh) the twin does not have, so its export is the state itself; R's
	// export must be the same at any moment. A twin is built afresh for every comparison.
	canTwin := sh.boundary == 0 && sh.clock == 0 && (sh.idle == 0 || sh.idleOn != 0)
	var script []func(x *crdt.Rep)
	record := func(f func(x *crdt.Rep)) {
		if canTwin {
			script = append(script, f)
		}
	}
	fine := canTwin && (c.Index/4)%3 != 0 // two histories in three, every type (the type is the index modulo 4)
	maxTwins := 12
	if fine {
		maxTwins = 200
	}
	twins := 0
	twinCompare := func() *core.Result {
		if !canTwin || twins >= maxTwins {
			return nil
		}
		twins++
		W := crdt.NewRepCUID(0, sh.typ, R.W.GetCUID())
		if pm := safely(func() {
			for _, f := range script {
				f(W)
			}
		}); pm != "" {
			return c.Violation(sh.typ+":panic:twin", "replaying R's calls on a fresh twin panicked: %s", pm)
		}
		mR, sR, e1 := R.W.GetMetaAndSnapshot()
		mW, sW, e2 := W.W.GetMetaAndSnapshot()
		if e1 != nil || e2 != nil {
			return c.Violation(sh.typ+":export-error", "export failed: %v / %v", e1, e2)
		}
		if a, b := canonSnapshot(sh.typ, sR), canonSnapshot(sh.typ, sW); a != b {
			return c.Violation(sh.typ+":export-lags-behind-state", "R exports %s; a twin with R's identity that received the same calls and deliveries and has never exported before exports %s", clip(a, 700), clip(b, 700))
		}
		if a, b := metaWithoutDUID(mR), metaWithoutDUID(mW); a != b { // the datatype id is drawn per instance
			return c.Violation(sh.typ+":export-meta-lags", "R exports meta %s, its never-exported twin %s", a, b)
		}
		c.Count("never_exported_twin_comparisons", 1)
		return nil
	}
	for s := 0; s < sh.steps; s++ {
		again := T != nil && s > snapAt && reexports < 4 && r.Intn(9) == 0
		if s == snapAt || again {
			meta, snap, err := R.W.GetMetaAndSnapshot()
			if err != nil {
				return c.Violation(sh.typ+":export-error", "GetMetaAndSnapshot failed: %v", err)
			}
			if again {
				// a later export of the same original: the restored instance has lived through the
				// same continuation, so the two must export the same thing NOW (an export that lags
				// behind the state - a cached encoding, a field updated on one path only - shows
				// here), and the pair under test continues from a fresh restore of this export
				reexports++
				mT, sT, eT := T.W.GetMetaAndSnapshot()
				if eT != nil {
					return c.Violation(sh.typ+":export-error", "GetMetaAndSnapshot of the restored instance failed: %v", eT)
				}
				if string(mT) != string(meta) {
					return c.Violation(sh.typ+":later-export-meta", "after the same continuation the original exports meta %s, the restored instance %s", meta, mT)
				}
				if a, b := canonSnapshot(sh.typ, snap), canonSnapshot(sh.typ, sT); a != b {
					return c.Violation(sh.typ+":later-export-snapshot", "after the same continuation the original and the restored instance export different snapshots: %s vs %s", clip(a, 700), clip(b, 700))
				}
				c.Count("later_exports_compared", 1)
			}
			c.Step("r0 export (%d bytes) and import into a fresh instance", len(snap))
			T = crdt.NewRep(0, sh.typ)
			var ierr error
			if pm := safely(func() {
				if e := T.W.SetMetaAndSnapshot(meta, snap); e != nil {
					ierr = e
				}
				T.ResetTransaction()
			}); pm != "" {
				return c.Violation(sh.typ+":import-panic", "importing an exported snapshot panicked: %s (snapshot %s)", pm, clip(string(snap), 500))
			}
			if ierr != nil {
				return c.Violation(sh.typ+":import-error", "SetMetaAndSnapshot refused an exported snapshot: %v", ierr)
			}
			T.Recvd = R.Recvd
			rBase = len(R.Pending())
			interesting = hasTombOrSuperseded(sh.typ, snap)
			// export(import(export(R))) == export(R)
			m2, s2, err := T.W.GetMetaAndSnapshot()
			if err != nil {
				return c.Violation(sh.typ+":re-export-error", "GetMetaAndSnapshot of the restored instance failed: %v", err)
			}
			if string(m2) != string(meta) {
				return c.Violation(sh.typ+":re-export-meta", "meta changes across import/export: %s vs %s", meta, m2)
			}
			if a, b := canonSnapshot(sh.typ, snap), canonSnapshot(sh.typ, s2); a != b {
				return c.Violation(sh.typ+":re-export-snapshot", "export(import(export(R))) differs from export(R): %s vs %s", clip(a, 600), clip(b, 600))
			}
			if res := mirror("right after import"); res != nil {
				return res
			}
			// the server restores an instance in its own way - import, then ResetWired (the fresh
			// instance's creation operation must never reach the log), then local calls (a REST
			// patch). What a successful local call does to the readable state must not depend on
			// which of the two ways restored the instance it is made on.
			if r.Intn(2) == 0 {
				U, S := crdt.NewRep(0, sh.typ), crdt.NewRep(0, sh.typ)
				var e1, e2 error
				if pm := safely(func() {
					if e := U.W.SetMetaAndSnapshot(meta, snap); e != nil {
						e1 = e
					}
					U.ResetTransaction()
					if e := S.W.SetMetaAndSnapshot(meta, snap); e != nil {
						e2 = e
					}
					S.W.ResetWired()
				}); pm != "" || e1 != nil || e2 != nil {
					return c.Violation(sh.typ+":import-panic", "importing an exported snapshot a second time failed: %s %v %v", pm, e1, e2)
				}
				for j := 0; j < 3; j++ {
					op := g.Op(U)
					var eu, es error
					if pm := safely(func() {
						_, eu = crdt.Apply(U.DT, op)
						if eu == nil {
							_, es = crdt.Apply(S.DT, op)
						}
					}); pm != "" {
						return c.Violation(sh.typ+":server-restore-panic", "call %s on an instance restored the server's way (import + ResetWired) panicked: %s", op, pm)
					}
					if eu != nil {
						break // a refused call says nothing here (and the server's instance has no rollback base of its own, D18)
					}
					if es != nil {
						return c.Violation(sh.typ+":server-restore-differs", "call %s succeeds on an instance restored by import + ResetTransaction and is refused on one restored by import + ResetWired: %v", op, es)
					}
					if a, b := U.View(), S.View(); a != b {
						return c.Violation(sh.typ+":server-restore-differs", "after the same successful call %s an instance restored by import + ResetTransaction reads %s, one restored by import + ResetWired (the server's way) reads %s", op, clip(a, 500), clip(b, 500))
					}
					c.Count("calls_on_server_style_restores", 1)
				}
			}
		}
		rep := h.Reps[r.Intn(len(h.Reps))]
		if T != nil && r.Intn(3) == 0 {
			rep = R // keep the continuation busy on the pair under test
		}
		k := r.Intn(20)
		switch {
		case k < 10:
			op := g.Op(rep)
			ret, err, sig, msg := h.Local(rep, op)
			if sig != "" {
				return c.Violation(sh.typ+":"+sig, "%s", msg)
			}
			if rep == R {
				record(func(x *crdt.Rep) { crdt.Apply(x.DT, op) })
			}
			if rep == R && T != nil {
				contLocal++
				ret2, err2 := crdt.Apply(T.DT, op)
				if (err == nil) != (err2 == nil) {
					return c.Violation(sh.typ+":restored-call-outcome", "call %s: original returned error=%v, restored returned error=%v", op, err, err2)
				}
				if err == nil && sh.typ != "doc" && crdt.Canon(ret) != crdt.Canon(ret2) {
					return c.Violation(sh.typ+":restored-return-value", "call %s: original returned %s, restored returned %s", op, clip(crdt.Canon(ret), 300), clip(crdt.Canon(ret2), 300))
				}
			}
		case k < 16:
			upto := rep.Recvd + r.Intn(len(h.Log.Entries)-rep.Recvd+2)
			if rep == R && fine {
				// fine-grained mode: R receives one log entry at a time and is compared with a
				// never-exported twin after each (an export that lags behind the state after ONE
				// particular kind of remote operation is caught in the act)
				if upto > len(h.Log.Entries) {
					upto = len(h.Log.Entries)
				}
				for R.Recvd < upto {
					if sig, msg := h.Sync(R, R.Recvd+1); sig != "" {
						return c.Violation(sh.typ+":"+sig, "%s", msg)
					}
					up := R.Recvd
					record(func(x *crdt.Rep) { h.Log.Deliver(x, up) })
					if T != nil {
						n, err := h.Log.Deliver(T, R.Recvd)
						if err != nil {
							return c.Violation(sh.typ+":restored-remote-apply-error", "the restored instance refused remote operations the original accepted: %v", err)
						}
						contRemote += n
					}
					if res := twinCompare(); res != nil {
						return res
					}
				}
			}
			if sig, msg := h.Sync(rep, upto); sig != "" {
				return c.Violation(sh.typ+":"+sig, "%s", msg)
			}
			if rep == R {
				up := R.Recvd
				record(func(x *crdt.Rep) { h.Log.Deliver(x, up) })
			}
			if rep == R && T != nil {
				n, err := h.Log.Deliver(T, R.Recvd)
				if err != nil {
					return c.Violation(sh.typ+":restored-remote-apply-error", "the restored instance refused remote operations the original accepted: %v", err)
				}
				contRemote += n
			}
		case k < 18:
			// failing transaction on both
			var body []crdt.Op
			for i := 0; i < 1+r.Intn(3); i++ {
				body = append(body, g.Op(rep))
			}
			c.Step("r%d failing transaction %s", rep.Idx, crdt.JS(body))
			if pm := safely(func() { runTx(rep, body, errBoom, false) }); pm != "" {
				return c.Violation(sh.typ+":panic:failing-tx", "failing transaction panicked: %s", pm)
			}
			if rep == R {
				record(func(x *crdt.Rep) { runTx(x, body, errBoom, false) })
			}
			if rep == R && T != nil {
				if pm := safely(func() { runTx(T, body, errBoom, false) }); pm != "" {
					return c.Violation(sh.typ+":panic:failing-tx-restored", "failing transaction panicked on the restored instance: %s", pm)
				}
				c.Count("failing_tx_after_restore", 1)
			}
		default:
			var body []crdt.Op
			for i := 0; i < 1+r.Intn(3); i++ {
				body = append(body, g.Op(rep))
			}
			c.Step("r%d committed transaction %s", rep.Idx, crdt.JS(body))
			if pm := safely(func() { runTx(rep, body, nil, false) }); pm != "" {
				return c.Violation(sh.typ+":panic:committed-tx", "committed transaction panicked: %s", pm)
			}
			if rep == R {
				record(func(x *crdt.Rep) { runTx(x, body, nil, false) })
			}
			if rep == R && T != nil {
				contLocal++
				if pm := safely(func() { runTx(T, body, nil, false) }); pm != "" {
					return c.Violation(sh.typ+":panic:committed-tx-restored", "committed transaction panicked on the restored instance: %s", pm)
				}
			}
		}
		if rep == R && (r.Intn(6) == 0 || (k >= 10 && k < 16 && r.Intn(2) == 0)) { // more often right after deliveries
			if res := twinCompare(); res != nil {
				return res
			}
		}
		if rep == R {
			if res := mirror("during the continuation"); res != nil {
				return res
			}
		}
	}
	if sig, msg := h.Quiesce(); sig != "" {
		return c.Violation(sh.typ+":"+sig, "%s", msg)
	}
	if T != nil {
		n, err := h.Log.Deliver(T, len(h.Log.Entries))
		if err != nil {
			return c.Violation(sh.typ+":restored-remote-apply-error", "the restored instance refused remote operations the original accepted: %v", err)
		}
		contRemote += n
		if res := mirror("at the end"); res != nil {
			return res
		}
		m1, s1, e1 := R.W.GetMetaAndSnapshot()
		m2, s2, e2 := T.W.GetMetaAndSnapshot()
		if e1 != nil || e2 != nil {
			return c.Violation(sh.typ+":export-error", "final export failed: %v / %v", e1, e2)
		}
		if string(m1) != string(m2) {
			return c.Violation(sh.typ+":final-meta", "final meta differs: %s vs %s", m1, m2)
		}
		if a, b := canonSnapshot(sh.typ, s1), canonSnapshot(sh.typ, s2); a != b {
			return c.Violation(sh.typ+":final-snapshot", "after the same continuation the two instances export different snapshots: %s vs %s", clip(a, 700), clip(b, 700))
		}
		c.Count("final_snapshot_comparisons", 1)
	}
	if sig, msg := h.CompareAll(); sig != "" {
		return c.Violation(sh.typ+":"+sig, "%s", msg)
	}
	c.Count("continuation_local_calls", int64(contLocal))
	c.Count("continuation_remote_ops", int64(contRemote))
	c.Count("histories_"+sh.typ, 1)
	if interesting && contLocal >= 3 && contRemote >= 1 {
		c.NonTrivial()
	}
	return c.Held()
}

func metaWithoutDUID(meta []byte) string {
	var m map[string]interface{}
	dec := json.NewDecoder(bytes.NewReader(meta))
	dec.UseNumber()
	if dec.Decode(&m) != nil {
		return string(meta)
	}
	delete(m, "DUID")
	return crdt.JS(m)
}
