package props

import (
	"fmt"
	"hash/fnv"
	"math/rand"

	"github.com/orda-io/orda/client/pkg/model"
	"github.com/orda-io/orda/client/pkg/types"
	"vh/core"
	"vh/crdt"
)

const (
	c15GridLamport = 1200
	c15GridDelim   = 330
	c15RandomCases = 10
)

var c15CUIDs = []string{"abcdefghijklmnop", "0123456789012345", "1_-AZaz019999999"}

func init() {
	core.Register(&core.Prop{
		ID:    "C15",
		Level: "exploration",
		Rule: fmt.Sprintf("case 0: exhaustive grid era{0,1} x lamport[0,%d] x delimiter[0,%d] x 3 client ids (one all digits, one starting with a digit): Timestamp.Hash() injective; cases 1-%d: 10^5 random tuples each (lamport < 2^62, delimiter < 2^31, 12 random client ids incl. digit-only) for Hash injectivity, and 2x10^4 random / boundary triples each for the order axioms (irreflexive, antisymmetric, transitive, total; OperationID.Compare == Timestamp.Compare); remaining cases: seeded multi-replica histories with failed calls, failing and committed transactions, batches >= 11 and clocks >= 10 under the identifier monitors (client seq 1,2,3,... without gaps; every new local operation ordered after everything applied; all element identities of the history have pairwise distinct Hash()); ",
			c15GridLamport, c15GridDelim, c15RandomCases) +
			"non-trivial = the grid / random cases always; a history if it contains >=1 failed call, >=1 batch >= 11 and a clock >= 10; distinct = hash of the case script",
		Assumptions: []string{
			"clock differences < 2^62 (serial-number wrap-around beyond that is outside any reachable history)",
			"the grid is exhaustive only for the stated bounds",
		},
		Cases:      func(t string) int { return tierN(t, 1+c15RandomCases+2000, 1+c15RandomCases+30000) },
		Floor:      func(t string) int { return tierN(t, 100, 3000) },
		Exhaustive: func(t string) bool { return false },
		Run:        runC15,
	})
}

type tuple struct {
	e uint32
	l uint64
	d uint32
	c string
}

type hashSet struct {
	m     map[uint64]tuple
	extra map[string]tuple
}

func newHashSet(n int) *hashSet {
	return &hashSet{m: make(map[uint64]tuple, n), extra: map[string]tuple{}}
}

// add returns the tuple that already produced the same Hash(), if any.
func (h *hashSet) add(t tuple) (tuple, bool) {
	s := model.NewTimestamp(t.e, t.l, t.c, t.d).Hash()
	f := fnv.New64a()
	f.Write([]byte(s))
	k := f.Sum64()
	if old, ok := h.m[k]; ok {
		if old == t {
			return old, false
		}
		if model.NewTimestamp(old.e, old.l, old.c, old.d).Hash() == s {
			return old, true
		}
		// fnv collision of different strings: exact fallback
		if o2, ok := h.extra[s]; ok && o2 != t {
			return o2, true
		}
		h.extra[s] = t
		return tuple{}, false
	}
	h.m[k] = t
	return tuple{}, false
}

func cmpSign(x int) int {
	switch {
	case x < 0:
		return -1
	case x > 0:
		return 1
	}
	return 0
}

func runC15(c *core.Case) *core.Result {
	switch {
	case c.Index == 0:
		return c15Grid(c)
	case c.Index <= c15RandomCases:
		return c15Random(c)
	}
	return c15History(c)
}

func c15Grid(c *core.Case) *core.Result {
	c.Step("exhaustive grid era{0,1} x lamport[0,%d] x delimiter[0,%d] x cuids %v", c15GridLamport, c15GridDelim, c15CUIDs)
	hs := newHashSet(2 * (c15GridLamport + 1) * (c15GridDelim + 1) * len(c15CUIDs))
	n := int64(0)
	for e := uint32(0); e <= 1; e++ {
		for l := uint64(0); l <= c15GridLamport; l++ {
			for d := uint32(0); d <= c15GridDelim; d++ {
				for _, cu := range c15CUIDs {
					t := tuple{e, l, d, cu}
					if old, dup := hs.add(t); dup {
						return c.Violation("hash-collision", "distinct identities %+v and %+v share the identity key %q", old, t, model.NewTimestamp(t.e, t.l, t.c, t.d).Hash())
					}
					n++
				}
			}
		}
	}
	c.Count("grid_keys", n)
	// the ids clients and datatypes are given (ties between equal clocks are broken by client
	// id, so two clients must never get the same one): 200 000 consecutive ids of the real
	// generator are well-formed and pairwise distinct
	seen := make(map[string]bool, 200000)
	for i := 0; i < 200000; i++ {
		id := types.NewUID()
		if !types.ValidateUID(id) {
			return c.Violation("uid-malformed", "the id generator produced %q, which its own validation rejects", id)
		}
		if seen[id] {
			return c.Violation("uid-repeated", "the id generator produced %q twice within %d consecutive ids", id, i+1)
		}
		seen[id] = true
	}
	c.Count("generated_ids_checked", 200000)
	c.NonTrivial()
	c.Fingerprint("grid")
	c.Sample(map[string]interface{}{"case": 0, "grid": fmt.Sprintf("era{0,1} x lamport[0,%d] x delimiter[0,%d] x %v", c15GridLamport, c15GridDelim, c15CUIDs), "keys": n})
	return c.Held()
}

func randCUID(r *rand.Rand) string {
	switch r.Intn(4) {
	case 0:
		b := make([]byte, 16)
		for i := range b {
			b[i] = byte('0' + r.Intn(10))
		}
		return string(b)
	}
	return crdt.SeededCUID(r)
}

func randLamport(r *rand.Rand) uint64 {
	switch r.Intn(6) {
	case 0:
		return uint64(r.Intn(20))
	case 1:
		return uint64(r.Intn(100000))
	case 2:
		b := []uint64{0, 1, 9, 10, 11, 99, 100, 101, 999, 1000, 1<<31 - 1, 1 << 31, 1<<32 - 1, 1 << 32, 1<<53 - 1, 1 << 53, 1<<62 - 1}
		return b[r.Intn(len(b))]
	}
	return uint64(r.Int63()) >> 1
}

func c15Random(c *core.Case) *core.Result {
	r := c.Rng
	c.Step("random tuples: 10^5 for Hash injectivity, 2x10^4 triples for the order axioms")
	cuids := make([]string, 12)
	for i := range cuids {
		cuids[i] = randCUID(r)
	}
	hs := newHashSet(100000)
	for i := 0; i < 100000; i++ {
		t := tuple{uint32(r.Intn(3)), randLamport(r), uint32(r.Int31()), cuids[r.Intn(len(cuids))]}
		if r.Intn(2) == 0 {
			t.d = uint32(r.Intn(2000))
		}
		if old, dup := hs.add(t); dup {
			return c.Violation("hash-collision", "distinct identities %+v and %+v share the identity key %q", old, t, model.NewTimestamp(t.e, t.l, t.c, t.d).Hash())
		}
	}
	c.Count("random_keys", 100000)
	mk := func() (*model.Timestamp, *model.OperationID) {
		e, l, cu := uint32(r.Intn(2)), randLamport(r), cuids[r.Intn(4)]
		return model.NewTimestamp(e, l, cu, uint32(r.Intn(5))), &model.OperationID{Era: e, Lamport: l, CUID: cu, Seq: uint64(r.Intn(100))}
	}
	same := func(a, b *model.Timestamp) bool { return a.Era == b.Era && a.Lamport == b.Lamport && a.CUID == b.CUID }
	for i := 0; i < 20000; i++ {
		a, ao := mk()
		b, bo := mk()
		x, xo := mk()
		_ = xo
		ab, ba := cmpSign(a.Compare(b)), cmpSign(b.Compare(a))
		if same(a, b) {
			if ab != 0 || ba != 0 {
				return c.Violation("order:reflexive", "Compare of equal timestamps %v %v = %d", a.ToString(), b.ToString(), ab)
			}
		} else {
			if ab == 0 || ba == 0 {
				return c.Violation("order:not-total", "distinct timestamps %s and %s compare equal", a.ToString(), b.ToString())
			}
			if ab != -ba {
				return c.Violation("order:not-antisymmetric", "%s vs %s: %d and %d", a.ToString(), b.ToString(), ab, ba)
			}
		}
		if cmpSign(ao.Compare(bo)) != ab {
			return c.Violation("order:opid-disagrees", "OperationID.Compare(%s,%s)=%d but Timestamp.Compare=%d", ao.ToString(), bo.ToString(), ao.Compare(bo), ab)
		}
		bx, ax := cmpSign(b.Compare(x)), cmpSign(a.Compare(x))
		if ab < 0 && bx < 0 && ax >= 0 {
			return c.Violation("order:not-transitive", "%s < %s < %s but first vs third = %d", a.ToString(), b.ToString(), x.ToString(), ax)
		}
		if ab > 0 && bx > 0 && ax <= 0 {
			return c.Violation("order:not-transitive", "%s > %s > %s but first vs third = %d", a.ToString(), b.ToString(), x.ToString(), ax)
		}
		// delimiter never takes part in the operation order
		a2 := a.Clone()
		a2.Delimiter += 7
		if cmpSign(a2.Compare(b)) != ab {
			return c.Violation("order:delimiter-sensitive", "changing the delimiter of %s changes its order against %s", a.ToString(), b.ToString())
		}
	}
	c.Count("order_triples", 20000)
	c.NonTrivial()
	c.Fingerprint(fmt.Sprintf("random-%d", c.Index))
	return c.Held()
}

func c15History(c *core.Case) *core.Result {
	maxSteps := tierN(c.Tier, 50, 120)
	sh := drawShape(c, maxSteps)
	if sh.typ == "counter" {
		sh.typ = "list" // counters have no element identities
	}
	if sh.idle == 0 {
		sh.idle = 5 + c.Rng.Intn(50)
	}
	if sh.idle > 60 {
		sh.idle = 60
	}
	g := crdt.NewGen(c.Rng)
	g.BigBatch = 0.2
	h := crdt.NewHist(c, g, sh.typ, sh.nrep)
	AttachIDMonitor(c, h)
	c.Step("type=%s replicas=%d steps=%d idle=%d", sh.typ, sh.nrep, sh.steps, sh.idle)
	if sig, msg := runIdle(h, sh); sig != "" {
		return c.Violation(sig, "%s", msg)
	}
	r := c.Rng
	failed, big := 0, 0
	for s := 0; s < sh.steps; s++ {
		rep := h.Reps[r.Intn(len(h.Reps))]
		switch k := r.Intn(20); {
		case k < 9:
			op := g.Op(rep)
			if len(op.Vals) >= 11 {
				big++
			}
			_, err, sig, msg := h.Local(rep, op)
			if sig != "" {
				return c.Violation(sh.typ+":"+sig, "%s", msg)
			}
			if err != nil {
				failed++
			}
		case k < 11:
			op := invalidFor(sh.typ, g)
			_, err, sig, msg := h.Local(rep, op)
			if sig != "" {
				return c.Violation(sh.typ+":"+sig, "%s", msg)
			}
			if err != nil {
				failed++
			}
		case k < 16:
			upto := rep.Recvd + r.Intn(len(h.Log.Entries)-rep.Recvd+2)
			if sig, msg := h.Sync(rep, upto); sig != "" {
				return c.Violation(sh.typ+":"+sig, "%s", msg)
			}
		case k < 18:
			var body []crdt.Op
			for i := 0; i < 1+r.Intn(3); i++ {
				body = append(body, g.Op(rep))
			}
			c.Step("r%d failing transaction %s", rep.Idx, crdt.JS(body))
			if pm := safely(func() { runTx(rep, body, errBoom, false) }); pm != "" {
				return c.Violation(sh.typ+":panic:failing-tx", "failing transaction panicked: %s", pm)
			}
			failed++
			if sig, msg := h.After(rep); sig != "" {
				return c.Violation(sh.typ+":"+sig, "%s", msg)
			}
		default:
			var body []crdt.Op
			for i := 0; i < 1+r.Intn(3); i++ {
				body = append(body, g.Op(rep))
			}
			c.Step("r%d committed transaction %s", rep.Idx, crdt.JS(body))
			if pm := safely(func() { runTx(rep, body, nil, false) }); pm != "" {
				return c.Violation(sh.typ+":panic:committed-tx", "committed transaction panicked: %s", pm)
			}
			if sig, msg := h.After(rep); sig != "" {
				return c.Violation(sh.typ+":"+sig, "%s", msg)
			}
		}
	}
	if sig, msg := h.Quiesce(); sig != "" {
		return c.Violation(sh.typ+":"+sig, "%s", msg)
	}
	if sig, msg := FinishIDMonitor(c, h); sig != "" {
		return c.Violation(sh.typ+":"+sig, "%s", msg)
	}
	if sig, msg := h.CompareAll(); sig != "" {
		return c.Violation(sh.typ+":"+sig, "%s", msg)
	}
	c.Count("failed_calls_and_rollbacks", int64(failed))
	c.Count("big_batches", int64(big))
	if failed >= 1 && big >= 1 && sh.idle >= 5 {
		c.NonTrivial()
	}
	return c.Held()
}
