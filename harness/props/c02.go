package props

import (
	"fmt"

	"github.com/orda-io/orda/client/pkg/model"
	"github.com/orda-io/orda/client/pkg/orda"
	"vh/core"
	"vh/crdt"
)

func init() {
	core.Register(&core.Prop{
		ID:          "C02",
		Level:       "exploration",
		CaseTimeout: 45e9, // a case of this check takes milliseconds; one that does not end is cut after 45 s
		Rule: "conflict-dense seeded histories (2 keys / short sequences, 2-4 replicas, partial deliveries) whose final state on every replica and on a log replay (the server's own copy) is compared with a reference computed from the emitted operations only (int32 sum, LWW by (lamport,cuid), RGA tree newest-first, delete dominates update); a third of the document histories first concentrate multi-value updates / deletes / inserts from all replicas on one array of primitives (overlapping update ranges); " +
			"non-trivial = the operation set contains a conflict whose winner is not the last one in arrival (log) order, or concurrent same-anchor inserts, or update/delete and update/update conflicts on one element (counter: >=2 contributing clients); distinct = hash of the step script",
		Assumptions: []string{
			"operation timestamps are taken as assigned by the clients (ids in the emitted operations)",
			"document reference derives container identities only for the root, the top node of a put value and elements of array values / batches; the generator keeps object values flat so that no live container has an underivable identity (such cases would be counted as reference_unresolvable and skipped)",
			"clock differences < 2^62 (no serial-number wrap)",
		},
		Cases: func(t string) int { return tierN(t, 4000, 80000) },
		Floor: func(t string) int { return tierN(t, 800, 15000) },
		Run:   runC02,
	})
}

// conflictStats measures how conflict-rich an operation set is.
func conflictStats(c *core.Case, ops []crdt.DOp) int {
	n := 0
	// LWW keys: last in log order is not the greatest timestamp
	type kk struct {
		p crdt.TS
		k string
	}
	last := map[kk]crdt.TS{}
	max := map[kk]crdt.TS{}
	clients := map[string]bool{}
	anchors := map[crdt.TS]map[string]bool{}
	delTargets := map[crdt.TS]bool{}
	updTargets := map[crdt.TS]map[string]bool{}
	for _, o := range ops {
		switch o.Type {
		case model.TypeOfOperation_COUNTER_INCREASE:
			clients[o.ID.C] = true
		case model.TypeOfOperation_MAP_PUT, model.TypeOfOperation_MAP_REMOVE, model.TypeOfOperation_DOC_OBJ_PUT, model.TypeOfOperation_DOC_OBJ_RMV:
			key := kk{k: o.K}
			if o.P != nil {
				key.p = *o.P
			}
			last[key] = o.ID
			if m, ok := max[key]; !ok || m.Less(o.ID) {
				max[key] = o.ID
			}
		case model.TypeOfOperation_LIST_INSERT, model.TypeOfOperation_DOC_ARR_INS:
			if len(o.T) == 1 {
				if anchors[o.T[0]] == nil {
					anchors[o.T[0]] = map[string]bool{}
				}
				anchors[o.T[0]][o.ID.C] = true
			}
		case model.TypeOfOperation_LIST_DELETE, model.TypeOfOperation_DOC_ARR_DEL:
			for _, t := range o.T {
				delTargets[t] = true
			}
		case model.TypeOfOperation_LIST_UPDATE, model.TypeOfOperation_DOC_ARR_UPD:
			for _, t := range o.T {
				if updTargets[t] == nil {
					updTargets[t] = map[string]bool{}
				}
				updTargets[t][o.ID.C] = true
			}
		}
	}
	for k, l := range last {
		if max[k] != l {
			n++
			c.Count("lww_winner_not_last_arrived", 1)
		}
	}
	for _, cl := range anchors {
		if len(cl) > 1 {
			n++
			c.Count("same_anchor_inserts_by_several_clients", 1)
		}
	}
	for t, cl := range updTargets {
		if delTargets[t] {
			n++
			c.Count("update_delete_conflicts", 1)
		}
		if len(cl) > 1 {
			n++
			c.Count("update_update_conflicts", 1)
		}
	}
	if len(clients) > 1 {
		n++
	}
	return n
}

// reference returns the canonical expected view (and size, -1 if n/a) from operations.
func reference(typ string, ops []crdt.DOp) (view string, size int, err error) {
	switch typ {
	case "counter":
		return crdt.Canon(crdt.RefCounter(ops)), -1, nil
	case "map":
		m := crdt.RefMap(ops, model.TypeOfOperation_MAP_PUT, model.TypeOfOperation_MAP_REMOVE, nil)
		return crdt.Canon(m), len(m), nil
	case "list":
		vals, _, e := crdt.RefSeq(ops, model.TypeOfOperation_LIST_INSERT, model.TypeOfOperation_LIST_DELETE, model.TypeOfOperation_LIST_UPDATE, nil, nil, nil, crdt.One)
		if e != nil {
			return "", 0, e
		}
		return crdt.Canon(struct{ List []interface{} }{vals}), len(vals), nil
	case "doc":
		m, e := crdt.RefDoc(ops)
		if e != nil {
			return "", 0, e
		}
		return crdt.Canon(m), -1, nil
	}
	return "", 0, fmt.Errorf("bad type")
}

// compareWithReference checks every replica and a log replay against the reference.
func compareWithReference(c *core.Case, h *crdt.Hist) (string, string) {
	ops, err := crdt.DecodeAll(h.Log.All())
	if err != nil {
		return "undecodable-op", err.Error()
	}
	want, wantSize, err := reference(h.Typ, ops)
	if err == crdt.ErrUnresolvable {
		c.Count("reference_unresolvable", 1)
		return "", ""
	}
	if err != nil {
		return "reference-error", "the reference model cannot interpret the emitted operations: " + err.Error()
	}
	check := func(name string, r *crdt.Rep) (string, string) {
		got := r.View()
		if h.Typ == "counter" {
			got = crdt.Canon(r.DT.(orda.Counter).Get())
		}
		if got != want {
			return "ref-mismatch", fmt.Sprintf("%s holds %s but the outcome determined by the operation timestamps is %s", name, clip(got, 700), clip(want, 700))
		}
		if wantSize >= 0 && r.Size() != wantSize {
			return "ref-size", fmt.Sprintf("%s reports Size()=%d but %d elements are present (%s)", name, r.Size(), wantSize, clip(want, 300))
		}
		return "", ""
	}
	for _, r := range h.Reps {
		if sig, msg := check(fmt.Sprintf("replica r%d", r.Idx), r); sig != "" {
			return sig, msg
		}
	}
	srv, err := h.Log.Replay(h.Typ)
	if err != nil {
		return "replay-error", "replaying the log in log order (the server's rebuild) failed: " + err.Error()
	}
	if sig, msg := check("the log replay (server's own copy)", srv); sig != "" {
		return "server-" + sig, msg
	}
	c.Count("reference_comparisons", int64(len(h.Reps)+1))
	return "", ""
}

func clip(s string, n int) string {
	if len(s) > n {
		return s[:n] + "…"
	}
	return s
}

func runC02(c *core.Case) *core.Result {
	maxSteps := tierN(c.Tier, 50, 120)
	sh := drawShape(c, maxSteps)
	g := crdt.NewGen(c.Rng)
	g.Keys = 2
	g.Shallow = true
	h := crdt.NewHist(c, g, sh.typ, sh.nrep)
	c.Step("type=%s replicas=%d steps=%d idle=%d", sh.typ, sh.nrep, sh.steps, sh.idle)
	if sig, msg := runIdle(h, sh); sig != "" {
		return c.Violation(sig, "%s", msg)
	}
	q := 3 // no intermediate forced quiescence: keep conflicts alive
	if sh.typ == "doc" && c.Index%3 == 0 {
		// array-focused document history: one array of primitives under key "a", known to every
		// replica, then dense multi-value updates / deletes / inserts on it from all replicas
		// (overlapping update ranges, updates of elements another replica deletes meanwhile)
		var init []interface{}
		for i := 0; i < 6; i++ {
			init = append(init, g.Tag())
		}
		if _, err := crdt.Apply(h.Reps[0].DT, crdt.Op{Kind: "put", Key: "a", Val: init}); err != nil {
			return c.Violation("doc:setup", "cannot create the array: %v", err)
		}
		if sig, msg := h.Quiesce(); sig != "" {
			return c.Violation("doc:"+sig, "%s", msg)
		}
		g.Tagged = true
		g.UpdBias = 0.5
		if sig, msg := arrayPhase(c, h, sh.steps); sig != "" {
			return c.Violation("doc:"+sig, "%s", msg)
		}
		c.Count("array_focused_document_histories", 1)
	}
	if sig, msg := randomPhase(c, h, sh.steps, &q); sig != "" {
		return c.Violation(sh.typ+":"+sig, "%s", msg)
	}
	if sig, msg := h.Quiesce(); sig != "" {
		return c.Violation(sh.typ+":"+sig, "%s", msg)
	}
	if sig, msg := compareWithReference(c, h); sig != "" {
		return c.Violation(sh.typ+":"+sig, "%s", msg)
	}
	if c.Rng.Intn(2) == 0 {
		// equal-clock burst at this quiescent point: one operation per replica at the same place
		ops := g.Burst(h.Reps)
		c.Step("burst at equal clocks: %s", crdt.JS(ops))
		for i, op := range ops {
			if _, _, sig, msg := h.Local(h.Reps[i], op); sig != "" {
				return c.Violation(sh.typ+":"+sig, "%s", msg)
			}
		}
		c.Count("equal_clock_bursts", 1)
	}
	// continue and compare again
	if sig, msg := randomPhase(c, h, sh.steps/3, &q); sig != "" {
		return c.Violation(sh.typ+":"+sig, "%s", msg)
	}
	if sig, msg := h.Quiesce(); sig != "" {
		return c.Violation(sh.typ+":"+sig, "%s", msg)
	}
	if sig, msg := compareWithReference(c, h); sig != "" {
		return c.Violation(sh.typ+":"+sig+"-after-continuation", "%s", msg)
	}
	ops, _ := crdt.DecodeAll(h.Log.All())
	if conflictStats(c, ops) > 0 {
		c.NonTrivial()
	}
	c.Count("histories_"+sh.typ, 1)
	return c.Held()
}

// arrayPhase: local sequence calls on the document's array "a" from random replicas,
// interleaved with syncs and deliveries.
func arrayPhase(c *core.Case, h *crdt.Hist, steps int) (string, string) {
	r := c.Rng
	for s := 0; s < steps; s++ {
		rep := h.Reps[r.Intn(len(h.Reps))]
		switch k := r.Intn(10); {
		case k < 6:
			ch, err := rep.DT.(orda.Document).GetFromObject("a")
			if err != nil || ch == nil {
				continue
			}
			arr, _ := ch.GetValue().([]interface{})
			op := h.G.SeqOp(len(arr), []interface{}{"a"})
			if _, _, sig, msg := h.Local(rep, op); sig != "" {
				return sig, msg
			}
		case k < 9:
			upto := rep.Recvd + r.Intn(len(h.Log.Entries)-rep.Recvd+2)
			if sig, msg := h.Sync(rep, upto); sig != "" {
				return sig, msg
			}
		default:
			upto := rep.Recvd + r.Intn(len(h.Log.Entries)-rep.Recvd+1)
			if sig, msg := h.DeliverOnly(rep, upto); sig != "" {
				return sig, msg
			}
		}
	}
	return "", ""
}
