package props

// C08, process cases: the same scripted scenario as the in-process enumeration, but the server
// is the repository's own binary running as a child process behind the grpc front, the
// clients are SDK clients calling Client.Sync() over real grpc, and "the server dies" is a
// SIGKILL delivered when the stand-in sees database command k (before executing it, or after
// executing it with the reply lost). A new process is started on the same store and every
// client retries.

import (
	"fmt"
	"path/filepath"
	"sync"
	"time"

	"github.com/orda-io/orda/client/pkg/model"
	"vh/bed"
	"vh/core"
	"vh/crdt"
	"vh/fakemongo"
)

var c08ProcKinds = []string{"kill-before", "kill-after"}

const c08ProcMaxCommands = 150

// c08ProcVariants: indexes into c08Variants used for process cases.
func c08ProcVariants(tier string) []int {
	if tier == "thorough" {
		return []int{0, 5}
	}
	return []int{2}
}

// c08ProcStride: the quick tier samples every n-th command index.
func c08ProcStride(tier string) int {
	if tier == "thorough" {
		return 1
	}
	return 12
}

func c08ProcCases(tier string) int {
	return len(c08ProcVariants(tier)) * (c08ProcMaxCommands / c08ProcStride(tier)) * len(c08ProcKinds)
}

var (
	c08ProcProfMu sync.Mutex
	c08ProcProf   = map[int]int{}
)

type c08procRun struct {
	w        *svcWorld
	dts      []*bed.DT
	acked    map[int]uint64
	faultHit *fakemongo.Cmd
	ncmd     int
	outcomes []string
	proc     *bed.Proc
	crashed  string
}

// dbQuiet waits until the child's database traffic has stopped: no command in progress and no
// new command over a short window (the child's background goroutines are not visible to the
// parent's hook counters).
func dbQuiet(b *bed.Bed, watchdog time.Duration) bool {
	deadline := time.Now().Add(watchdog)
	last, since := -1, time.Now()
	for time.Now().Before(deadline) {
		n := b.DB.LogLen()
		if n != last || b.DB.OpenCommands() != 0 || b.MQ.Unread() != 0 || b.MQ.Queued() != 0 {
			last, since = n, time.Now()
		} else if time.Since(since) > 30*time.Millisecond {
			return true
		}
		time.Sleep(2 * time.Millisecond)
	}
	return false
}

func c08ProcExecute(c *core.Case, variant, k int, kind string, log bool) (*c08procRun, string, string) {
	v := c08Variants[variant]
	w, err := newSvcWorld(c, "colA")
	if err != nil {
		return nil, "INCONCLUSIVE", "test bed did not start: " + err.Error()
	}
	w.b.Taint()
	run := &c08procRun{w: w, acked: map[int]uint64{}, dts: make([]*bed.DT, 4)}
	work := filepath.Join(core.OutDir, "work", fmt.Sprintf("c08proc-%d", c.Index))
	proc, err := w.b.StartProc(work, 0, 0)
	if err != nil {
		return run, "INCONCLUSIVE", "child server did not start: " + err.Error()
	}
	run.proc = proc
	var pmu sync.Mutex
	cur := proc
	front, err := w.b.Front()
	if err != nil {
		return run, "INCONCLUSIVE", "grpc front: " + err.Error()
	}
	front.SetBackend(func() model.OrdaServiceClient {
		pmu.Lock()
		defer pmu.Unlock()
		return cur.Client()
	})
	if err := w.useSDK(); err != nil {
		return run, "INCONCLUSIVE", err.Error()
	}
	for i := 0; i < 4; i++ {
		cl, err := w.b.NewSDKBedClient("colA", fmt.Sprintf("c%d", i))
		if err != nil {
			return run, "INCONCLUSIVE", "SDK client Connect: " + err.Error()
		}
		w.cls = append(w.cls, cl)
	}
	var mu sync.Mutex
	n := 0
	needRestart := false
	w.b.DB.SetPlan(func(cmd *fakemongo.Cmd) fakemongo.Action {
		mu.Lock()
		defer mu.Unlock()
		n++
		if k > 0 && n == k {
			cp := *cmd
			run.faultHit = &cp
			needRestart = true
			kill := func() {
				pmu.Lock()
				p := cur
				pmu.Unlock()
				go p.Kill()
			}
			if kind == "kill-before" {
				kill()
				return fakemongo.Action{Sever: true}
			}
			return fakemongo.Action{SeverAfter: true, OnReached: kill}
		}
		return fakemongo.Action{}
	})
	checkCrash := func() (string, string) {
		pmu.Lock()
		p := cur
		pmu.Unlock()
		if exited, byHarness := p.Exited(); exited && !byHarness {
			return "server-process-died", fmt.Sprintf("the server process ended by itself (%s): %s", p.ExitDescription(), p.LogTail(2500))
		}
		return "", ""
	}
	restartIfNeeded := func() (string, string) {
		mu.Lock()
		nr := needRestart
		needRestart = false
		mu.Unlock()
		if !nr {
			return checkCrash()
		}
		pmu.Lock()
		old := cur
		pmu.Unlock()
		old.Kill() // idempotent: make sure it is gone before its ports are reused
		if log {
			c.Step("server process %s was killed; starting a new one on the same store", old.App)
		}
		w.b.DB.KillIncarnation(old.App)
		np, err := w.b.StartProc(work, old.RPCPort, old.RESTPort)
		if err != nil {
			if bed.Environmental(err) {
				return "INCONCLUSIVE", "the new server process did not start for a reason of time or transport: " + err.Error()
			}
			return "restart-failed", "a new server process cannot start on the store left by the kill: " + err.Error()
		}
		pmu.Lock()
		cur = np
		run.proc = np
		pmu.Unlock()
		return "", ""
	}
	defer func() {
		pmu.Lock()
		p := cur
		pmu.Unlock()
		p.Kill()
		front.SetBackend(nil)
	}()
	g := w.g
	for si, st := range v.script {
		cl := w.cls[st.cli]
		switch st.kind {
		case "open":
			mode := bed.Subscribe
			if st.cli == 0 || st.cli == 3 {
				mode = bed.Create
			}
			if v.soc && st.cli < 3 {
				mode = bed.SubscribeOrCreate
			}
			run.dts[st.cli] = cl.Open("k", v.typ, mode)
		case "op", "tx":
			d := run.dts[st.cli]
			if d == nil || d.DT.GetState() != model.StateOfDatatype_SUBSCRIBED {
				continue
			}
			if st.kind == "tx" {
				var body []crdt.Op
				for j := 0; j < st.n; j++ {
					body = append(body, g.Op(wrapRep(d)))
				}
				runTx(wrapRep(d), body, nil, false)
			} else {
				for j := 0; j < st.n; j++ {
					crdt.Apply(d.DT, g.Op(wrapRep(d)))
				}
			}
		case "sync":
			if run.dts[st.cli] == nil {
				continue
			}
			w.b.DB.SetWindow(fmt.Sprintf("step%d:%s", si, cl.Alias))
			errsBefore := w.errPacks + w.rpcErrs
			_, sig, msg := w.sync(cl)
			if sig != "" {
				return run, sig, msg
			}
			out := "ok"
			if w.errPacks+w.rpcErrs > errsBefore {
				out = "error"
			}
			run.outcomes = append(run.outcomes, fmt.Sprintf("step%d:%s=%s", si, cl.Alias, out))
			if !dbQuiet(w.b, 10*time.Second) {
				return run, "INCONCLUSIVE", "the child's database traffic did not stop"
			}
			if out == "ok" {
				p := run.dts[st.cli].W.CreatePushPullPack()
				run.acked[st.cli] = p.CheckPoint.Cseq - uint64(len(p.Operations))
			}
			if sig, msg := restartIfNeeded(); sig != "" {
				return run, sig, msg
			}
		}
	}
	mu.Lock()
	run.ncmd = n
	mu.Unlock()
	w.b.DB.SetPlan(nil)
	return run, "", ""
}

func runC08Proc(c *core.Case, pi int) *core.Result {
	kinds := len(c08ProcKinds)
	stride := c08ProcStride(c.Tier)
	per := c08ProcMaxCommands / stride
	kind := c08ProcKinds[pi%kinds]
	pi /= kinds
	k := (pi%per)*stride + 1 + (c.Index % stride)
	variant := c08ProcVariants(c.Tier)[pi/per]
	seed := int64(1000 + variant)
	c.Fingerprint(fmt.Sprintf("proc/v%d/k%d/%s", variant, k, kind))
	c08ProcProfMu.Lock()
	ncmd, have := c08ProcProf[variant]
	c08ProcProfMu.Unlock()
	if !have {
		c.Rng.Seed(seed)
		ref, sig, msg := c08ProcExecute(c, variant, 0, "", false)
		if ref != nil {
			defer ref.w.close()
		}
		if sig != "" {
			return verdict(c, "proc:fault-free:", sig, msg)
		}
		ncmd = ref.ncmd
		c08ProcProfMu.Lock()
		c08ProcProf[variant] = ncmd
		c08ProcProfMu.Unlock()
	}
	if k > ncmd {
		c.Count("proc_skipped_beyond_profile", 1)
		return c.Held()
	}
	c.Rng.Seed(seed)
	c.Step("process case: variant=%d type=%s soc=%v %s at data command %d of about %d", variant, c08Variants[variant].typ, c08Variants[variant].soc, kind, k, ncmd)
	run, sig, msg := c08ProcExecute(c, variant, k, kind, true)
	if run != nil && run.w != nil {
		defer run.w.close()
	}
	where := "proc:"
	if run != nil && run.faultHit != nil {
		c.Step("kill hit: %s (window %s)", run.faultHit.Key(), run.faultHit.Window)
		where = fmt.Sprintf("proc:%s at %q: ", kind, run.faultHit.Key())
	}
	if sig != "" {
		return verdict(c, where, sig, msg)
	}
	if run.faultHit == nil {
		c.Count("proc_fault_not_reached", 1)
		return c.Held()
	}
	w := run.w
	c.Count("proc_"+kind, 1)
	c.Count("proc_kill_at_"+run.faultHit.Name+"_"+run.faultHit.Coll, 1)
	// recovery on the new process: all clients retry (the refused duplicate creator separately)
	dup := w.cls[3]
	w.cls = w.cls[:3]
	errsBefore := w.errPacks + w.rpcErrs
	ok, sig, msg := w.settle(6)
	if sig != "" {
		return verdict(c, where, sig, msg)
	}
	_ = errsBefore
	if run.dts[3] != nil {
		if _, sig, msg := w.sync(dup); sig != "" {
			return verdict(c, where, sig, msg)
		}
	}
	w.cls = append(w.cls, dup)
	if !dbQuiet(w.b, 10*time.Second) {
		return c.Inconclusive("the child's database traffic did not stop")
	}
	if exited, byHarness := run.proc.Exited(); exited && !byHarness {
		return c.Violation(where+"server-process-died", "the restarted server process ended by itself (%s): %s", run.proc.ExitDescription(), run.proc.LogTail(2500))
	}
	if !ok {
		return c.Violation(where+"no-recovery", "after the server process was killed (%s, outcomes %v) and restarted, six rounds of retries by all clients do not reach quiescence", run.faultHit.Key(), run.outcomes)
	}
	if sig, msg := w.b.CheckLog(w.ledger, ""); sig != "" {
		return c.Violation(where+sig, "after recovery: %s", msg)
	}
	dd := w.b.Datatype(w.colNum, "k")
	if dd == nil {
		return c.Violation(where+"datatype-lost", "the datatype document is gone after recovery")
	}
	ndocs := 0
	for _, x := range w.b.Datatypes() {
		if x.Key == "k" && x.CollectionNum == w.colNum {
			ndocs++
		}
	}
	if ndocs != 1 {
		return c.Violation(where+"several-datatype-docs", "after recovery %d datatype documents are stored for key \"k\"", ndocs)
	}
	ops := w.b.Ops(dd.DUID)
	for ci, acked := range run.acked {
		if run.dts[ci] == nil {
			continue
		}
		max := uint64(0)
		for _, o := range ops {
			if o.OpID.CUID == run.dts[ci].W.GetCUID() && o.OpID.Seq > max {
				max = o.OpID.Seq
			}
		}
		if max < acked {
			return c.Violation(where+"acknowledged-op-lost", "client c%d had applied the acknowledgement of its operations up to seq %d, only up to %d are stored", ci, acked, max)
		}
	}
	if sig, msg := w.finalAgreement(); sig != "" {
		return c.Violation(where+sig, "%s", msg)
	}
	for ci, d := range run.dts {
		if ci == 3 || d == nil {
			continue
		}
		if d.DT.GetState() != model.StateOfDatatype_SUBSCRIBED {
			return c.Violation(where+"client-not-recovered", "client c%d is not subscribed after recovery (state %v)", ci, d.DT.GetState())
		}
		issued := d.W.CreatePushPullPack().CheckPoint.Cseq
		stored := uint64(0)
		for _, o := range ops {
			if o.OpID.CUID == d.W.GetCUID() {
				stored++
			}
		}
		if issued != stored {
			return c.Violation(where+"issued-vs-stored", "client c%d issued operations up to seq %d, %d of its operations are stored", ci, issued, stored)
		}
	}
	if isWrite(run.faultHit.Name) {
		c.NonTrivial()
	}
	return c.Held()
}
