package props

import (
	"fmt"
	"sync"

	"github.com/orda-io/orda/client/pkg/model"
	"vh/bed"
	"vh/core"
	"vh/crdt"
	"vh/fakemongo"
)

func init() {
	core.Register(&core.Prop{
		ID:      "C05",
		Level:   "exploration",
		Workers: 16,
		Rule: "seeded scenarios over the real service (direct mode): 1-6 MANUALLY clients, 1-3 datatypes out of a pool of keys and types, entry modes create / subscribe / subscribe-or-create, steps {open a datatype (late join), local operation, now and then a long offline burst of 60-140 operations and transactions before the next sync - one burst in five of more than a thousand operations with units of up to 25 (whatever the SDK does with a large pending list, units stay whole and nothing is lost), committed or aborted user transaction (an abort rolls the datatype back to its recorded base and replays), Sync of one client with all its datatypes in one message}; monitors: checkpoint monotonicity after every ApplyPushPullPack, store invariants (C06) after every request, at the end every client syncs to quiescence, then all subscribed clients of a key must equal each other, snapshot.Manager.GetLatestDatatype() and a replay of the stored log; the remote-operation handlers' records give exactly-once / log order / never-own; every fourth scenario runs through the SDK's own Client.Sync() over real grpc with several datatypes per message and shuffled response packs, every second of those with responses lost on the way back (the request was served, Sync() returns an RPC error); in a quarter of the scenarios (direct and SDK) database reads inside push-pull handlers fail now and then, so that single packs are aborted by the server while the rest of the message is served; " +
			"non-trivial = at least two clients pushed to the same datatype between two syncs of a third client; distinct = hash of the step script",
		Assumptions: []string{
			"MongoDB and the MQTT broker are the in-memory stand-ins (fakemongo, fakemqtt): faithful for the command subset orda issues",
			"error packs / RPC errors are legal outcomes the script reacts to by retrying later; they are counted, not judged, here",
			"operations issued on a datatype before it is SUBSCRIBED are void if the server answers with a subscribe (the SDK discards them by design)",
		},
		Trusted: []string{"fakemongo", "fakemqtt", "harness transport (direct mode)", "monitors in /verif/harness"},
		Cases:   func(t string) int { return tierN(t, 1200, 8000) },
		Floor:   func(t string) int { return tierN(t, 160, 1000) },
		Run:     runC05,
	})
}

// svcScenario builds clients / keys and runs the random steps shared by C05 and C06.
type svcScenario struct {
	w        *svcWorld
	opened   map[[2]int]*bed.DT // (client, key index)
	creator  map[int]int        // key index -> client index that creates
	pushers  map[string]map[string]bool
	nt       bool
	afterReq func() (string, string)
}

func (s *svcScenario) open(ci, ki int) *bed.DT {
	w := s.w
	cl := w.cls[ci]
	k := w.keys[ki]
	mode := bed.Subscribe
	if s.creator[ki] == ci {
		mode = bed.Create
	}
	if w.c.Rng.Intn(2) == 0 {
		mode = bed.SubscribeOrCreate
	}
	w.c.Step("%s open %s %s as %s", cl.Alias, k.typ, k.key, mode)
	d := cl.Open(k.key, k.typ, mode)
	if d == nil {
		return nil
	}
	if len(cl.DTs) == 1 && !cl.SDK {
		if err := cl.Register(); err != nil {
			w.c.Step("register failed: %v", err)
		}
	}
	s.opened[[2]int{ci, ki}] = d
	return d
}

func (s *svcScenario) step() (string, string) {
	w := s.w
	r := w.c.Rng
	ci := r.Intn(len(w.cls))
	cl := w.cls[ci]
	switch k := r.Intn(10); {
	case k < 2 || len(cl.DTs) == 0:
		ki := r.Intn(len(w.keys))
		if s.opened[[2]int{ci, ki}] == nil {
			s.open(ci, ki)
		}
	case k < 6:
		d := cl.DTs[r.Intn(len(cl.DTs))]
		w.localOp(d)
		if r.Intn(40) == 0 && d.DT.GetState() == model.StateOfDatatype_SUBSCRIBED {
			// a long offline burst: 60-140 operations with transactions in between accumulate
			// before the next sync (whatever the client does with a large pending list - one
			// message or several - units stay whole and nothing is lost)
			n := 60 + r.Intn(80)
			unit := 4
			if r.Intn(5) == 0 {
				// a very long offline period: more than a thousand pending operations with long
				// units among them (beyond any buffer size the SDK may have been given)
				n = 1030 + r.Intn(120)
				unit = 24
				w.c.Count("very_long_bursts", 1)
			}
			w.c.Step("%s/%s burst of %d local operations and transactions", cl.Alias, d.Key, n)
			for i := 0; i < n; i++ {
				if i%16 == 15 {
					var body []crdt.Op
					for j := 0; j < 2+r.Intn(unit); j++ {
						body = append(body, w.g.Op(wrapRep(d)))
					}
					runTx(wrapRep(d), body, nil, false)
					continue
				}
				crdt.Apply(d.DT, w.g.Op(wrapRep(d)))
			}
			w.c.Count("long_bursts", 1)
		}
		if r.Intn(6) == 0 {
			var body []crdt.Op
			for i := 0; i < 1+r.Intn(3); i++ {
				body = append(body, w.g.Op(wrapRep(d)))
			}
			var fail error
			if r.Intn(2) == 0 {
				fail = errBoom // aborted: the datatype rolls back (restore from its own export + replay)
			}
			w.c.Step("%s/%s transaction %s aborted=%v", cl.Alias, d.Key, crdt.JS(body), fail != nil)
			runTx(wrapRep(d), body, fail, false)
		}
	default:
		// which datatypes push in this request
		for _, d := range cl.DTs {
			if d.DT.GetState() == model.StateOfDatatype_SUBSCRIBED && len(d.W.CreatePushPullPack().Operations) > 0 {
				if s.pushers[d.Key] == nil {
					s.pushers[d.Key] = map[string]bool{}
				}
				s.pushers[d.Key][cl.Alias] = true
			}
		}
		// a third client syncing after >= 2 others pushed to the same datatype
		for _, d := range cl.DTs {
			n := 0
			for a := range s.pushers[d.Key] {
				if a != cl.Alias {
					n++
				}
			}
			if n >= 2 {
				s.nt = true
				delete(s.pushers, d.Key)
			}
		}
		if !cl.SDK && cl.Model != nil && r.Intn(12) == 0 {
			// the client registers again before this sync (a reconnect: its ClientMessage reaches
			// the server a second time); nothing about its datatypes may change through that
			w.c.Step("%s registers again", cl.Alias)
			if err := cl.Register(); err != nil {
				// the statement says nothing about registering again; what it does say (clients
				// converge) is judged below whatever the server answered here
				w.c.Count("re_registrations_refused", 1)
			} else {
				w.c.Count("re_registrations", 1)
			}
		}
		if _, sig, msg := w.sync(cl); sig != "" {
			return sig, msg
		}
		if !w.idle() {
			return "INCONCLUSIVE", "server side did not become idle"
		}
		if s.afterReq != nil {
			if sig, msg := s.afterReq(); sig != "" {
				return sig, msg
			}
		}
	}
	return "", ""
}

func newSvcScenario(c *core.Case, maxCli int, sdk bool) (*svcScenario, error) {
	w, err := newSvcWorld(c, "colA")
	if err != nil {
		return nil, err
	}
	r := c.Rng
	ncli := 2 + r.Intn(maxCli-1)
	if r.Intn(10) == 0 {
		ncli = 1
	}
	if sdk {
		if err := w.useSDK(); err != nil {
			w.close()
			return nil, err
		}
		if ncli > 4 {
			ncli = 4
		}
	}
	for i := 0; i < ncli; i++ {
		if sdk {
			cl, err := w.b.NewSDKBedClient("colA", fmt.Sprintf("c%d", i))
			if err != nil {
				w.close()
				return nil, fmt.Errorf("SDK client Connect: %v", err)
			}
			w.cls = append(w.cls, cl)
			continue
		}
		w.cls = append(w.cls, w.b.NewClient("colA", fmt.Sprintf("c%d", i)))
	}
	nkeys := 1 + r.Intn(3)
	if sdk {
		nkeys = 2 + r.Intn(2) // several datatypes per message is the point of this mode
	}
	for i := 0; i < nkeys; i++ {
		w.keys = append(w.keys, svcKey{fmt.Sprintf("key%d", i), crdt.Types[r.Intn(4)]})
	}
	s := &svcScenario{w: w, opened: map[[2]int]*bed.DT{}, creator: map[int]int{}, pushers: map[string]map[string]bool{}}
	for ki := range w.keys {
		s.creator[ki] = r.Intn(ncli)
	}
	c.Step("clients=%d keys=%v sdk=%v", ncli, w.keys, sdk)
	return s, nil
}

func verdict(c *core.Case, prefix, sig, msg string) *core.Result {
	if sig == "INCONCLUSIVE" {
		return c.Inconclusive("%s", msg)
	}
	return c.Violation(prefix+sig, "%s", msg)
}

func runC05(c *core.Case) *core.Result {
	sdk := c.Index%4 == 3
	s, err := newSvcScenario(c, 6, sdk)
	if err != nil {
		return c.Inconclusive("test bed did not start: %v", err)
	}
	w := s.w
	defer w.close()
	s.afterReq = func() (string, string) { return w.b.CheckLog(w.ledger, "") }
	steps := tierN(c.Tier, 40, 80)
	if sdk && c.Index%8 == 7 {
		// every second SDK scenario loses responses on their way back (the request was served,
		// Client.Sync() returns an RPC error): the SDK must stay usable and retry correctly
		if front, err := w.b.Front(); err == nil {
			lossRng := newRand(c.Rng.Int63())
			var lmu sync.Mutex
			front.SetFaults(func(req *model.PushPullMessage) bool {
				lmu.Lock()
				defer lmu.Unlock()
				if lossRng.Intn(7) == 0 {
					c.Count("sdk_responses_lost", 1)
					return true
				}
				return false
			}, nil)
			defer front.SetFaults(nil, nil)
		}
	}
	if c.Index%4 == 1 || c.Index%8 == 3 {
		// server-side aborts: now and then a database read inside a push-pull handler fails, so
		// that ONE pack of a message is answered with an error pack (nothing of it is stored)
		// while the other packs of the message are served; the client must offer the same
		// operations again later
		abortRng := newRand(c.Rng.Int63())
		var amu sync.Mutex
		w.b.DB.SetPlan(func(cmd *fakemongo.Cmd) fakemongo.Action {
			if cmd.Name != "find" || (cmd.Coll != "-_-Datatypes" && cmd.Coll != "-_-Operations") {
				return fakemongo.Action{}
			}
			amu.Lock()
			defer amu.Unlock()
			if abortRng.Intn(25) == 0 {
				c.Count("handler_reads_failed", 1)
				return fakemongo.Action{Fail: true}
			}
			return fakemongo.Action{}
		})
		defer w.b.DB.SetPlan(nil)
	}
	for i := 0; i < steps; i++ {
		if sig, msg := s.step(); sig != "" {
			return verdict(c, "", sig, msg)
		}
	}
	w.b.DB.SetPlan(nil)
	if sdk {
		if front, err := w.b.Front(); err == nil {
			front.SetFaults(nil, nil)
		}
	}
	errsBeforeSettle := w.errPacks + w.rpcErrs
	// make sure every planned creator exists so that subscribers can complete
	ok, sig, msg := w.settle(8)
	if sig != "" {
		return verdict(c, "", sig, msg)
	}
	if !ok {
		// not settled: legal only if error replies kept some client from progressing
		c.Count("not_settled", 1)
		if w.errPacks+w.rpcErrs == errsBeforeSettle {
			return c.Violation("no-quiescence", "after 8 fault-free rounds of syncing every client something is still left to push or pull although the server answered none of those syncs with an error")
		}
		return c.Held()
	}
	if sig, msg := w.b.CheckLog(w.ledger, ""); sig != "" {
		return c.Violation(sig, "%s", msg)
	}
	if sig, msg := w.entriesCompleted(); sig != "" {
		return c.Violation(sig, "%s", msg)
	}
	if sig, msg := w.finalAgreement(); sig != "" {
		return c.Violation(sig, "%s", msg)
	}
	if sig, msg := w.exactlyOnce(); sig != "" {
		return c.Violation(sig, "%s", msg)
	}
	c.Count("subscribed_datatypes", int64(len(w.subscribedDTs())))
	if s.nt {
		c.NonTrivial()
	}
	return c.Held()
}
