package props

import (
	"errors"
	"fmt"
	"sort"
	"strconv"

	"github.com/orda-io/orda/client/pkg/orda"
	"vh/core"
	"vh/crdt"
)

func init() {
	core.Register(&core.Prop{
		ID:          "C03",
		Level:       "exploration",
		CaseTimeout: 45e9, // a case of this check takes milliseconds; one that does not end is cut after 45 s
		Rule: "one replica driven in lock-step with the plain structure (int32, map, slice, JSON tree): seeded sequences of valid calls, invalid calls (index -1/size/size+1, count 0/over-range, empty key, nil value top-level / in a batch / nested, typed nil pointer, wrong container kind, call on an element, call on a deleted or replaced child document, remove of a missing key), reads, committed and aborted transactions (an aborted one must leave the plain view, the reads and the pending operations exactly as before); after every call: error-ness per the outcome table, return value, ToJSON, Size, reads, number of pending operations; panics are caught and reported with the call; " +
			"non-trivial = the sequence contains an invalid call followed by a valid one, or reaches >=5 distinct API methods; distinct = hash of the call script",
		Assumptions: []string{
			"return values are compared where the plain structure defines them (counter: new value; map put/remove: previous value; list delete/update: previous values; all getters)",
			"calls the statement does not classify (removing a missing key, inserting zero values, empty key in a document object) may return an error or be a silent no-op; any other state change is a violation",
		},
		Cases: func(t string) int { return tierN(t, 6000, 120000) },
		Floor: func(t string) int { return tierN(t, 1500, 30000) },
		Run:   runC03,
	})
}

// safely runs f and converts a panic into a string.
func safely(f func()) (panicked string) {
	defer func() {
		if r := recover(); r != nil {
			panicked = fmt.Sprint(r)
		}
	}()
	f()
	return ""
}

type c03 struct {
	c      *core.Case
	g      *crdt.Gen
	rep    *crdt.Rep
	p      *crdt.Plain
	h      *crdt.Hist
	npend  int
	meth   map[string]bool
	sawBad bool
	nt     bool
	stale  []staleHandle
}

type staleHandle struct {
	doc  orda.Document
	kind orda.TypeOfJSON
	how  string
}

func modelContainers(v interface{}, path []interface{}, out *[][]interface{}, depth int) {
	switch x := v.(type) {
	case map[string]interface{}:
		*out = append(*out, append([]interface{}{}, path...))
		if depth < 3 {
			for _, k := range crdt.SortedKeys(x) {
				modelContainers(x[k], append(path, k), out, depth+1)
			}
		}
	case []interface{}:
		*out = append(*out, append([]interface{}{}, path...))
		if depth < 3 {
			for i := range x {
				modelContainers(x[i], append(path, i), out, depth+1)
			}
		}
	}
}

func modelElements(v interface{}, path []interface{}, out *[][]interface{}, depth int) {
	switch x := v.(type) {
	case map[string]interface{}:
		for _, k := range crdt.SortedKeys(x) {
			modelElements(x[k], append(path, k), out, depth+1)
		}
	case []interface{}:
		for i := range x {
			modelElements(x[i], append(path, i), out, depth+1)
		}
	default:
		if len(path) > 0 {
			*out = append(*out, append([]interface{}{}, path...))
		}
	}
}

func (s *c03) val() interface{} {
	if s.p.Typ == "doc" {
		return s.g.Val(1)
	}
	return s.g.Prim()
}

func (s *c03) seqValid(n int, path []interface{}) crdt.Op {
	r := s.c.Rng
	k := r.Intn(6)
	if n == 0 || k <= 2 {
		cnt := 1 + r.Intn(3)
		if r.Intn(10) == 0 {
			cnt = 11 + r.Intn(3)
		}
		var vs []interface{}
		for i := 0; i < cnt; i++ {
			vs = append(vs, s.val())
		}
		pos := r.Intn(n + 1)
		switch r.Intn(4) {
		case 0:
			pos = 0
		case 1:
			pos = n
		}
		return crdt.Op{Kind: "ins", Path: path, Pos: pos, Vals: vs}
	}
	p := r.Intn(n)
	cnt := 1 + r.Intn(minInt(3, n-p))
	switch k {
	case 3:
		return crdt.Op{Kind: "del", Path: path, Pos: p, N: cnt}
	case 4:
		return crdt.Op{Kind: "del1", Path: path, Pos: p}
	}
	var vs []interface{}
	for i := 0; i < cnt; i++ {
		vs = append(vs, s.val())
	}
	return crdt.Op{Kind: "upd", Path: path, Pos: p, Vals: vs}
}

func minInt(a, b int) int {
	if a < b {
		return a
	}
	return b
}

func (s *c03) validOp() crdt.Op {
	r := s.c.Rng
	switch s.p.Typ {
	case "counter":
		return s.g.Op(s.rep)
	case "map":
		if r.Intn(3) == 0 {
			return crdt.Op{Kind: "rm", Key: "k" + strconv.Itoa(r.Intn(4))}
		}
		return crdt.Op{Kind: "put", Key: "k" + strconv.Itoa(r.Intn(4)), Val: s.g.Prim()}
	case "list":
		return s.seqValid(len(s.p.L), nil)
	}
	var conts [][]interface{}
	modelContainers(s.p.D, nil, &conts, 0)
	path := conts[r.Intn(len(conts))]
	if r.Intn(3) == 0 {
		path = nil
	}
	node, _ := s.p.Node(path)
	switch x := node.(type) {
	case map[string]interface{}:
		if r.Intn(4) == 0 {
			return crdt.Op{Kind: "rm", Path: path, Key: "k" + strconv.Itoa(r.Intn(4))}
		}
		key := "k" + strconv.Itoa(r.Intn(4))
		if r.Intn(12) == 0 {
			key = s.g.Str()
		}
		return crdt.Op{Kind: "put", Path: path, Key: key, Val: s.g.Val(0)}
	case []interface{}:
		return s.seqValid(len(x), path)
	}
	return crdt.Op{Kind: "put", Key: "k0", Val: s.g.Prim()}
}

var nilIntPtr *int

func (s *c03) nilish() interface{} {
	switch s.c.Rng.Intn(6) {
	case 0, 1:
		return nil
	case 2:
		return map[string]interface{}{"a": 1, "b": nil}
	case 3:
		return []interface{}{"x", nil}
	case 4:
		return crdt.SliceStruct{N: "n", S: nil, M: map[string]int{"a": 1}}
	default:
		return map[string]interface{}{"deep": []interface{}{map[string]interface{}{"z": nil}}}
	}
}

// nilOrTypedNil: no value at all, as an untyped nil or as a nil pointer of some type (alone or
// inside a batch: both are null once converted).
func (s *c03) nilOrTypedNil() interface{} {
	switch s.c.Rng.Intn(4) {
	case 0:
		return nilIntPtr
	case 1:
		return (*string)(nil)
	default:
		return nil
	}
}

func (s *c03) seqInvalid(n int, path []interface{}, isDoc bool) crdt.Op {
	r := s.c.Rng
	v := func() interface{} { return s.g.Tag() }
	switch r.Intn(12) {
	case 0:
		return crdt.Op{Kind: "ins", Path: path, Pos: -1, Vals: []interface{}{v()}}
	case 1:
		return crdt.Op{Kind: "ins", Path: path, Pos: n + 1 + r.Intn(3), Vals: []interface{}{v()}}
	case 2:
		vs := []interface{}{v(), v(), v()}
		if isDoc {
			vs[r.Intn(3)] = s.nilish()
		} else {
			vs[r.Intn(3)] = s.nilOrTypedNil()
		}
		return crdt.Op{Kind: "ins", Path: path, Pos: r.Intn(n + 1), Vals: vs}
	case 3:
		return crdt.Op{Kind: "del", Path: path, Pos: -1, N: 1}
	case 4:
		return crdt.Op{Kind: "del", Path: path, Pos: n + r.Intn(2), N: 1}
	case 5:
		return crdt.Op{Kind: "del", Path: path, Pos: r.Intn(n + 1), N: 0 - r.Intn(2)}
	case 6:
		return crdt.Op{Kind: "del", Path: path, Pos: r.Intn(n + 1), N: n + 1 + r.Intn(3)}
	case 7:
		return crdt.Op{Kind: "del1", Path: path, Pos: n + r.Intn(2)}
	case 8:
		return crdt.Op{Kind: "del1", Path: path, Pos: -1}
	case 9:
		return crdt.Op{Kind: "upd", Path: path, Pos: n + r.Intn(2), Vals: []interface{}{v()}}
	case 10:
		vs := []interface{}{}
		for i := 0; i < n+1; i++ {
			vs = append(vs, v())
		}
		return crdt.Op{Kind: "upd", Path: path, Pos: r.Intn(n + 1), Vals: vs}
	default:
		if n > 0 {
			if isDoc {
				return crdt.Op{Kind: "upd", Path: path, Pos: r.Intn(n), Vals: []interface{}{s.nilish()}}
			}
			return crdt.Op{Kind: "upd", Path: path, Pos: r.Intn(n), Vals: []interface{}{s.nilOrTypedNil()}}
		}
		return crdt.Op{Kind: "upd", Path: path, Pos: 0, Vals: []interface{}{}}
	}
}

func (s *c03) invalidOp() crdt.Op {
	r := s.c.Rng
	switch s.p.Typ {
	case "counter":
		return s.g.Op(s.rep) // counters have no invalid arguments
	case "map":
		switch r.Intn(6) {
		case 0:
			return crdt.Op{Kind: "put", Key: "", Val: s.g.Tag()}
		case 1:
			return crdt.Op{Kind: "put", Key: "k" + strconv.Itoa(r.Intn(4)), Val: nil}
		case 2:
			return crdt.Op{Kind: "rm", Key: ""}
		case 3:
			return crdt.Op{Kind: "rm", Key: "missing" + s.g.Tag()}
		case 4:
			return crdt.Op{Kind: "put", Key: "k" + strconv.Itoa(r.Intn(4)), Val: nilIntPtr}
		default:
			return crdt.Op{Kind: "put", Key: "", Val: nil}
		}
	case "list":
		return s.seqInvalid(len(s.p.L), nil, false)
	}
	var conts, elems [][]interface{}
	modelContainers(s.p.D, nil, &conts, 0)
	modelElements(s.p.D, nil, &elems, 0)
	path := conts[r.Intn(len(conts))]
	node, _ := s.p.Node(path)
	_, isObj := node.(map[string]interface{})
	switch k := r.Intn(8); {
	case k == 0 && len(elems) > 0: // call on an element
		ep := elems[r.Intn(len(elems))]
		if r.Intn(2) == 0 {
			return crdt.Op{Kind: "put", Path: ep, Key: "k0", Val: s.g.Tag()}
		}
		return crdt.Op{Kind: "ins", Path: ep, Pos: 0, Vals: []interface{}{s.g.Tag()}}
	case k <= 2: // wrong container kind
		if isObj {
			kinds := []string{"ins", "del", "upd", "del1"}
			return crdt.Op{Kind: kinds[r.Intn(4)], Path: path, Pos: 0, N: 1, Vals: []interface{}{s.g.Tag()}}
		}
		if r.Intn(2) == 0 {
			return crdt.Op{Kind: "put", Path: path, Key: "k0", Val: s.g.Tag()}
		}
		return crdt.Op{Kind: "rm", Path: path, Key: "k0"}
	case k <= 4:
		if isObj {
			return crdt.Op{Kind: "put", Path: path, Key: "k" + strconv.Itoa(r.Intn(4)), Val: s.nilish()}
		}
		return s.seqInvalid(len(node.([]interface{})), path, true)
	case k == 5:
		if isObj {
			return crdt.Op{Kind: "rm", Path: path, Key: "missing" + s.g.Tag()}
		}
		return s.seqInvalid(len(node.([]interface{})), path, true)
	default:
		if isObj {
			return crdt.Op{Kind: "put", Path: path, Key: "", Val: s.g.Tag()}
		}
		return s.seqInvalid(len(node.([]interface{})), path, true)
	}
}

// call performs one mutator call with all lock-step checks.
func (s *c03) call(target interface{}, o crdt.Op, inTx bool) (sig, msg string) {
	e := s.p.Classify(o)
	s.meth[o.Kind] = true
	var ret interface{}
	var err error
	s.c.Step("call %s", o)
	if pm := safely(func() { ret, err = crdt.Apply(target, o) }); pm != "" {
		return "panic:" + s.p.Typ + ":" + o.Kind + ":" + core.Hash(stripNum(pm)), fmt.Sprintf("call %s panicked: %s", o, pm)
	}
	if errors.Is(err, crdt.ErrNav) {
		return "harness-nav", fmt.Sprintf("harness could not navigate to %v although the model has that path (view %s)", o.Path, clip(s.rep.View(), 300))
	}
	switch e.Class {
	case crdt.MustErr:
		s.sawBad = true
		s.c.Count("invalid_calls", 1)
		if err == nil {
			return "invalid-accepted:" + s.p.Typ + ":" + o.Kind, fmt.Sprintf("invalid call %s returned no error (returned %s)", o, clip(crdt.Canon(ret), 200))
		}
	case crdt.OK:
		if err != nil {
			return "valid-refused:" + s.p.Typ + ":" + o.Kind, fmt.Sprintf("valid call %s returned error %v (model view %s)", o, err, clip(s.p.View(), 300))
		}
		if s.sawBad {
			s.nt = true
		}
		s.c.Count("valid_calls", 1)
		if e.HasRet {
			if got := crdt.Canon(ret); got != e.Ret {
				return "return-value:" + s.p.Typ + ":" + o.Kind, fmt.Sprintf("call %s returned %s, the plain structure returns %s", o, clip(got, 300), clip(e.Ret, 300))
			}
		}
		s.p.Commit(o, e)
		if !inTx {
			s.npend += e.NOps
		}
	case crdt.MayErr:
		s.c.Count("unclassified_calls", 1)
		if err == nil {
			s.p.Commit(o, e)
			if !inTx {
				// accepted without error: a silent no-op may emit nothing, an executed call one
				// operation - whatever the pending list says now is the new base
				if np := len(s.rep.Pending()) - 1; np == s.npend || np == s.npend+e.NOps {
					s.npend = np
				} else {
					s.npend += e.NOps
				}
			}
		}
	}
	if inTx {
		return "", ""
	}
	return s.observe(o.String())
}

func stripNum(s string) string {
	out := make([]rune, 0, len(s))
	for _, r := range s {
		if r >= '0' && r <= '9' {
			continue
		}
		out = append(out, r)
	}
	if len(out) > 80 {
		out = out[:80]
	}
	return string(out)
}

// observe compares the readable state and the pending list with the model.
func (s *c03) observe(after string) (string, string) {
	var view string
	var size, np int
	if pm := safely(func() {
		view = s.rep.View()
		if s.p.Typ == "counter" {
			view = crdt.Canon(s.rep.DT.(orda.Counter).Get())
		}
		size = s.rep.Size()
		np = len(s.rep.Pending()) - 1
	}); pm != "" {
		return "panic:observe", "reading the state panicked after " + after + ": " + pm
	}
	if want := s.p.View(); view != want {
		return "state:" + s.p.Typ, fmt.Sprintf("after %s the datatype reads %s, the plain structure %s", after, clip(view, 500), clip(want, 500))
	}
	if want := s.p.Size(); size != want {
		return "size:" + s.p.Typ, fmt.Sprintf("after %s Size()=%d, the plain structure has %d", after, size, want)
	}
	if np != s.npend {
		return "pending:" + s.p.Typ, fmt.Sprintf("after %s %d operations await push, expected %d", after, np, s.npend)
	}
	return s.h.After(s.rep)
}

// read performs a random getter call, valid or invalid.
func (s *c03) read() (string, string) {
	r := s.c.Rng
	var sig, msg string
	pm := safely(func() {
		switch t := s.rep.DT.(type) {
		case orda.Counter:
			s.meth["get"] = true
			if t.Get() != s.p.Cnt {
				sig, msg = "read:counter", fmt.Sprintf("Get()=%d model %d", t.Get(), s.p.Cnt)
			}
		case orda.Map:
			s.meth["get"] = true
			k := "k" + strconv.Itoa(r.Intn(5))
			s.c.Step("read Get(%q)", k)
			if got, want := crdt.Canon(t.Get(k)), crdt.Canon(s.p.M[k]); got != want {
				sig, msg = "read:map", fmt.Sprintf("Get(%q)=%s model %s", k, got, want)
			}
		case orda.List:
			n := len(s.p.L)
			pos := r.Intn(n+3) - 1
			cnt := r.Intn(4)
			s.meth["getmany"] = true
			s.c.Step("read Get(%d) GetMany(%d,%d)", pos, pos, cnt)
			v, err := t.Get(pos)
			if pos < 0 || pos >= n {
				if err == nil {
					sig, msg = "read:list-oob-accepted", fmt.Sprintf("Get(%d) on a list of %d returned no error", pos, n)
					return
				}
			} else if err != nil || crdt.Canon(v) != crdt.Canon(s.p.L[pos]) {
				sig, msg = "read:list", fmt.Sprintf("Get(%d)=%s err=%v model %s", pos, crdt.Canon(v), err, crdt.Canon(s.p.L[pos]))
				return
			}
			vs, err := t.GetMany(pos, cnt)
			if pos < 0 || cnt < 1 || pos+cnt > n {
				if err == nil {
					sig, msg = "read:list-range-accepted", fmt.Sprintf("GetMany(%d,%d) on a list of %d returned no error", pos, cnt, n)
				}
			} else if err != nil || crdt.Canon(vs) != crdt.Canon(s.p.L[pos:pos+cnt]) {
				sig, msg = "read:list-many", fmt.Sprintf("GetMany(%d,%d)=%s err=%v model %s", pos, cnt, crdt.Canon(vs), err, crdt.Canon(s.p.L[pos:pos+cnt]))
			}
		case orda.Document:
			var conts [][]interface{}
			modelContainers(s.p.D, nil, &conts, 0)
			path := conts[r.Intn(len(conts))]
			node, _ := s.p.Node(path)
			d := crdt.Navigate(t, path)
			if d == nil {
				sig, msg = "read:doc-nav", fmt.Sprintf("path %v exists in the model but cannot be navigated", path)
				return
			}
			s.meth["docget"] = true
			s.c.Step("read doc %v", path)
			if got, want := crdt.Canon(d.GetValue()), crdt.Canon(node); got != want {
				sig, msg = "read:doc-value", fmt.Sprintf("GetValue() at %v = %s model %s", path, clip(got, 300), clip(want, 300))
				return
			}
			switch x := node.(type) {
			case map[string]interface{}:
				k := "k" + strconv.Itoa(r.Intn(5))
				ch, err := d.GetFromObject(k)
				mv, present := x[k]
				if present {
					if err != nil || ch == nil || crdt.Canon(ch.GetValue()) != crdt.Canon(mv) {
						sig, msg = "read:doc-child", fmt.Sprintf("GetFromObject(%q) at %v err=%v model %s", k, path, err, clip(crdt.Canon(mv), 200))
						return
					}
				} else if ch != nil && err == nil {
					sig, msg = "read:doc-ghost-child", fmt.Sprintf("GetFromObject(%q) at %v returned %s although the key is absent", k, path, clip(crdt.Canon(ch.GetValue()), 200))
					return
				}
				if _, err := d.GetFromArray(0); err == nil {
					sig, msg = "read:doc-kind", fmt.Sprintf("GetFromArray on the object at %v returned no error", path)
				}
			case []interface{}:
				n := len(x)
				pos := r.Intn(n+3) - 1
				ch, err := d.GetManyFromArray(pos, 1)
				if pos < 0 || pos >= n {
					if err == nil {
						sig, msg = "read:doc-oob-accepted", fmt.Sprintf("GetManyFromArray(%d,1) on an array of %d at %v returned no error", pos, n, path)
					}
				} else if err != nil || len(ch) != 1 || crdt.Canon(ch[0].GetValue()) != crdt.Canon(x[pos]) {
					sig, msg = "read:doc-elem", fmt.Sprintf("GetManyFromArray(%d,1) at %v err=%v", pos, path, err)
				} else if cnt := 2 + r.Intn(3); true {
					// a proper range: every element in its place, an overrun refused
					many, err := d.GetManyFromArray(pos, cnt)
					if pos+cnt > n {
						if err == nil {
							sig, msg = "read:doc-range-accepted", fmt.Sprintf("GetManyFromArray(%d,%d) on an array of %d at %v returned no error", pos, cnt, n, path)
						}
					} else if err != nil || len(many) != cnt {
						sig, msg = "read:doc-range", fmt.Sprintf("GetManyFromArray(%d,%d) at %v returned %d documents, err=%v", pos, cnt, path, len(many), err)
					} else {
						for i, m := range many {
							if m == nil || crdt.Canon(m.GetValue()) != crdt.Canon(x[pos+i]) {
								sig, msg = "read:doc-range", fmt.Sprintf("GetManyFromArray(%d,%d) at %v: element %d is %s, the array holds %s there", pos, cnt, path, i, clip(crdt.Canon(docValue(m)), 200), clip(crdt.Canon(x[pos+i]), 200))
								break
							}
						}
					}
				}
			}
		}
	})
	if pm != "" {
		return "panic:read:" + s.p.Typ + ":" + core.Hash(stripNum(pm)), "a getter panicked: " + pm
	}
	return sig, msg
}

// staleCall: mutators on a child document that was deleted or replaced must error.
func (s *c03) staleCall() (string, string) {
	if len(s.stale) == 0 {
		return "", ""
	}
	sh := s.stale[s.c.Rng.Intn(len(s.stale))]
	var err error
	what := ""
	s.sawBad = true
	pm := safely(func() {
		if sh.kind == orda.TypeJSONObject {
			what = "PutToObject"
			s.c.Step("stale %s PutToObject", sh.how)
			_, err = sh.doc.PutToObject("k0", s.g.Tag())
		} else {
			what = "InsertToArray"
			s.c.Step("stale %s InsertToArray", sh.how)
			_, err = sh.doc.InsertToArray(0, s.g.Tag())
		}
	})
	s.c.Count("calls_on_deleted_child", 1)
	if pm != "" {
		return "panic:stale:" + what, fmt.Sprintf("%s on a %s child document panicked: %s", what, sh.how, pm)
	}
	if err == nil {
		return "stale-accepted:" + what, fmt.Sprintf("%s on a %s child document returned no error", what, sh.how)
	}
	return s.observe("stale " + what)
}

// captureStale remembers a handle of a container child that o is about to delete/replace.
func (s *c03) captureStale(o crdt.Op) {
	if s.p.Typ != "doc" {
		return
	}
	var childPath []interface{}
	switch o.Kind {
	case "put", "rm":
		childPath = append(append([]interface{}{}, o.Path...), o.Key)
	case "del", "del1", "upd":
		childPath = append(append([]interface{}{}, o.Path...), o.Pos)
	default:
		return
	}
	node, ok := s.p.Node(childPath)
	if !ok {
		return
	}
	var kind orda.TypeOfJSON
	switch node.(type) {
	case map[string]interface{}:
		kind = orda.TypeJSONObject
	case []interface{}:
		kind = orda.TypeJSONArray
	default:
		return
	}
	how := "deleted"
	if o.Kind == "put" || o.Kind == "upd" {
		how = "replaced"
	}
	if d := crdt.Navigate(s.rep.DT.(orda.Document), childPath); d != nil && len(s.stale) < 8 {
		s.stale = append(s.stale, staleHandle{d, kind, how})
	}
	// handles of containers nested BELOW the child that is about to go: they are not
	// tombstoned themselves, only detached together with their ancestor
	var walk func(n interface{}, path []interface{}, depth int)
	walk = func(n interface{}, path []interface{}, depth int) {
		visit := func(ch interface{}, step interface{}) {
			var k orda.TypeOfJSON
			switch ch.(type) {
			case map[string]interface{}:
				k = orda.TypeJSONObject
			case []interface{}:
				k = orda.TypeJSONArray
			default:
				return
			}
			cp := append(append([]interface{}{}, path...), step)
			if len(s.stale) < 16 {
				if d := crdt.Navigate(s.rep.DT.(orda.Document), cp); d != nil {
					s.stale = append(s.stale, staleHandle{d, k, "nested below a " + how})
					s.c.Count("stale_handles_below_deleted_ancestor", 1)
				}
			}
			if depth < 4 {
				walk(ch, cp, depth+1)
			}
		}
		switch x := n.(type) {
		case map[string]interface{}:
			ks := make([]string, 0, len(x))
			for k := range x {
				ks = append(ks, k)
			}
			sort.Strings(ks)
			for _, k := range ks {
				visit(x[k], k)
			}
		case []interface{}:
			for i, e := range x {
				visit(e, i)
			}
		}
	}
	walk(node, childPath, 0)
}

func (s *c03) transaction() (string, string) {
	r := s.c.Rng
	k := 1 + r.Intn(3)
	abort := r.Intn(3) == 0
	s.c.Step("transaction with %d calls (aborted=%v)", k, abort)
	before := s.p.Clone()
	nOK := 0
	var sig, msg string
	body := func(tx interface{}) error {
		for i := 0; i < k; i++ {
			o := s.validOp()
			e := s.p.Classify(o)
			if sig, msg = s.call(tx, o, true); sig != "" {
				return errors.New("monitor")
			}
			if e.Class == crdt.OK {
				nOK++
			}
		}
		if abort {
			return errBoom
		}
		return nil
	}
	var err error
	pm := safely(func() {
		switch t := s.rep.DT.(type) {
		case orda.Counter:
			err = t.Transaction("t", func(x orda.CounterInTx) error { return body(x) })
		case orda.Map:
			err = t.Transaction("t", func(x orda.MapInTx) error { return body(x) })
		case orda.List:
			err = t.Transaction("t", func(x orda.ListInTx) error { return body(x) })
		case orda.Document:
			err = t.Transaction("t", func(x orda.DocumentInTx) error { return body(x) })
		}
	})
	s.meth["tx"] = true
	if pm != "" {
		return "panic:tx:" + s.p.Typ, "transaction panicked: " + pm
	}
	if sig != "" {
		return sig, msg
	}
	if abort {
		// all-or-nothing as the plain structure sees it: nothing happened
		if err == nil {
			return "aborted-tx-no-error:" + s.p.Typ, "a transaction whose body returned an error reported success"
		}
		s.p = before
		if np := len(s.rep.Pending()) - 1; np != s.npend {
			return "pending:aborted-tx:" + s.p.Typ, fmt.Sprintf("after an aborted transaction %d operations await push, before it %d", np, s.npend)
		}
		s.c.Count("aborted_transactions", 1)
		return s.observe("aborted transaction")
	}
	if err != nil {
		return "tx-failed:" + s.p.Typ, fmt.Sprintf("a transaction of valid calls returned %v", err)
	}
	// a committed transaction adds its header plus one operation per executed call; calls of
	// the unclassified class may or may not have produced an operation, so the pending count
	// is re-based here and checked exactly everywhere else
	np := len(s.rep.Pending()) - 1
	if np < s.npend+1+nOK {
		return "pending:tx:" + s.p.Typ, fmt.Sprintf("after a committed transaction with %d successful calls %d operations await push, expected at least %d", nOK, np, s.npend+1+nOK)
	}
	s.npend = np
	return s.observe("transaction")
}

func runC03(c *core.Case) *core.Result {
	typ := crdt.Types[c.Index%4]
	g := crdt.NewGen(c.Rng)
	if c.Index%8 >= 4 {
		g.Exotic = 0.2
		g.ExactF32 = true // 0.1f is numerically 0.10000000149011612: which decimal a reader sees is C14's question
	}
	h := crdt.NewHist(c, g, typ, 1)
	AttachIDMonitor(c, h)
	s := &c03{c: c, g: g, rep: h.Reps[0], p: crdt.NewPlain(typ), h: h, meth: map[string]bool{}}
	n := tierN(c.Tier, 40, 80)
	c.Step("type=%s calls=%d exotic=%v", typ, n, g.Exotic > 0)
	for i := 0; i < n; i++ {
		var sig, msg string
		switch k := c.Rng.Intn(20); {
		case k < 11:
			o := s.validOp()
			s.captureStale(o)
			sig, msg = s.call(s.rep.DT, o, false)
		case k < 15:
			sig, msg = s.call(s.rep.DT, s.invalidOp(), false)
		case k < 17:
			sig, msg = s.read()
		case k < 18 && typ == "doc":
			sig, msg = s.staleCall()
		case k < 19:
			sig, msg = s.transaction()
		default:
			sig, msg = s.read()
		}
		if sig != "" {
			return c.Violation(sig, "%s", msg)
		}
	}
	h.Log.Push(s.rep)
	if sig, msg := FinishIDMonitor(c, h); sig != "" {
		return c.Violation(sig, "%s", msg)
	}
	if s.nt || len(s.meth) >= 5 {
		c.NonTrivial()
	}
	c.Count("sequences_"+typ, 1)
	return c.Held()
}

func docValue(d orda.Document) interface{} {
	if d == nil {
		return nil
	}
	return d.GetValue()
}
