package props

import (
	"context"
	"encoding/json"
	"fmt"

	"github.com/orda-io/orda/client/pkg/errors"
	"github.com/orda-io/orda/client/pkg/model"
	"github.com/orda-io/orda/client/pkg/operations"
	"github.com/orda-io/orda/server/schema"
	"github.com/orda-io/orda/server/service"
	"go.mongodb.org/mongo-driver/bson"
	"google.golang.org/protobuf/proto"
	"vh/core"
	"vh/crdt"
)

func init() {
	core.Register(&core.Prop{
		ID:          "C14",
		Level:       "exploration",
		CaseTimeout: 45e9, // a case of this check takes milliseconds; one that does not end is cut after 45 s
		Rule: "operations are produced by real datatypes from generator V (Go numerics of every width at boundary values, pointers, structs with/without tags, typed maps and slices, nested containers, hostile valid-UTF-8 strings, batches, transactions, snapshot and error operations) and pushed through every stage: ToModelOperation -> proto.Marshal/Unmarshal -> schema.NewOperationDoc -> bson.Marshal/Unmarshal -> GetOperation -> operations.ModelToOperation -> ToModelOperation; oracle per operation: same id and type, JSON-equivalent body, no stage panics or errors, and OrdaService.TestEncodingOperation echoes an equivalent operation; oracle per history: a replica fed with the fully decoded operations, a replica fed with the wire operations and the issuing replica agree (view, sizes, element reads); service stage (one case in eight): a client of the real service pushes such operations (values of several KiB included), every stored operation document is read back from the MongoDB stand-in and compared with what was sent, and a client that subscribes afterwards plus the server's rebuild read what the issuing client reads; " +
			"non-trivial = some value of the history is a nested container, a string outside [A-Za-z0-9], or a numeric at a width boundary, and >=5 operations went through the chain; distinct = hash of the call script",
		Assumptions: []string{
			"values are JSON-representable; strings are valid UTF-8",
			"integers beyond 2^53 are compared by effect (all replicas agree), not with the Go literal",
			"the BSON stage of the codec chain is bson.Marshal/Unmarshal of schema.OperationDoc as the repository layer does; the service stage goes through the real service, the real driver and the MongoDB stand-in",
		},
		Cases: func(t string) int { return tierN(t, 4000, 60000) },
		Floor: func(t string) int { return tierN(t, 1000, 15000) },
		Run:   runC14,
	})
}

var echoSvc = service.NewOrdaService(nil)

func jsonEquivalent(a, b []byte) bool {
	var x, y interface{}
	if json.Unmarshal(a, &x) != nil || json.Unmarshal(b, &y) != nil {
		return string(a) == string(b)
	}
	return crdt.JS(x) == crdt.JS(y)
}

func sameID(a, b *model.OperationID) bool {
	if a == nil || b == nil {
		return a == b
	}
	return a.Era == b.Era && a.Lamport == b.Lamport && a.CUID == b.CUID && a.Seq == b.Seq
}

// chain pushes one model operation through every encoding stage.
func chain(typ string, in *model.Operation, sseq uint64) (out *model.Operation, sig, msg string) {
	stage := "proto"
	pm := safely(func() {
		b, err := proto.Marshal(in)
		if err != nil {
			sig, msg = "proto-marshal", err.Error()
			return
		}
		var p model.Operation
		if err := proto.Unmarshal(b, &p); err != nil {
			sig, msg = "proto-unmarshal", err.Error()
			return
		}
		stage = "bson"
		doc := schema.NewOperationDoc(&p, "DUIDDUIDDUIDDUID", sseq, 7)
		bb, err := bson.Marshal(doc)
		if err != nil {
			sig, msg = "bson-marshal", err.Error()
			return
		}
		var back schema.OperationDoc
		if err := bson.Unmarshal(bb, &back); err != nil {
			sig, msg = "bson-unmarshal", err.Error()
			return
		}
		if back.Sseq != sseq || back.ID != fmt.Sprintf("DUIDDUIDDUIDDUID:%d", sseq) {
			sig, msg = "bson-doc-fields", fmt.Sprintf("stored document has _id %q sseq %d", back.ID, back.Sseq)
			return
		}
		stored := back.GetOperation()
		stage = "decode"
		op := operations.ModelToOperation(stored)
		stage = "re-encode"
		out = op.ToModelOperation()
	})
	if pm != "" {
		return nil, "panic:" + stage, fmt.Sprintf("stage %s panicked on %v: %s", stage, in, pm)
	}
	if sig != "" {
		return nil, sig, fmt.Sprintf("%s (operation %v)", msg, in)
	}
	if !sameID(in.ID, out.ID) {
		return nil, "id-changed", fmt.Sprintf("id %v became %v", in.ID, out.ID)
	}
	if in.OpType != out.OpType {
		return nil, "type-changed", fmt.Sprintf("type %v became %v", in.OpType, out.OpType)
	}
	if in.OpType%10 == 0 && in.OpType >= 10 {
		if canonSnapshot(typ, in.Body) != canonSnapshot(typ, out.Body) {
			return nil, "snapshot-body-changed", fmt.Sprintf("snapshot body %s became %s", clip(string(in.Body), 300), clip(string(out.Body), 300))
		}
	} else if !jsonEquivalent(in.Body, out.Body) {
		return nil, "body-changed", fmt.Sprintf("body %s became %s", clip(string(in.Body), 300), clip(string(out.Body), 300))
	}
	return out, "", ""
}

var typeOf = map[string]model.TypeOfDatatype{"counter": model.TypeOfDatatype_COUNTER, "map": model.TypeOfDatatype_MAP, "list": model.TypeOfDatatype_LIST, "doc": model.TypeOfDatatype_DOCUMENT}

// echo sends the operation through OrdaService.TestEncodingOperation.
func echo(typ string, in *model.Operation) (sig, msg string) {
	var out *model.EncodingMessage
	var err error
	pm := safely(func() {
		out, err = echoSvc.TestEncodingOperation(context.Background(), &model.EncodingMessage{Type: typeOf[typ], Op: proto.Clone(in).(*model.Operation)})
	})
	if pm != "" {
		return "echo-panic", fmt.Sprintf("TestEncodingOperation panicked on %v: %s", in, pm)
	}
	if err != nil {
		return "echo-error", fmt.Sprintf("TestEncodingOperation refused %v: %v", in, err)
	}
	if out == nil || out.Op == nil {
		return "echo-empty", "TestEncodingOperation returned no operation"
	}
	if !sameID(in.ID, out.Op.ID) || in.OpType != out.Op.OpType {
		return "echo-id-or-type", fmt.Sprintf("echo of %v/%v is %v/%v", in.ID, in.OpType, out.Op.ID, out.Op.OpType)
	}
	if in.OpType%10 == 0 && in.OpType >= 10 {
		if canonSnapshot(typ, in.Body) != canonSnapshot(typ, out.Op.Body) {
			return "echo-snapshot", fmt.Sprintf("echoed snapshot differs: %s vs %s", clip(canonSnapshot(typ, in.Body), 400), clip(canonSnapshot(typ, out.Op.Body), 400))
		}
		return "", ""
	}
	if !jsonEquivalent(in.Body, out.Op.Body) {
		return "echo-body", fmt.Sprintf("echo of body %s is %s", clip(string(in.Body), 300), clip(string(out.Op.Body), 300))
	}
	return "", ""
}

func interestingValue(v interface{}) bool {
	switch x := v.(type) {
	case map[string]interface{}, []interface{}:
		return true
	case string:
		for _, r := range x {
			if !(r >= 'a' && r <= 'z' || r >= 'A' && r <= 'Z' || r >= '0' && r <= '9') {
				return true
			}
		}
	case float64:
		return x >= 1<<31 || x <= -(1<<31) || x != float64(int64(x))
	case json.Number:
		f, _ := x.Float64()
		return f >= 1<<31 || f <= -(1<<31) || f != float64(int64(f))
	}
	return false
}

func runC14(c *core.Case) *core.Result {
	if c.Index%8 == 7 {
		return c14Service(c)
	}
	typ := crdt.Types[c.Index%4]
	g := crdt.NewGen(c.Rng)
	g.Exotic = 0.5
	g.BigBatch = 0.15
	g.HostileKeys = 0.3
	g.Long = 0.04
	h := crdt.NewHist(c, g, typ, 2)
	O := h.Reps[0]
	if c.Index%3 == 0 {
		clocks := []uint64{1<<31 - 2, 1<<32 - 2, 1<<53 - 2, 1<<62 - 1000}
		crdt.InstallClock(O, clocks[c.Rng.Intn(len(clocks))])
	}
	if c.Index%5 == 1 {
		// identifiers of a later era (the field exists in every stored and transported identifier)
		era := uint32(1 + c.Rng.Intn(3))
		if c.Rng.Intn(4) == 0 {
			era = 1<<32 - 1
		}
		crdt.InstallEra(O, era)
		c.Count("histories_with_nonzero_era", 1)
	}
	A := crdt.NewRep(10, typ) // receives fully decoded operations
	B := crdt.NewRep(11, typ) // receives wire operations only
	n := tierN(c.Tier, 25, 60)
	c.Step("type=%s calls=%d", typ, n)
	r := c.Rng
	interesting := false
	for i := 0; i < n; i++ {
		if r.Intn(8) == 0 {
			var body []crdt.Op
			for k := 0; k < 1+r.Intn(3); k++ {
				body = append(body, g.Op(O))
			}
			c.Step("transaction %s", crdt.JS(body))
			if pm := safely(func() { runTx(O, body, nil, false) }); pm != "" {
				return c.Violation(typ+":panic:tx", "transaction panicked: %s", pm)
			}
			continue
		}
		op := g.Op(O)
		c.Step("call %s", op)
		var err error
		if pm := safely(func() { _, err = crdt.Apply(O.DT, op) }); pm != "" {
			return c.Violation(typ+":panic:local", "local call %s panicked: %s", op, pm)
		}
		_ = err
	}
	pend := O.Pending()
	var decoded, wire []*model.Operation
	for i, mop := range pend[1:] {
		out, sig, msg := chain(typ, mop, uint64(i+1))
		if sig != "" {
			return c.Violation(typ+":"+sig, "%s", msg)
		}
		if sig, msg := echo(typ, mop); sig != "" {
			return c.Violation(typ+":"+sig, "%s", msg)
		}
		decoded = append(decoded, out)
		d, _ := crdt.Decode(mop)
		for _, v := range d.V {
			if interestingValue(v) {
				interesting = true
			}
		}
		c.Count("operations_through_chain", 1)
		c.Count("optype_"+mop.OpType.String(), 1)
	}
	wire = crdt.WireOps(pend[1:])
	// snapshot operation of the reached state, and an error operation
	if pm := safely(func() {
		sop, err := O.W.CreateSnapshotOperation()
		if err != nil {
			panic(err)
		}
		sop.SetID(model.NewOperationID())
		m := sop.ToModelOperation()
		if _, sig, msg := chain(typ, m, 999); sig != "" {
			panic(sig + ": " + msg)
		}
		if sig, msg := echo(typ, m); sig != "" {
			panic(sig + ": " + msg)
		}
		eop := operations.NewErrorOperationWithCodeAndMsg(errors.PushPullMissingOps, g.Str()).ToModelOperation()
		if _, sig, msg := chain(typ, eop, 1000); sig != "" {
			panic(sig + ": " + msg)
		}
		if sig, msg := echo(typ, eop); sig != "" {
			panic(sig + ": " + msg)
		}
	}); pm != "" {
		return c.Violation(typ+":snapshot-or-error-op", "%s", clip(pm, 900))
	}
	c.Count("snapshot_ops_through_chain", 1)
	if pm := safely(func() {
		if _, err := A.W.ReceiveRemoteModelOperations(decoded, false); err != nil {
			panic("decoded operations refused: " + err.Error())
		}
		if _, err := B.W.ReceiveRemoteModelOperations(wire, false); err != nil {
			panic("wire operations refused: " + err.Error())
		}
	}); pm != "" {
		return c.Violation(typ+":apply-decoded", "applying the decoded operations failed: %s", pm)
	}
	ov, av, bv := observeAll(O, g.Keys), observeAll(A, g.Keys), observeAll(B, g.Keys)
	for _, x := range []*obsState{&ov, &av, &bv} {
		x.meta, x.pend = "", ""
	}
	if d := diffObs(ov, av); d != "" {
		return c.Violation(typ+":effect-differs", "the issuing replica and a replica that applied the decoded operations differ: %s", d)
	}
	if d := diffObs(av, bv); d != "" {
		return c.Violation(typ+":effect-differs-wire", "replicas fed with decoded and with wire operations differ: %s", d)
	}
	c.Count("effect_comparisons", 1)
	if interesting && len(pend) >= 6 {
		c.NonTrivial()
	}
	return c.Held()
}
