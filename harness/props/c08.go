package props

import (
	"fmt"
	"strings"
	"sync"
	"time"

	"github.com/orda-io/orda/client/pkg/model"
	"vh/bed"
	"vh/core"
	"vh/crdt"
	"vh/fakemongo"
)

// C08 scenario: a fixed script per variant; every data command of every request is, in
// turn, the fault point.

type c08step struct {
	kind string // open | op | tx | sync
	cli  int
	n    int
}

// variants of the scenario (type, entry modes of the three clients, script). In the
// "classic" variants the creator uses Create and the others Subscribe; in the "soc" variants
// all three enter with SubscribeOrCreate and a fourth client tries to Create the existing key
// (it must be refused whatever fails meanwhile, and never yield a second datatype).
var c08Variants = []struct {
	typ    string
	soc    bool
	script []c08step
}{
	{"counter", false, c08Script(0, false)},
	{"list", false, c08Script(1, false)},
	{"counter", true, c08Script(0, true)},
	{"doc", false, c08Script(2, false)},
	{"map", false, c08Script(3, false)},
	{"list", true, c08Script(1, true)},
	{"doc", true, c08Script(2, true)},
}

func c08Script(v int, soc bool) []c08step {
	s := []c08step{
		{"open", 0, 0}, {"sync", 0, 0}, // create
		{"op", 0, 2}, {"sync", 0, 0},
		{"open", 1, 0}, {"sync", 1, 0}, // subscribe
		{"op", 1, 1}, {"sync", 1, 0},
	}
	if soc {
		s = append(s, c08step{"open", 3, 0}, c08step{"sync", 3, 0}) // Create on the existing key: refused
	}
	s = append(s, []c08step{
		{"open", 2, 0}, {"sync", 2, 0},
		{"op", 0, 1}, {"op", 2, 2}, {"sync", 2, 0},
		{"tx", 1, 2}, {"sync", 1, 0},
		{"sync", 0, 0}, // pushes 1 op and pulls
		{"sync", 2, 0}, // pull only
	}...)
	if v%2 == 1 {
		s = append(s, c08step{"op", 1, 3}, c08step{"sync", 1, 0}, c08step{"sync", 0, 0})
	}
	if soc {
		s = append(s, c08step{"sync", 3, 0}) // the refused creator tries again at the end
	}
	return s
}

var c08Kinds = []string{"fail", "sever", "sever-after"}

// c08Profile: number of data commands of the fault-free run per variant (measured once per
// worker process, lazily).
var (
	c08ProfMu sync.Mutex
	c08Prof   = map[int]int{}
)

const c08MaxCommands = 220 // upper bound of data commands per variant used to size the case list

func init() {
	core.Register(&core.Prop{
		ID:          "C08",
		MaxBatch:    250,
		Level:       "fault_enumeration",
		Workers:     16,
		CaseTimeout: 180e9,
		Rule: fmt.Sprintf("%d scenario variants (counter / list / document / map; 3 clients: create + two subscribers, or all three entering with subscribe-or-create plus a fourth client whose Create of the existing key must stay refused and must never yield a second datatype; pushes of 1-3 operations, a transaction, pull-only syncs). Phase 1 profiles the fault-free run and numbers every database command issued while serving each request, including those of the background snapshot goroutine. Phase 2 re-runs the scenario once per command index k and per fault kind: fail(k) = that command answers {ok:0}; sever(k) = the connection is closed before executing it and the server incarnation is dead from then on; sever-after(k) = it is executed, the reply is lost and the incarnation is dead; for sever kinds a new incarnation is started on the same store; the script continues and all clients retry to quiescence. Process cases (quick: a sample of command indexes of one variant; thorough: every command index of two variants): the server is the repository's own binary running as a child process behind the grpc front, clients are SDK clients calling Client.Sync() over real grpc, and the server dies by SIGKILL when the stand-in sees command k (before executing it / after executing it with the reply lost); a new process starts on the same store (same ports) and everybody retries. Collection cases: every database command issued while serving CreateCollection / ResetCollection of a second collection is the fault point in turn (same three kinds); an acknowledged creation has stored the collection and clients can enter it at once, an acknowledged reset has removed every datatype / operation / snapshot / client document of the collection and its user collection, a refused one succeeds when retried; the bystander collection's documents never change; afterwards new clients create the same key again and converge. After the recovery one more push is made: once its background snapshot update has run, the user-visible document records the end of the log and equals its replay (a fault inside an earlier background update may leave it behind for a while, not for good). Oracle: the faulted call returns (error or not) - no panic, no hang; a server process that ends by itself is a violation; every operation whose acknowledgement a client had applied is stored; store invariants of C06 hold after recovery (operation documents beyond the recorded end of log are reported); retries reach quiescence; every operation issued on a subscribed datatype is stored exactly once and all replicas, the server's rebuild and the replay of the stored log agree (i.e. the state is the one determined by the issued operations, as if no failure had happened); ",
			len(c08Variants)) +
			"non-trivial = the fault hit a write command (insert / update / delete / findAndModify) or fell between the two writes of one commit; distinct = (variant, command index, fault kind)",
		Assumptions: []string{
			"the enumerated in-process cases approximate a dead incarnation by severing its database connections and abandoning its service object; the process cases kill a real server process (SIGKILL) and start a new one",
			"user operations are issued only on SUBSCRIBED datatypes, so that 'as if no failure had happened' is well defined for every entry mode (DESIGN.md §4 C08)",
			"MongoDB is the in-memory stand-in; a failed command has no partial effect; insert / update are atomic per command",
		},
		Trusted:    []string{"fakemongo (fault plan, command log)", "fakemqtt", "harness transport (direct mode)"},
		Cases:      func(t string) int { return c08InProcCases(t) + c08ProcCases(t) + c08ColCases(t) },
		Floor:      func(t string) int { return tierN(t, 60, 150) },
		Exhaustive: func(t string) bool { return true },
		Run:        runC08,
	})
}

type c08run struct {
	w        *svcWorld
	dts      []*bed.DT
	acked    map[int]uint64 // client -> acknowledged cseq applied
	faultHit *fakemongo.Cmd
	ncmd     int
	outcomes []string
}

func isWrite(name string) bool {
	switch name {
	case "insert", "update", "delete", "findAndModify":
		return true
	}
	return false
}

// c08Execute runs the variant with an optional fault at data command k (k=0: none).
func c08Execute(c *core.Case, variant, k int, kind string, log bool) (*c08run, string, string) {
	v := c08Variants[variant]
	w, err := newSvcWorld(c, "colA")
	if err != nil {
		return nil, "INCONCLUSIVE", "test bed did not start: " + err.Error()
	}
	if k > 0 && kind != "fail" {
		w.b.Taint() // incarnations are restarted: do not hand this bed to the next case
	}
	run := &c08run{w: w, acked: map[int]uint64{}, dts: make([]*bed.DT, 4)}
	for i := 0; i < 4; i++ {
		w.cls = append(w.cls, w.b.NewClient("colA", fmt.Sprintf("c%d", i)))
	}
	var mu sync.Mutex
	n := 0
	needRestart := false
	w.b.DB.SetPlan(func(cmd *fakemongo.Cmd) fakemongo.Action {
		mu.Lock()
		defer mu.Unlock()
		n++
		if k > 0 && n == k {
			cp := *cmd
			run.faultHit = &cp
			switch kind {
			case "fail":
				return fakemongo.Action{Fail: true}
			case "sever":
				needRestart = true
				return fakemongo.Action{Sever: true}
			case "sever-after":
				needRestart = true
				return fakemongo.Action{SeverAfter: true}
			}
		}
		return fakemongo.Action{}
	})
	restartIfNeeded := func() (string, string) {
		mu.Lock()
		nr := needRestart
		needRestart = false
		mu.Unlock()
		if !nr {
			return "", ""
		}
		w.b.Idle(10e9) // let the dead incarnation's goroutines run into their errors
		if log {
			c.Step("server incarnation %s is dead; starting a new one on the same store", w.b.App)
		}
		if err := w.b.Restart(); err != nil {
			if bed.Environmental(err) {
				return "INCONCLUSIVE", "the new server incarnation did not start for a reason of time or transport: " + err.Error()
			}
			return "restart-failed", "a new server incarnation cannot start on the store left by the fault: " + err.Error()
		}
		return "", ""
	}
	g := w.g
	for si, st := range v.script {
		cl := w.cls[st.cli]
		switch st.kind {
		case "open":
			mode := bed.Subscribe
			if st.cli == 0 || st.cli == 3 {
				mode = bed.Create
			}
			if v.soc && st.cli < 3 {
				mode = bed.SubscribeOrCreate
			}
			run.dts[st.cli] = cl.Open("k", v.typ, mode)
			for try := 0; try < 4; try++ {
				if err := cl.Register(); err == nil {
					break
				} else if log {
					c.Step("%s register: %v", cl.Alias, err)
				}
				if sig, msg := restartIfNeeded(); sig != "" {
					return run, sig, msg
				}
			}
		case "op", "tx":
			d := run.dts[st.cli]
			if d == nil || d.DT.GetState() != model.StateOfDatatype_SUBSCRIBED {
				continue // user operations only on subscribed datatypes
			}
			if st.kind == "tx" {
				var body []crdt.Op
				for j := 0; j < st.n; j++ {
					body = append(body, g.Op(wrapRep(d)))
				}
				runTx(wrapRep(d), body, nil, false)
			} else {
				for j := 0; j < st.n; j++ {
					crdt.Apply(d.DT, g.Op(wrapRep(d)))
				}
			}
		case "sync":
			if run.dts[st.cli] == nil {
				continue
			}
			w.b.DB.SetWindow(fmt.Sprintf("step%d:%s", si, cl.Alias))
			res, sig, msg := w.sync(cl)
			if sig != "" {
				return run, sig, msg
			}
			out := "ok"
			if res != nil && res.ex.Out.Err != nil {
				out = "rpc-error"
			} else if res != nil && res.ex.Refused() {
				out = "error-pack"
			}
			run.outcomes = append(run.outcomes, fmt.Sprintf("step%d:%s=%s", si, cl.Alias, out))
			if !w.idle() {
				return run, "INCONCLUSIVE", "server side did not become idle"
			}
			if out == "ok" {
				p := run.dts[st.cli].W.CreatePushPullPack()
				run.acked[st.cli] = p.CheckPoint.Cseq - uint64(len(p.Operations))
			}
			if sig, msg := restartIfNeeded(); sig != "" {
				return run, sig, msg
			}
		}
	}
	mu.Lock()
	run.ncmd = n
	mu.Unlock()
	w.b.DB.SetPlan(nil)
	return run, "", ""
}

func c08InProcCases(t string) int {
	return tierN(t, 3, len(c08Variants)) * c08MaxCommands * len(c08Kinds)
}

func runC08(c *core.Case) *core.Result {
	if n := c08InProcCases(c.Tier); c.Index >= n+c08ProcCases(c.Tier) {
		return runC08Col(c, c.Index-n-c08ProcCases(c.Tier))
	} else if c.Index >= n {
		return runC08Proc(c, c.Index-n)
	}
	i := c.Index
	kind := c08Kinds[i%len(c08Kinds)]
	i /= len(c08Kinds)
	k := i%c08MaxCommands + 1
	variant := i / c08MaxCommands
	// the generator must produce the same operations in the profile and in the fault run
	seed := int64(variant + 1)
	// phase 1: profile (once per worker and variant) and reference final state
	c08ProfMu.Lock()
	ncmd, have := c08Prof[variant]
	c08ProfMu.Unlock()
	c.Fingerprint(fmt.Sprintf("v%d/k%d/%s", variant, k, kind))
	if !have {
		c.Rng.Seed(seed)
		ref, sig, msg := c08Execute(c, variant, 0, "", false)
		if ref != nil {
			defer ref.w.close()
		}
		if sig != "" {
			return verdict(c, "fault-free:", sig, msg)
		}
		ncmd = ref.ncmd
		c08ProfMu.Lock()
		c08Prof[variant] = ncmd
		c08ProfMu.Unlock()
		if ncmd > c08MaxCommands {
			// a sizing limit of the harness, nothing about the tree: the verdict is withheld
			return c.Inconclusive("HARNESS-SIZING variant %d issues %d data commands, the case list is sized for %d", variant, ncmd, c08MaxCommands)
		}
	}
	if k > ncmd {
		c.Count("skipped_beyond_profile", 1)
		return c.Held()
	}
	// phase 2: the fault run
	c.Rng.Seed(seed)
	c.Step("variant=%d type=%s fault=%s at data command %d of %d", variant, c08Variants[variant].typ, kind, k, ncmd)
	run, sig, msg := c08Execute(c, variant, k, kind, true)
	if run != nil {
		defer run.w.close()
	}
	if run != nil && run.faultHit != nil {
		c.Step("fault hit: %s (window %s)", run.faultHit.Key(), run.faultHit.Window)
	}
	where := ""
	if run != nil && run.faultHit != nil {
		where = fmt.Sprintf("%s at %q: ", kind, run.faultHit.Key())
	}
	if sig != "" {
		return verdict(c, where, sig, msg)
	}
	if run.faultHit == nil {
		c.Count("fault_not_reached", 1)
		return c.Held()
	}
	w := run.w
	c.Count("faults_"+kind, 1)
	c.Count("fault_at_"+run.faultHit.Name+"_"+run.faultHit.Coll, 1)
	// recovery: all clients retry to quiescence
	// requests of the script that were sent after the faulted request had returned: the
	// database answers every command again (for sever kinds a new incarnation is up)
	{
		faultStep := -1
		fmt.Sscanf(run.faultHit.Window, "step%d:", &faultStep)
		for _, o := range run.outcomes {
			var st int
			var rest string
			if n, _ := fmt.Sscanf(o, "step%d:%s", &st, &rest); n == 2 && st > faultStep && !strings.HasSuffix(rest, "=ok") && !strings.HasPrefix(rest, "c3=") {
				c.Count("error_replies_in_script_after_fault", 1)
				c.Step("after the fault: %s", o)
			}
		}
	}
	errsBefore := w.errPacks + w.rpcErrs
	dup := w.cls[3]
	w.cls = w.cls[:3] // the refused creator is expected to be answered with errors: it retries separately below
	ok, sig, msg := w.settle(6)
	if sig != "" {
		return verdict(c, where, sig, msg)
	}
	if n := w.errPacks + w.rpcErrs - errsBefore; n > 0 {
		c.Count("error_replies_during_fault_free_retries", int64(n))
	}
	if run.dts[3] != nil {
		if _, sig, msg := w.sync(dup); sig != "" {
			return verdict(c, where, sig, msg)
		}
		if !w.idle() {
			return c.Inconclusive("server side did not become idle")
		}
	}
	w.cls = append(w.cls, dup)
	if !ok {
		return c.Violation(where+"no-recovery", "after the fault (%s, outcomes %v) six rounds of retries by all clients do not reach quiescence: some sync keeps failing or something is always left to push or pull", run.faultHit.Key(), run.outcomes)
	}
	if sig, msg := w.b.CheckLog(w.ledger, ""); sig != "" {
		return c.Violation(where+sig, "after recovery: %s", msg)
	}
	// nothing acknowledged is lost
	dd := w.b.Datatype(w.colNum, "k")
	if dd == nil {
		return c.Violation(where+"datatype-lost", "the datatype document is gone after recovery")
	}
	ops := w.b.Ops(dd.DUID)
	for ci, acked := range run.acked {
		max := uint64(0)
		for _, o := range ops {
			if o.OpID.CUID == w.cls[ci].Model.CUID && o.OpID.Seq > max {
				max = o.OpID.Seq
			}
		}
		if max < acked {
			return c.Violation(where+"acknowledged-op-lost", "client c%d had applied the acknowledgement of its operations up to seq %d, only up to %d are stored", ci, acked, max)
		}
	}
	if sig, msg := w.finalAgreement(); sig != "" {
		return c.Violation(where+sig, "%s", msg)
	}
	// every operation issued on a subscribed datatype is stored exactly once (CheckLog has
	// established per-client sequence order without gaps or repeats)
	ndocs := 0
	for _, x := range w.b.Datatypes() {
		if x.Key == "k" && x.CollectionNum == w.colNum {
			ndocs++
		}
	}
	if ndocs != 1 {
		return c.Violation(where+"several-datatype-docs", "after recovery %d datatype documents are stored for collection %d key \"k\" (outcomes %v)", ndocs, w.colNum, run.outcomes)
	}
	for ci, d := range run.dts {
		if ci == 3 {
			if d != nil && d.DT.GetState() == model.StateOfDatatype_SUBSCRIBED {
				return c.Violation(where+"duplicate-create-accepted", "client c3 asked to Create the key that already existed and ended up subscribed (outcomes %v)", run.outcomes)
			}
			if d != nil {
				if errs, _, _ := d.Handler(); len(errs) == 0 {
					return c.Violation(where+"duplicate-create-not-reported", "client c3 asked to Create the key that already existed; its error handler was never called (outcomes %v)", run.outcomes)
				}
				c.Count("refused_duplicate_creates", 1)
			}
			continue
		}
		if d == nil {
			return c.Inconclusive("client c%d never opened its datatype", ci)
		}
		if d.DT.GetState() != model.StateOfDatatype_SUBSCRIBED {
			return c.Violation(where+"client-not-recovered", "client c%d is not subscribed after recovery (state %v)", ci, d.DT.GetState())
		}
		issued := d.W.CreatePushPullPack().CheckPoint.Cseq
		stored := uint64(0)
		for _, o := range ops {
			if o.OpID.CUID == w.cls[ci].Model.CUID {
				stored++
			}
		}
		if issued != stored {
			return c.Violation(where+"issued-vs-stored", "client c%d issued operations up to seq %d, %d of its operations are stored", ci, issued, stored)
		}
	}
	// epilogue: one more push after the recovery; its background snapshot update must bring the
	// user-visible document to the end of the log again (a fault inside an EARLIER background
	// update may leave the document behind for a while, but not for good)
	{
		d0 := run.dts[0]
		for i := 0; i < 20 && len(d0.W.CreatePushPullPack().Operations) == 0; i++ {
			crdt.Apply(d0.DT, w.g.Op(wrapRep(d0)))
		}
		if _, sig, msg := w.sync(w.cls[0]); sig != "" {
			return verdict(c, where+"epilogue:", sig, msg)
		}
		if !w.idle() {
			return c.Inconclusive("server side did not become idle")
		}
		if len(d0.W.CreatePushPullPack().Operations) == 0 {
			if dd2 := w.b.Datatype(w.colNum, "k"); dd2 != nil {
				sig, msg := userDocCurrent(w, c08Variants[variant].typ, "colA", "k", dd2)
				for t := 0; t < 40 && sig != ""; t++ { // a document that is due is awaited for a bounded time (2 s)
					time.Sleep(50 * time.Millisecond)
					w.idle()
					sig, msg = userDocCurrent(w, c08Variants[variant].typ, "colA", "k", dd2)
				}
				if sig != "" {
					return c.Violation(where+"epilogue:"+sig, "after the recovery and one more accepted push: %s", msg)
				}
				c.Count("user_document_current_after_recovery", 1)
			}
		}
	}
	if isWrite(run.faultHit.Name) {
		c.NonTrivial()
	}
	return c.Held()
}
