package props

import (
	"context"
	"fmt"
	"os"
	"sync"

	"github.com/orda-io/orda/client/pkg/model"
	"go.mongodb.org/mongo-driver/bson"
	"vh/bed"
	"vh/core"
	"vh/crdt"
	"vh/fakemongo"
)

// C19, REST half: OrdaService.PatchDocument against the stored document over the real
// service and the in-memory MongoDB: chains of patches, with the document absent / created by
// a client / subscribed by a second client, REST patches back to back and interleaved with
// client pushes, with and without a stored snapshot (the harness removes snapshot documents
// to force a rebuild from the whole log).

func init() { restCase = c19Rest }

func c19Rest(c *core.Case) *core.Result {
	w, err := newSvcWorld(c, "colA")
	if err != nil {
		return c.Inconclusive("test bed did not start: %v", err)
	}
	defer w.close()
	r := c.Rng
	g := w.g
	key := fmt.Sprintf("pd-%d-%d", c.Index, r.Intn(1<<20)) // a different key per case: nothing may depend on what a key is called
	w.ledger.SkipKeys[key] = true
	variant := r.Intn(3) // 0: absent at the first patch, 1: created by a client, 2: created + subscriber
	c.Step("rest variant=%d (0 absent, 1 created by a client, 2 created and subscribed by a second client)", variant)
	var docs []*bed.DT
	// natural schedule for "no stored snapshot yet": the background snapshot update of the
	// creating push is held at its insert into the snapshot collection (a real suspension
	// point) while the first REST patch arrives
	var release func()
	gated := variant >= 1 && r.Intn(8) == 0
	if gated {
		gate := make(chan struct{})
		var once sync.Once
		w.b.DB.SetPlan(func(cmd *fakemongo.Cmd) fakemongo.Action {
			if cmd.Key() == "insert -_-Snapshots" {
				act := fakemongo.Action{}
				once.Do(func() { act = fakemongo.Action{GateBefore: gate} })
				return act
			}
			return fakemongo.Action{}
		})
		release = func() { close(gate); w.b.DB.SetPlan(nil) }
		defer func() {
			if release != nil {
				release()
			}
		}()
		c.Step("the background snapshot update of the creating push is held before its insert into the snapshot collection")
		c.Count("rest_patches_racing_the_first_snapshot", 1)
	}
	open := func(alias, mode string) (*bed.DT, *core.Result) {
		cl := w.b.NewClient("colA", alias)
		w.cls = append(w.cls, cl)
		d := cl.Open(key, "doc", mode)
		if d == nil {
			return nil, c.Inconclusive("open failed")
		}
		cl.Register()
		if release != nil && mode == bed.Create {
			for j := 0; j < 1+r.Intn(3); j++ {
				w.localOp(d) // part of the creation push
			}
		}
		if _, sig, msg := w.sync(cl); sig != "" {
			return nil, verdict(c, "rest:setup:", sig, msg)
		}
		if release == nil && !w.idle() {
			return nil, c.Inconclusive("idle")
		}
		if d.DT.GetState() != model.StateOfDatatype_SUBSCRIBED {
			return nil, c.Violation("rest:client-entry", "%s of the document %q (which exists: %v) did not end in SUBSCRIBED", mode, key, w.b.Datatype(w.colNum, key) != nil)
		}
		docs = append(docs, d)
		return d, nil
	}
	if variant >= 1 {
		a, res := open("A", bed.Create)
		if res != nil {
			return res
		}
		if !gated {
			for j := 0; j < 1+r.Intn(4); j++ {
				w.localOp(a)
			}
			if _, sig, msg := w.sync(a.C); sig != "" {
				return verdict(c, "rest:setup:", sig, msg)
			}
			w.idle()
		}
	}
	if variant == 2 && !gated {
		if _, res := open("B", bed.Subscribe); res != nil {
			return res
		}
	}
	current := func() interface{} {
		dd := w.b.Datatype(w.colNum, key)
		if dd == nil {
			return map[string]interface{}{}
		}
		v, err := w.replayJSON(w.b.Ops(dd.DUID))
		if err != nil {
			return map[string]interface{}{}
		}
		return v
	}
	nontrivial := false
	chain := 2 + r.Intn(4)
	patches := 0
	backToBack := 0
	lastWasPatch := false
	for i := 0; i < chain; i++ {
		// between patches: client traffic, a late subscriber, removal of stored snapshots
		switch k := r.Intn(6); {
		case release != nil:
			// the first REST patch arrives while the creating push's snapshot is not stored yet
		case k == 0 && len(docs) > 0:
			d := docs[r.Intn(len(docs))]
			for j := 0; j < 1+r.Intn(3); j++ {
				w.localOp(d)
			}
			if _, sig, msg := w.sync(d.C); sig != "" {
				return verdict(c, "rest:", sig, msg)
			}
			if !w.idle() {
				return c.Inconclusive("idle")
			}
			lastWasPatch = false
		case k == 1 && len(docs) < 3 && w.b.Datatype(w.colNum, key) != nil:
			if _, res := open(fmt.Sprintf("S%d", i), bed.Subscribe); res != nil {
				return res
			}
		case k == 2 && os.Getenv("VERIF_C19_NO_REMOVAL") == "": // (the variable is a debugging aid: natural schedules only)
			if dd := w.b.Datatype(w.colNum, key); dd != nil {
				n := w.b.DB.DeleteWhere(bed.NSSnapshots, func(d bson.D) bool {
					id, _ := d.Map()["duid"].(string)
					return id == dd.DUID
				})
				c.Step("harness removes %d stored snapshot documents of the document (the next rebuild starts from the log)", n)
				c.Count("rest_patches_without_stored_snapshot", 1)
			}
		}
		cur := current()
		var target interface{}
		if i == 0 || r.Intn(4) == 0 {
			target = genObject(r, 0, g)
		} else {
			target = mutateJSON(r, cur, 0, g)
		}
		if _, ok := target.(map[string]interface{}); !ok {
			target = genObject(r, 0, g)
		}
		tjson := crdt.JS(target)
		existed := w.b.Datatype(w.colNum, key) != nil
		endBefore := uint64(0)
		if dd := w.b.Datatype(w.colNum, key); dd != nil {
			endBefore = dd.Sseq.End
		}
		c.Step("REST patch %d (document exists: %v, previous step was a REST patch: %v): %s -> %s", i, existed, lastWasPatch, clip(crdt.Canon(cur), 300), clip(tjson, 300))
		var resp *model.PatchMessage
		out := bed.Guard(20e9, func(ctx context.Context) error {
			var e error
			resp, e = w.b.Svc.PatchDocument(ctx, &model.PatchMessage{Collection: "colA", Key: key, Json: tjson})
			return e
		})
		if release != nil {
			release()
			release = nil
		}
		if out.Panic != "" {
			return c.Violation("rest:panic", "PatchDocument panicked: %s (current %s, target %s)", out.Panic, clip(crdt.Canon(cur), 300), clip(tjson, 300))
		}
		if out.TimedOut {
			if out.Hang {
				return c.Violation("rest:no-answer", "PatchDocument never returned\n%s", clipDump(out.Dump))
			}
			return c.Inconclusive("PatchDocument watchdog")
		}
		if out.Err != nil {
			return c.Violation("rest:refused", "PatchDocument refused a null-free target object: %v (current %s, target %s)", out.Err, clip(crdt.Canon(cur), 300), clip(tjson, 300))
		}
		if !w.idle() {
			return c.Inconclusive("idle")
		}
		patches++
		if lastWasPatch {
			backToBack++
		}
		lastWasPatch = true
		want := crdt.Canon(target)
		if resp == nil || crdt.CanonJSON(resp.Json) != want {
			got := "<nil>"
			if resp != nil {
				got = clip(crdt.CanonJSON(resp.Json), 500)
			}
			return c.Violation("rest:response-not-target", "PatchDocument answered %s, the target was %s (the document was %s)", got, clip(want, 500), clip(crdt.Canon(cur), 300))
		}
		dd := w.b.Datatype(w.colNum, key)
		if dd == nil {
			return c.Violation("rest:not-created", "PatchDocument answered successfully but no datatype document exists for key %q", key)
		}
		if sig, msg := w.b.CheckLog(w.ledger, ""); sig != "" {
			return c.Violation("rest:"+sig, "after a REST patch: %s", msg)
		}
		if crdt.Canon(cur) != want && dd.Sseq.End <= endBefore {
			return c.Violation("rest:nothing-appended", "the REST patch changed the document (%s -> %s) but the log did not grow (end of log %d)", clip(crdt.Canon(cur), 300), clip(want, 300), dd.Sseq.End)
		}
		rv, err := w.replayView("doc", w.b.Ops(dd.DUID), 0)
		if err != nil {
			return c.Violation("rest:replay-error", "replaying the stored log after a REST patch failed: %v", err)
		}
		if rv != want {
			var types []string
			for _, o := range w.b.Ops(dd.DUID) {
				types = append(types, fmt.Sprintf("%d:%s/%s#%d", o.Sseq, o.OpType, short(o.OpID.CUID), o.OpID.Seq))
			}
			return c.Violation("rest:stored-not-target", "after the REST patch the stored log replays to %s, the target was %s; stored operations (sseq:type/client#seq): %v", clip(rv, 500), clip(want, 500), types)
		}
		sv, _, err := w.serverView(dd)
		if err != nil {
			return c.Violation("rest:server-rebuild-error", "the server cannot rebuild the document after a REST patch: %v", err)
		}
		if sv != want {
			return c.Violation("rest:rebuild-not-target", "after the REST patch the server rebuilds %s, the target was %s", clip(sv, 500), clip(want, 500))
		}
		// subscribed clients converge to the target
		for _, d := range docs {
			if len(d.W.CreatePushPullPack().Operations) > 0 {
				continue
			}
			if _, sig, msg := w.sync(d.C); sig != "" {
				return verdict(c, "rest:", sig, msg)
			}
			if !w.idle() {
				return c.Inconclusive("idle")
			}
			if v := d.View(); v != want {
				return c.Violation("rest:client-not-target", "client %s synced after the REST patch and reads %s, the target was %s", d.C.Alias, clip(v, 500), clip(want, 500))
			}
			c.Count("rest_clients_converged_to_target", 1)
		}
		if needsEscapedKey(target) || needsEscapedKey(cur) || len(w.b.Ops(dd.DUID))-int(endBefore) >= 2 {
			nontrivial = true
		}
		c.Count("rest_patches_applied", 1)
		if !existed {
			c.Count("rest_documents_created_by_patch", 1)
		}
	}
	c.Count("rest_patches_back_to_back", int64(backToBack))
	// invalid JSON is refused and changes nothing
	before := w.b.DB.Flat(true)
	for _, bad := range []string{"{", "nope"} {
		out := bed.Guard(10e9, func(ctx context.Context) error {
			_, e := w.b.Svc.PatchDocument(ctx, &model.PatchMessage{Collection: "colA", Key: key, Json: bad})
			return e
		})
		if out.Panic != "" {
			return c.Violation("rest:panic", "PatchDocument(%q) panicked: %s", bad, out.Panic)
		}
		if out.Err == nil && !out.TimedOut {
			return c.Violation("rest:unpatchable-accepted", "PatchDocument(%q) returned no error", bad)
		}
	}
	w.idle()
	if d := fakemongoDiff(before, w.b.DB.Flat(true)); len(d) > 0 {
		return c.Violation("rest:refused-but-changed", "refused REST patches changed stored data: %v", d)
	}
	// everything converges
	ok, sig, msg := w.settle(6)
	if sig != "" {
		return verdict(c, "rest:", sig, msg)
	}
	if ok {
		if sig, msg := w.finalAgreement(); sig != "" {
			return c.Violation("rest:"+sig, "%s", msg)
		}
	} else if len(docs) > 0 {
		return c.Violation("rest:no-quiescence", "after the REST patches the clients do not reach quiescence with the server")
	}
	if nontrivial && patches >= 2 {
		c.NonTrivial()
	}
	return c.Held()
}
