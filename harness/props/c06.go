package props

import (
	"fmt"

	"github.com/orda-io/orda/client/pkg/model"
	"google.golang.org/protobuf/proto"
	"vh/bed"
	"vh/core"
	"vh/crdt"
)

func init() {
	core.Register(&core.Prop{
		ID:      "C06",
		Level:   "exploration",
		Workers: 16,
		Rule: "scenarios as in C05 plus hostile-but-legal traffic of a correct client's repertoire: empty pushes, replays of old requests (re-push of acknowledged operations), batches of 1-200 operations, long offline periods, stale CheckPoint.Sseq, and read-only traffic (pull-only syncs carrying the read-only bit under a writer's id, with and without anything to pull, and a dedicated reader that subscribes and keeps syncing read-only; its state must equal the replay of the log up to its checkpoint); after EVERY request the in-memory MongoDB is read directly and checked per datatype: sseq = 1..n, _id = duid:sseq, n = recorded end of log, per client the stored seqs are 1,2,3,... in sseq order, every stored operation was offered by a client at the boundary, recorded checkpoints are covered by what is stored, and the response checkpoint equals the stored one; " +
			"non-trivial = at least one request re-offered an acknowledged operation and at least one request pushed while another client's operations were pending for the pusher; distinct = hash of the step script",
		Assumptions: []string{
			"MongoDB is the in-memory stand-in (fakemongo); its documents are decoded with the server's own schema types",
			"per-client order is checked for subscribed (rw) clients; operations pushed by the administrative patch client are checked for sseq / end-of-log only",
		},
		Trusted: []string{"fakemongo", "fakemqtt", "harness transport (direct mode)", "monitors in /verif/harness"},
		Cases:   func(t string) int { return tierN(t, 1000, 8000) },
		Floor:   func(t string) int { return tierN(t, 120, 1000) },
		Run:     runC06,
	})
}

// checkResponseCP: for every successful, non-error pack of a response the checkpoint it
// carries equals the checkpoint now stored for that client.
func checkResponseCP(w *svcWorld, ex *bed.Exchange) (string, string) {
	if ex == nil || ex.Resp == nil {
		return "", ""
	}
	for _, p := range ex.Resp.PushPullPacks {
		if bed.IsErrorPack(p) || p.CheckPoint == nil {
			continue
		}
		dd := w.b.Datatype(w.colNum, p.Key)
		if dd == nil {
			return "response-without-datatype", fmt.Sprintf("a successful pack for key %q was returned but no datatype document is stored", p.Key)
		}
		sc := dd.RWClients[ex.Client.Model.CUID]
		if sc == nil || sc.CP == nil {
			continue
		}
		// every operation of this request that the response acknowledges is stored as offered
		if req := ex.Req; req != nil {
			stored := map[uint64]string{}
			for _, o := range w.b.Ops(dd.DUID) {
				if o.OpID.CUID == ex.Client.Model.CUID {
					stored[o.OpID.Seq] = fmt.Sprintf("%d|%s|%s", o.OpID.Lamport, o.OpType, core.Hash(string(o.Body)))
				}
			}
			for _, rp := range req.PushPullPacks {
				if rp.Key != p.Key {
					continue
				}
				for _, o := range rp.Operations {
					if o.ID == nil || o.ID.CUID != ex.Client.Model.CUID || o.ID.Seq > p.CheckPoint.Cseq {
						continue
					}
					if p.Option&uint32(model.PushPullBitSubscribe) != 0 {
						continue // pre-subscription operations are dropped by design
					}
					want := fmt.Sprintf("%d|%s|%s", o.ID.Lamport, o.OpType, core.Hash(string(o.Body)))
					if got, ok := stored[o.ID.Seq]; !ok {
						return "ack-of-unstored-op", fmt.Sprintf("key %q client %s: the response acknowledges seq %d (checkpoint cseq %d) but no operation of that client with seq %d is stored", p.Key, ex.Client.Alias, o.ID.Seq, p.CheckPoint.Cseq, o.ID.Seq)
					} else if got != want {
						return "ack-of-other-op", fmt.Sprintf("key %q client %s: the response acknowledges the pushed operation seq %d, but a different operation is stored under that sequence number (pushed %s, stored %s)", p.Key, ex.Client.Alias, o.ID.Seq, want, got)
					}
				}
			}
		}
		if sc.CP.Sseq != p.CheckPoint.Sseq || sc.CP.Cseq != p.CheckPoint.Cseq {
			return "response-cp-not-stored", fmt.Sprintf("key %q client %s: response checkpoint (%d,%d) but stored checkpoint (%d,%d)", p.Key, ex.Client.Alias, p.CheckPoint.Sseq, p.CheckPoint.Cseq, sc.CP.Sseq, sc.CP.Cseq)
		}
	}
	return "", ""
}

func runC06(c *core.Case) *core.Result {
	s, err := newSvcScenario(c, 6, false)
	if err != nil {
		return c.Inconclusive("test bed did not start: %v", err)
	}
	w := s.w
	defer w.close()
	r := c.Rng
	old := map[*bed.Client][]*model.PushPullMessage{}
	reoffered, pushedWithPending := false, false
	var reader *bed.Client
	readerDT := map[int]*bed.DT{}
	check := func(ex *bed.Exchange) (string, string) {
		if !w.idle() {
			return "INCONCLUSIVE", "server side did not become idle"
		}
		if sig, msg := w.b.CheckLog(w.ledger, ""); sig != "" {
			return sig, msg
		}
		c.Count("store_checks", 1)
		return checkResponseCP(w, ex)
	}
	s.afterReq = nil
	steps := tierN(c.Tier, 45, 90)
	for i := 0; i < steps; i++ {
		ci := r.Intn(len(w.cls))
		cl := w.cls[ci]
		switch k := r.Intn(23); {
		case k < 2 || len(cl.DTs) == 0:
			ki := r.Intn(len(w.keys))
			if s.opened[[2]int{ci, ki}] == nil {
				s.open(ci, ki)
			}
		case k < 7:
			d := cl.DTs[r.Intn(len(cl.DTs))]
			n := 1
			switch r.Intn(8) {
			case 0:
				n = 20 + r.Intn(180) // long offline period / large batch
			case 1:
				n = 2 + r.Intn(8)
			}
			c.Step("%s/%s %d local operations", cl.Alias, d.Key, n)
			for j := 0; j < n; j++ {
				crdt.Apply(d.DT, w.g.Op(wrapRep(d)))
			}
		case k < 14:
			// normal sync; remember the request for later replays
			req := cl.BuildRequest()
			w.ledger.Offer(req)
			for _, p := range req.PushPullPacks {
				if len(p.Operations) > 0 {
					if dd := w.b.Datatype(w.colNum, p.Key); dd != nil && p.CheckPoint.Sseq < dd.Sseq.End && p.Option == uint32(model.PushPullBitNormal) {
						pushedWithPending = true
					}
				}
			}
			c.Step("%s sync (%d packs)", cl.Alias, len(req.PushPullPacks))
			ex := cl.Send(req)
			if ex.Out.Panic != "" {
				return c.Violation("server-panic", "ProcessPushPull panicked: %s", ex.Out.Panic)
			}
			if ex.Out.TimedOut {
				if ex.Out.Hang {
					return c.Violation("request-hang", "ProcessPushPull never returned\n%s", clipDump(ex.Out.Dump))
				}
				return c.Inconclusive("request watchdog")
			}
			if ex.Out.Err == nil {
				if pm := cl.Apply(ex.Resp); pm != "" {
					return c.Violation("client-panic", "ApplyPushPullPack panicked: %s", pm)
				}
				old[cl] = append(old[cl], req)
			}
			if sig, msg := check(ex); sig != "" {
				return verdict(c, "", sig, msg)
			}
		case k < 17 && len(old[cl]) > 0:
			// replay of an old request: re-offers acknowledged operations with a stale checkpoint
			req := proto.Clone(old[cl][r.Intn(len(old[cl]))]).(*model.PushPullMessage)
			nops := 0
			for _, p := range req.PushPullPacks {
				nops += len(p.Operations)
			}
			if nops > 0 {
				reoffered = true
			}
			c.Step("%s replays an old request (%d operations, response discarded)", cl.Alias, nops)
			ex := cl.Send(req)
			if ex.Out.Panic != "" {
				return c.Violation("server-panic", "ProcessPushPull panicked on a replayed request: %s", ex.Out.Panic)
			}
			if ex.Out.TimedOut {
				if ex.Out.Hang {
					return c.Violation("request-hang", "a replayed request never returned\n%s", clipDump(ex.Out.Dump))
				}
				return c.Inconclusive("request watchdog")
			}
			c.Count("replayed_requests", 1)
			if sig, msg := check(nil); sig != "" {
				return verdict(c, "replay:", sig, msg)
			}
		case k < 19:
			// stale or zero CheckPoint.Sseq with an otherwise current request (response discarded)
			req := cl.BuildRequest()
			w.ledger.Offer(req)
			for _, p := range req.PushPullPacks {
				if p.CheckPoint.Sseq > 0 {
					p.CheckPoint.Sseq = uint64(r.Int63n(int64(p.CheckPoint.Sseq)))
				}
			}
			c.Step("%s sync with stale CheckPoint.Sseq (response discarded, then a normal sync)", cl.Alias)
			ex := cl.Send(req)
			if ex.Out.Panic != "" {
				return c.Violation("server-panic", "ProcessPushPull panicked: %s", ex.Out.Panic)
			}
			if ex.Out.TimedOut {
				return c.Inconclusive("request watchdog")
			}
			c.Count("stale_checkpoint_requests", 1)
			if sig, msg := check(nil); sig != "" {
				return verdict(c, "stale-cp:", sig, msg)
			}
		case k >= 20:
			// read-only traffic (the read-only option bit of the protocol): (0) a pull-only sync
			// of a subscribed client's id with the read-only bit right after its normal sync
			// (nothing to pull), (1) the same without the preceding sync, (2) a dedicated reader
			// that subscribes read-only and keeps syncing read-only, its responses applied.
			variant := r.Intn(3)
			if variant == 2 {
				if reader == nil {
					reader = w.b.NewClient("colA", "reader")
				}
				ki := r.Intn(len(w.keys))
				kk := w.keys[ki]
				if readerDT[ki] == nil && w.b.Datatype(w.colNum, kk.key) != nil {
					c.Step("reader opens %s %s (subscribe, read-only)", kk.typ, kk.key)
					readerDT[ki] = reader.Open(kk.key, kk.typ, bed.Subscribe)
					if len(reader.DTs) == 1 {
						if err := reader.Register(); err != nil {
							c.Step("register failed: %v", err)
						}
					}
				}
				if len(reader.DTs) == 0 {
					break
				}
				req := reader.BuildRequest()
				for _, p := range req.PushPullPacks {
					p.Option |= uint32(model.PushPullBitReadOnly)
				}
				c.Step("reader read-only sync (%d packs)", len(req.PushPullPacks))
				ex := reader.Send(req)
				if ex.Out.Panic != "" {
					return c.Violation("server-panic", "ProcessPushPull panicked on a read-only sync: %s", ex.Out.Panic)
				}
				if ex.Out.TimedOut {
					if ex.Out.Hang {
						return c.Violation("request-hang", "a read-only sync never returned\n%s", clipDump(ex.Out.Dump))
					}
					return c.Inconclusive("request watchdog")
				}
				if ex.Out.Err == nil {
					if pm := reader.Apply(ex.Resp); pm != "" {
						return c.Violation("client-panic", "ApplyPushPullPack panicked on a read-only response: %s", pm)
					}
				}
				c.Count("readonly_reader_syncs", 1)
				if sig, msg := check(nil); sig != "" {
					return verdict(c, "readonly:", sig, msg)
				}
				// what the reader holds is the replay of the log up to its checkpoint
				for _, d := range reader.DTs {
					if d.DT.GetState() != model.StateOfDatatype_SUBSCRIBED {
						continue
					}
					dd := w.b.Datatype(w.colNum, d.Key)
					if dd == nil {
						continue
					}
					cp := d.W.CreatePushPullPack().CheckPoint.Sseq
					want, err := w.replayView(d.Typ, w.b.Ops(dd.DUID), cp)
					if err == nil && cp > 0 && d.View() != want {
						return c.Violation("readonly:reader-state", "the read-only reader of %q is at checkpoint sseq %d and reads %s, the replay of the stored log up to %d gives %s", d.Key, cp, clip(d.View(), 400), cp, clip(want, 400))
					}
					c.Count("readonly_reader_states_compared", 1)
				}
				break
			}
			var dts []*bed.DT
			for _, d := range cl.DTs {
				if d.DT.GetState() == model.StateOfDatatype_SUBSCRIBED {
					dts = append(dts, d)
				}
			}
			if len(dts) == 0 {
				break
			}
			if variant == 0 {
				if _, sig, msg := w.sync(cl); sig != "" {
					return verdict(c, "", sig, msg)
				}
				if sig, msg := check(nil); sig != "" {
					return verdict(c, "", sig, msg)
				}
			}
			req := cl.BuildRequest(dts...)
			for _, p := range req.PushPullPacks {
				p.Option |= uint32(model.PushPullBitReadOnly)
				p.Operations = nil // a read-only client never pushes
			}
			c.Step("%s pull-only sync with the read-only bit (%d packs, variant %d, response discarded)", cl.Alias, len(req.PushPullPacks), variant)
			ex := cl.Send(req)
			if ex.Out.Panic != "" {
				return c.Violation("server-panic", "ProcessPushPull panicked on a read-only sync: %s", ex.Out.Panic)
			}
			if ex.Out.TimedOut {
				if ex.Out.Hang {
					return c.Violation("request-hang", "a read-only sync never returned\n%s", clipDump(ex.Out.Dump))
				}
				return c.Inconclusive("request watchdog")
			}
			c.Count("readonly_syncs_of_writers", 1)
			if sig, msg := check(nil); sig != "" {
				return verdict(c, "readonly:", sig, msg)
			}
		default:
			// empty push: a sync right after a sync
			if _, sig, msg := w.sync(cl); sig != "" {
				return verdict(c, "", sig, msg)
			}
			if sig, msg := check(nil); sig != "" {
				return verdict(c, "", sig, msg)
			}
		}
	}
	if reoffered && pushedWithPending {
		c.NonTrivial()
	}
	return c.Held()
}
