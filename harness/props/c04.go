package props

import (
	"encoding/json"
	"fmt"

	"github.com/orda-io/orda/client/pkg/model"
	"github.com/orda-io/orda/client/pkg/orda"
	"vh/core"
	"vh/crdt"
)

func init() {
	core.Register(&core.Prop{
		ID:          "C04",
		Level:       "exploration",
		CaseTimeout: 45e9, // a case of this check takes milliseconds; one that does not end is cut after 45 s
		Rule: "seeded histories of insert / delete / update (single and batch, batches >= 11, clocks past 10/100) on List and on a Document array, 2-4 replicas, every value a unique tag, interleaved with committed and aborted user transactions of sequence calls (an abort restores the replica from its own snapshot export and replays); after EVERY step the touched replica's full sequence is read and checked: no tag twice, visible elements == elements whose insert the replica has applied minus those whose delete it has applied, every visible tag was written to that element by an applied operation, a local insert at i is readable at i..i+k-1, and a global pairwise order relation over element identities is never contradicted on any replica at any moment; " +
			"non-trivial = some remote insert was applied whose anchor is a tombstone on the receiving replica or has a concurrently inserted right neighbour (same anchor, another client); distinct = hash of the step script",
		Assumptions: []string{
			"element identity of an inserted value = (operation timestamp, index in batch) as carried in the emitted operations; targets of delete/update are read from the emitted operations",
		},
		Cases: func(t string) int { return tierN(t, 3000, 60000) },
		Floor: func(t string) int { return tierN(t, 600, 12000) },
		Run:   runC04,
	})
}

type c04mon struct {
	c        *core.Case
	doc      bool
	arrID    *crdt.TS
	elemOf   map[string]crdt.TS   // tag -> element it was written to
	writer   map[string]crdt.TS   // tag -> operation that wrote it
	applied  []map[crdt.TS]bool   // per replica: operations applied
	inserted []map[crdt.TS]bool   // per replica: element identities inserted by applied ops
	deleted  []map[crdt.TS]bool   // per replica: element identities deleted by applied ops
	anchors  map[crdt.TS][]string // anchor -> clients that inserted right after it
	seenPend []int
	scanned  []int
	before   map[[2]crdt.TS]bool
	nt       bool
	obs      int64
}

func newC04mon(c *core.Case, n int, doc bool) *c04mon {
	m := &c04mon{c: c, doc: doc, elemOf: map[string]crdt.TS{}, writer: map[string]crdt.TS{}, anchors: map[crdt.TS][]string{}, before: map[[2]crdt.TS]bool{}}
	for i := 0; i < n; i++ {
		m.applied = append(m.applied, map[crdt.TS]bool{})
		m.inserted = append(m.inserted, map[crdt.TS]bool{})
		m.deleted = append(m.deleted, map[crdt.TS]bool{})
	}
	m.seenPend = make([]int, n)
	m.scanned = make([]int, n)
	return m
}

func (m *c04mon) absorb(i int, op *model.Operation, remote bool) (string, string) {
	d, err := crdt.Decode(op)
	if err != nil {
		return "undecodable-op", err.Error()
	}
	insT, delT, updT := model.TypeOfOperation_LIST_INSERT, model.TypeOfOperation_LIST_DELETE, model.TypeOfOperation_LIST_UPDATE
	if m.doc {
		insT, delT, updT = model.TypeOfOperation_DOC_ARR_INS, model.TypeOfOperation_DOC_ARR_DEL, model.TypeOfOperation_DOC_ARR_UPD
		if d.Type == model.TypeOfOperation_DOC_OBJ_PUT && m.arrID == nil && d.K == "a" {
			id := crdt.TS{E: d.ID.E, L: d.ID.L, C: d.ID.C}
			m.arrID = &id
		}
		if d.P == nil || m.arrID == nil || *d.P != *m.arrID {
			m.applied[i][d.ID] = true
			return "", ""
		}
	}
	m.applied[i][d.ID] = true
	switch d.Type {
	case insT:
		if len(d.T) == 1 {
			if remote {
				// non-triviality: anchor is a tombstone here, or has a concurrent right neighbour
				if m.deleted[i][d.T[0]] {
					m.nt = true
					m.c.Count("remote_inserts_anchored_at_tombstone", 1)
				}
				for _, cl := range m.anchors[d.T[0]] {
					if cl != d.ID.C {
						m.nt = true
						m.c.Count("remote_inserts_with_concurrent_sibling", 1)
						break
					}
				}
			}
			seen := false
			for _, cl := range m.anchors[d.T[0]] {
				if cl == d.ID.C {
					seen = true
				}
			}
			if !seen {
				m.anchors[d.T[0]] = append(m.anchors[d.T[0]], d.ID.C)
			}
		}
		for k, v := range d.V {
			id := crdt.TS{E: d.ID.E, L: d.ID.L, C: d.ID.C, D: uint32(k)}
			tag, _ := v.(string)
			m.inserted[i][id] = true
			m.elemOf[tag] = id
			m.writer[tag] = d.ID
		}
	case delT:
		for _, t := range d.T {
			m.deleted[i][t] = true
		}
	case updT:
		for k, t := range d.T {
			if k < len(d.V) {
				tag, _ := d.V[k].(string)
				m.elemOf[tag] = t
				m.writer[tag] = d.ID
			}
		}
	}
	return "", ""
}

func (m *c04mon) read(r *crdt.Rep) ([]string, error) {
	var raw interface{}
	if m.doc {
		d := r.DT.(orda.Document)
		ch, err := d.GetFromObject("a")
		if err != nil || ch == nil {
			return nil, nil // the array has not arrived on this replica yet
		}
		raw = ch.GetValue()
	} else {
		l := r.DT.(orda.List)
		n := l.Size()
		if n == 0 {
			raw = []interface{}{}
		} else {
			vs, err := l.GetMany(0, n)
			if err != nil {
				return nil, fmt.Errorf("GetMany(0,%d) failed: %v", n, err)
			}
			raw = vs
		}
		// the JSON view must agree with GetMany
		var view struct{ List []interface{} }
		json.Unmarshal([]byte(crdt.JS(r.DT.ToJSON())), &view)
		if crdt.Canon(view.List) != crdt.Canon(raw) && !(len(view.List) == 0 && n == 0) {
			return nil, fmt.Errorf("ToJSON() %s and GetMany(0,size) %s disagree", crdt.Canon(view.List), crdt.Canon(raw))
		}
	}
	arr, ok := raw.([]interface{})
	if !ok {
		return nil, fmt.Errorf("sequence view is %T", raw)
	}
	out := make([]string, 0, len(arr))
	for _, v := range arr {
		s, ok := v.(string)
		if !ok {
			return nil, fmt.Errorf("non-tag value %v in the sequence", v)
		}
		out = append(out, s)
	}
	return out, nil
}

func (m *c04mon) step(h *crdt.Hist, r *crdt.Rep) (string, string) {
	i := r.Idx
	if i < 0 || i >= len(m.applied) {
		return "", ""
	}
	pend := r.Pending()
	for k := m.seenPend[i]; k < len(pend); k++ {
		if sig, msg := m.absorb(i, pend[k], false); sig != "" {
			return sig, msg
		}
	}
	m.seenPend[i] = len(pend)
	for ; m.scanned[i] < r.Recvd; m.scanned[i]++ {
		e := h.Log.Entries[m.scanned[i]]
		if e.From == i {
			continue
		}
		for _, op := range e.Ops {
			if sig, msg := m.absorb(i, op, true); sig != "" {
				return sig, msg
			}
		}
	}
	tags, err := m.read(r)
	if err != nil {
		return "read-error", fmt.Sprintf("r%d: %v", i, err)
	}
	if tags == nil && m.doc {
		return "", ""
	}
	m.obs++
	seen := map[string]bool{}
	vis := map[crdt.TS]bool{}
	ids := make([]crdt.TS, 0, len(tags))
	for _, t := range tags {
		if seen[t] {
			return "duplicate-value", fmt.Sprintf("r%d shows tag %s twice: %v", i, t, tags)
		}
		seen[t] = true
		id, ok := m.elemOf[t]
		if !ok {
			return "unknown-value", fmt.Sprintf("r%d shows %s which no operation wrote", i, t)
		}
		if !m.applied[i][m.writer[t]] {
			return "value-from-unapplied-op", fmt.Sprintf("r%d shows %s written by operation %v which it has not applied", i, t, m.writer[t])
		}
		if vis[id] {
			return "duplicate-element", fmt.Sprintf("r%d shows element %v twice (tags %v)", i, id, tags)
		}
		vis[id] = true
		ids = append(ids, id)
		if m.deleted[i][id] {
			return "resurrected", fmt.Sprintf("r%d shows element %v (tag %s) although it has applied a delete of it: %v", i, id, t, tags)
		}
		if !m.inserted[i][id] {
			return "element-without-insert", fmt.Sprintf("r%d shows element %v (tag %s) whose insert it has not applied", i, id, t)
		}
	}
	for id := range m.inserted[i] {
		if !m.deleted[i][id] && !vis[id] {
			return "lost-element", fmt.Sprintf("r%d has applied the insert of element %v and no delete of it, but does not show it: %v", i, id, tags)
		}
	}
	for a := 0; a < len(ids); a++ {
		for b := a + 1; b < len(ids); b++ {
			if m.before[[2]crdt.TS{ids[b], ids[a]}] {
				return "reordered", fmt.Sprintf("r%d shows element %v before %v, but they were observed in the opposite order earlier (now: %v)", i, ids[a], ids[b], tags)
			}
			m.before[[2]crdt.TS{ids[a], ids[b]}] = true
		}
	}
	return "", ""
}

func runC04(c *core.Case) *core.Result {
	maxSteps := tierN(c.Tier, 60, 140)
	sh := drawShape(c, maxSteps)
	doc := c.Index%2 == 1
	sh.typ = "list"
	if doc {
		sh.typ = "doc"
	}
	g := crdt.NewGen(c.Rng)
	g.Tagged = true
	g.BigBatch = 0.12
	h := crdt.NewHist(c, g, sh.typ, sh.nrep)
	m := newC04mon(c, sh.nrep, doc)
	c.Step("type=%s replicas=%d steps=%d idle=%d", sh.typ, sh.nrep, sh.steps, sh.idle)
	if doc {
		// the array under test is created once and distributed before the history starts
		if _, err := crdt.Apply(h.Reps[0].DT, crdt.Op{Kind: "put", Key: "a", Val: []interface{}{}}); err != nil {
			return c.Violation("setup", "cannot create the array: %v", err)
		}
		if sig, msg := h.Quiesce(); sig != "" {
			return c.Violation(sig, "%s", msg)
		}
	}
	h.AfterStep = append(h.AfterStep, m.step)
	for _, r := range h.Reps {
		if sig, msg := m.step(h, r); sig != "" {
			return c.Violation(sh.typ+":"+sig, "%s", msg)
		}
	}
	if sig, msg := runIdle04(h, sh, doc); sig != "" {
		return c.Violation(sh.typ+":"+sig, "%s", msg)
	}
	r := c.Rng
	for s := 0; s < sh.steps; s++ {
		rep := h.Reps[r.Intn(len(h.Reps))]
		switch k := r.Intn(20); {
		case k < 12:
			var op crdt.Op
			if doc {
				arr, _ := crdt.Navigate(rep.DT.(orda.Document), []interface{}{"a"}).GetValue().([]interface{})
				op = g.SeqOp(len(arr), []interface{}{"a"})
			} else {
				op = g.SeqOp(rep.DT.(orda.List).Size(), nil)
			}
			_, err, sig, msg := h.Local(rep, op)
			if sig != "" {
				return c.Violation(sh.typ+":"+sig, "%s", msg)
			}
			if err != nil {
				return c.Violation(sh.typ+":valid-refused", "valid call %s returned %v", op, err)
			}
			if op.Kind == "ins" { // immediately readable at i..i+k-1
				tags, _ := m.read(rep)
				for k, v := range op.Vals {
					if op.Pos+k >= len(tags) || tags[op.Pos+k] != v.(string) {
						return c.Violation(sh.typ+":insert-not-at-index", "r%d: after %s index %d does not hold %v: %v", rep.Idx, op, op.Pos+k, v, tags)
					}
				}
				c.Count("local_inserts_checked", 1)
			}
		case k == 12:
			// a user transaction of 1-3 sequence calls, committed or aborted: an abort restores
			// the replica from its own snapshot export and replays (the path by which a live
			// replica comes to hold state that was loaded, not built operation by operation)
			var body []crdt.Op
			size := 0
			if doc {
				arr, _ := crdt.Navigate(rep.DT.(orda.Document), []interface{}{"a"}).GetValue().([]interface{})
				size = len(arr)
			} else {
				size = rep.DT.(orda.List).Size()
			}
			for j := 0; j < 1+r.Intn(3); j++ {
				if doc {
					body = append(body, g.SeqOp(size, []interface{}{"a"}))
				} else {
					body = append(body, g.SeqOp(size, nil))
				}
			}
			var fail error
			if r.Intn(3) > 0 {
				fail = errBoom
			}
			c.Step("r%d transaction %s fail=%v", rep.Idx, crdt.JS(body), fail != nil)
			if pm := safely(func() { runTx(rep, body, fail, false) }); pm != "" {
				return c.Violation(sh.typ+":panic:transaction", "r%d: transaction %s panicked: %s", rep.Idx, crdt.JS(body), pm)
			}
			if fail != nil {
				c.Count("aborted_transactions", 1)
			} else {
				c.Count("committed_transactions", 1)
			}
			if sig, msg := h.After(rep); sig != "" {
				return c.Violation(sh.typ+":"+sig, "%s (after a transaction, aborted=%v)", msg, fail != nil)
			}
		case k < 18:
			upto := rep.Recvd + r.Intn(len(h.Log.Entries)-rep.Recvd+2)
			if sig, msg := h.Sync(rep, upto); sig != "" {
				return c.Violation(sh.typ+":"+sig, "%s", msg)
			}
		default:
			upto := rep.Recvd + r.Intn(len(h.Log.Entries)-rep.Recvd+1)
			if sig, msg := h.DeliverOnly(rep, upto); sig != "" {
				return c.Violation(sh.typ+":"+sig, "%s", msg)
			}
		}
	}
	if sig, msg := h.Quiesce(); sig != "" {
		return c.Violation(sh.typ+":"+sig, "%s", msg)
	}
	if sig, msg := h.CompareAll(); sig != "" {
		return c.Violation(sh.typ+":"+sig, "%s", msg)
	}
	c.Count("sequence_observations", m.obs)
	c.Count("ordered_pairs_tracked", int64(len(m.before)))
	c.Count("histories_"+sh.typ, 1)
	if m.nt {
		c.NonTrivial()
	}
	return c.Held()
}

// runIdle04 advances a clock with insert+delete pairs inside the sequence under test.
func runIdle04(h *crdt.Hist, s histShape, doc bool) (string, string) {
	if s.idle == 0 {
		return "", ""
	}
	rep := h.Reps[s.idleOn]
	n := s.idle
	if n > 60 {
		n = 60
	}
	h.S.Step("r%d idle x%d (clock advance with tombstones)", rep.Idx, n)
	var path []interface{}
	if doc {
		path = []interface{}{"a"}
	}
	for i := 0; i < n; i++ {
		if _, _, sig, msg := h.Local(rep, crdt.Op{Kind: "ins", Path: path, Pos: 0, Vals: []interface{}{h.G.Tag()}}); sig != "" {
			return sig, msg
		}
		if _, _, sig, msg := h.Local(rep, crdt.Op{Kind: "del", Path: path, Pos: 0, N: 1}); sig != "" {
			return sig, msg
		}
	}
	return "", ""
}
