package props

import (
	"context"
	"encoding/json"
	"fmt"
	"sort"
	"strings"
	"sync"
	"time"

	octx "github.com/orda-io/orda/client/pkg/context"
	"github.com/orda-io/orda/client/pkg/iface"
	"github.com/orda-io/orda/client/pkg/model"
	"github.com/orda-io/orda/server/schema"
	"github.com/orda-io/orda/server/snapshot"
	"vh/bed"
	"vh/core"
	"vh/crdt"
)

// svcWorld is a scenario over the real service: clients, datatypes, ledger, monitors.
type svcWorld struct {
	c      *core.Case
	b      *bed.Bed
	g      *crdt.Gen
	ledger *bed.Ledger
	col    string
	colNum int32
	cls    []*bed.Client
	keys   []svcKey
	// checkpoint monotonicity per datatype
	lastS, lastC map[*bed.DT]uint64
	errPacks     int
	rpcErrs      int
	sdk          bool
}

type svcKey struct {
	key, typ string
}

func newSvcWorld(c *core.Case, col string) (*svcWorld, error) {
	b, err := bed.Fresh()
	if err != nil {
		return nil, err
	}
	w := &svcWorld{c: c, b: b, g: crdt.NewGen(c.Rng), ledger: bed.NewLedger(), col: col, lastS: map[*bed.DT]uint64{}, lastC: map[*bed.DT]uint64{}}
	w.g.Long = 0.02 // now and then a value of several KiB: bodies beyond log-line and buffer sizes pass the server
	if err := b.CreateCollection(col); err != nil {
		return nil, fmt.Errorf("CreateCollection: %v", err)
	}
	w.colNum = b.CollectionNum(col)
	return w, nil
}

// idle waits for server-side quiescence; ok=false => inconclusive.
func (w *svcWorld) idle() bool { return w.b.Idle(20 * time.Second) }

// wrapRep exposes a bed datatype as a crdt.Rep so that generators / Apply can be reused.
func wrapRep(d *bed.DT) *crdt.Rep {
	return &crdt.Rep{Idx: 0, Typ: d.Typ, DT: d.DT, W: d.W}
}

// localOp performs a random valid local operation on d.
func (w *svcWorld) localOp(d *bed.DT) {
	op := w.g.Op(wrapRep(d))
	w.c.Step("%s/%s local %s", d.C.Alias, d.Key, op)
	crdt.Apply(d.DT, op)
}

// syncResult summarises one exchange.
type syncResult struct {
	ex        *bed.Exchange
	clientPan string
}

// sync performs one exchange of client cl (all its datatypes, or the given ones) with the
// boundary monitors: ledger, checkpoint monotonicity, crash / hang classification.
func (w *svcWorld) sync(cl *bed.Client, dts ...*bed.DT) (*syncResult, string, string) {
	if len(dts) == 0 {
		dts = cl.DTs
	}
	if len(dts) == 0 {
		return nil, "", ""
	}
	if cl.SDK {
		return w.syncSDK(cl)
	}
	req := cl.BuildRequest(dts...)
	w.ledger.Offer(req)
	var desc []string
	for _, p := range req.PushPullPacks {
		desc = append(desc, fmt.Sprintf("%s opt=%#x cp=(%d,%d) ops=%d", p.Key, p.Option, p.CheckPoint.Sseq, p.CheckPoint.Cseq, len(p.Operations)))
	}
	w.c.Step("%s sync [%s]", cl.Alias, strings.Join(desc, "; "))
	ex := cl.Send(req)
	res := &syncResult{ex: ex}
	if ex.Out.Panic != "" {
		return res, "server-panic", fmt.Sprintf("ProcessPushPull panicked: %s", ex.Out.Panic)
	}
	if ex.Out.TimedOut {
		if ex.Out.Hang {
			return res, "request-hang", "ProcessPushPull never returned: it waits for a handler reply while no handler goroutine exists\n" + clipDump(ex.Out.Dump)
		}
		return res, "INCONCLUSIVE", "ProcessPushPull did not return within the watchdog"
	}
	if ex.Out.Err != nil {
		w.rpcErrs++
		w.c.Count("rpc_errors", 1)
		return res, "", ""
	}
	for _, p := range ex.Resp.PushPullPacks {
		if bed.IsErrorPack(p) {
			w.errPacks++
			w.c.Count("error_packs", 1)
			if len(p.Operations) > 0 {
				if d, err := crdt.Decode(p.Operations[0]); err == nil {
					var body map[string]interface{}
					json.Unmarshal(d.Raw.Body, &body)
					msg, _ := body["Msg"].(string)
					if i := strings.Index(msg, ":"); i > 0 && i < 60 {
						msg = msg[:i]
					}
					w.c.Count(fmt.Sprintf("error_pack_code_%v_%s", body["Code"], strings.ReplaceAll(clip(msg, 50), " ", "_")), 1)
				}
			}
		}
	}
	res.clientPan = cl.Apply(ex.Resp)
	if res.clientPan != "" {
		return res, "client-panic", fmt.Sprintf("ApplyPushPullPack panicked on a response of the server: %s", res.clientPan)
	}
	for _, d := range dts {
		cp := d.W.CreatePushPullPack()
		s, cs := cp.CheckPoint.Sseq, cp.CheckPoint.Cseq-uint64(len(cp.Operations))
		if s < w.lastS[d] || cs < w.lastC[d] {
			return res, "checkpoint-backwards", fmt.Sprintf("%s/%s: checkpoint moved from (%d,%d) to (%d,%d)", cl.Alias, d.Key, w.lastS[d], w.lastC[d], s, cs)
		}
		w.lastS[d], w.lastC[d] = s, cs
	}
	return res, "", ""
}

// syncSDK: the client's own Sync() over real grpc (DatatypeManager.SyncAll: all datatypes
// of the client in one message, response packs matched to datatypes by the SDK itself).
func (w *svcWorld) syncSDK(cl *bed.Client) (*syncResult, string, string) {
	nerr := func() int {
		n := 0
		for _, d := range cl.DTs {
			errs, _, _ := d.Handler()
			n += len(errs)
		}
		return n
	}
	before := nerr()
	w.c.Step("%s Sync() through the SDK (%d datatypes in one message)", cl.Alias, len(cl.DTs))
	out := cl.SyncSDK()
	res := &syncResult{}
	if out.Panic != "" {
		return res, "client-panic", fmt.Sprintf("Client.Sync() panicked: %s", out.Panic)
	}
	if out.TimedOut {
		if out.Hang {
			if bed.ClientSyncStuck(out.Dump) {
				return res, "client-sync-hang", "Client.Sync() never returned: it waits for the client's sync semaphore while no sync of this process is under way that could release it\n" + clipDump(out.Dump)
			}
			return res, "request-hang", "Client.Sync() never returned: the server waits for a handler reply while no handler goroutine exists\n" + clipDump(out.Dump)
		}
		return res, "INCONCLUSIVE", "Client.Sync() did not return within the watchdog"
	}
	if out.Err != nil {
		w.rpcErrs++
		w.c.Count("rpc_errors", 1)
	}
	if n := nerr() - before; n > 0 {
		w.errPacks += n
		w.c.Count("error_packs", int64(n))
	}
	w.c.Count("sdk_syncs", 1)
	for _, d := range cl.DTs {
		cp := d.W.CreatePushPullPack()
		s, cs := cp.CheckPoint.Sseq, cp.CheckPoint.Cseq-uint64(len(cp.Operations))
		if s < w.lastS[d] || cs < w.lastC[d] {
			return res, "checkpoint-backwards", fmt.Sprintf("%s/%s: checkpoint moved from (%d,%d) to (%d,%d)", cl.Alias, d.Key, w.lastS[d], w.lastC[d], s, cs)
		}
		w.lastS[d], w.lastC[d] = s, cs
	}
	return res, "", ""
}

// useSDK switches the world to SDK clients over the grpc front: requests are recorded in
// the ledger at the front, response packs are shuffled (seeded).
func (w *svcWorld) useSDK() error {
	rpc, err := w.b.Front()
	if err != nil {
		return err
	}
	shuf := newRand(w.c.Rng.Int63())
	var mu sync.Mutex
	rpc.SetTaps(func(req *model.PushPullMessage) { w.ledger.Offer(req) }, func(resp *model.PushPullMessage) {
		mu.Lock()
		defer mu.Unlock()
		ps := resp.PushPullPacks
		shuf.Shuffle(len(ps), func(i, j int) { ps[i], ps[j] = ps[j], ps[i] })
	})
	w.sdk = true
	return nil
}

func (w *svcWorld) close() {
	for _, cl := range w.cls {
		cl.CloseSDK()
	}
	if n := w.b.DB.StandInPanics(); n > 0 {
		w.c.Count("harness_internal_errors", int64(n))
	}
	w.b.Close()
}

func clipDump(d string) string {
	if len(d) > 3000 {
		return d[:3000] + "…"
	}
	return d
}

// subscribedDTs returns, per key, the datatypes in state SUBSCRIBED.
func (w *svcWorld) subscribedDTs() map[string][]*bed.DT {
	out := map[string][]*bed.DT{}
	for _, cl := range w.cls {
		for _, d := range cl.DTs {
			if d.DT.GetState() == model.StateOfDatatype_SUBSCRIBED {
				out[d.Key] = append(out[d.Key], d)
			}
		}
	}
	return out
}

// settle syncs every client round-robin until nothing is left to push or pull and every
// subscribed datatype's checkpoint is at the end of its log (bounded rounds).
func (w *svcWorld) settle(maxRounds int) (bool, string, string) {
	for round := 0; round < maxRounds; round++ {
		w.c.Step("settle round %d", round)
		for _, cl := range w.cls {
			if _, sig, msg := w.sync(cl); sig != "" {
				return false, sig, msg
			}
			if !w.idle() {
				return false, "INCONCLUSIVE", "server side did not become idle"
			}
		}
		done := true
		for _, cl := range w.cls {
			for _, d := range cl.DTs {
				if d.DT.GetState() != model.StateOfDatatype_SUBSCRIBED {
					continue
				}
				p := d.W.CreatePushPullPack()
				dd := w.b.Datatype(w.colNum, d.Key)
				if len(p.Operations) > 0 || dd == nil || p.CheckPoint.Sseq != dd.Sseq.End {
					done = false
				}
			}
		}
		if sig, _ := w.entriesCompleted(); sig != "" {
			done = false // somebody's entry has become legal meanwhile: it gets further rounds
		}
		if done {
			return true, "", ""
		}
	}
	return false, "", ""
}

// serverView rebuilds the datatype the way the server does (latest snapshot + tail).
func (w *svcWorld) serverView(dd *schema.DatatypeDoc) (string, uint64, error) {
	ctx := octx.NewOrdaContext(context.TODO(), "verif")
	ctx.SetLogger(crdt.Quiet)
	cd := &schema.CollectionDoc{Name: w.col, Num: w.colNum}
	var view string
	var last uint64
	var err error
	pm := safely(func() {
		dt, l, e := snapshot.NewManager(ctx, w.b.Mgr, dd, cd).GetLatestDatatype()
		if e != nil {
			err = e
			return
		}
		last = l
		view = viewOf(dt)
	})
	if pm != "" {
		return "", 0, fmt.Errorf("GetLatestDatatype panicked: %s", pm)
	}
	return view, last, err
}

func viewOf(dt iface.Datatype) string {
	if c, ok := dt.(interface{ Get() int32 }); ok {
		return crdt.Canon(c.Get())
	}
	return crdt.Canon(dt.ToJSON())
}

// replayView replays stored operations 1..upto (0 = all) into a fresh datatype.
func (w *svcWorld) replayView(typ string, ops []*schema.OperationDoc, upto uint64) (string, error) {
	rep := crdt.NewRep(-1, typ)
	var sel []*model.Operation
	for _, o := range ops {
		if upto == 0 || o.Sseq <= upto {
			sel = append(sel, o.GetOperation())
		}
	}
	var err error
	pm := safely(func() {
		if _, e := rep.W.ReceiveRemoteModelOperations(sel, false); e != nil {
			err = e
		}
	})
	if pm != "" {
		return "", fmt.Errorf("replay panicked: %s", pm)
	}
	if c, ok := rep.DT.(interface{ Get() int32 }); ok {
		return crdt.Canon(c.Get()), err
	}
	return rep.View(), err
}

// replayJSON replays stored operations of a document into a fresh datatype and returns its
// JSON value.
func (w *svcWorld) replayJSON(ops []*schema.OperationDoc) (interface{}, error) {
	rep := crdt.NewRep(-1, "doc")
	var sel []*model.Operation
	for _, o := range ops {
		sel = append(sel, o.GetOperation())
	}
	var err error
	if pm := safely(func() {
		if _, e := rep.W.ReceiveRemoteModelOperations(sel, false); e != nil {
			err = e
		}
	}); pm != "" {
		return nil, fmt.Errorf("replay panicked: %s", pm)
	}
	return crdt.Norm(rep.DT.ToJSON()), err
}

// finalAgreement: all subscribed clients of a key agree with each other, with the server's
// rebuild and with the replay of the stored log.
func (w *svcWorld) finalAgreement() (string, string) {
	for _, cl := range w.cls {
		for _, d := range cl.DTs {
			if f := d.TransitionFault(); f != "" {
				return "false-state-report", fmt.Sprintf("%s/%s: %s", cl.Alias, d.Key, f)
			}
		}
	}
	for key, dts := range w.subscribedDTs() {
		dd := w.b.Datatype(w.colNum, key)
		if dd == nil {
			return "no-datatype-doc", fmt.Sprintf("clients are subscribed to %q but no datatype document is stored", key)
		}
		base := dts[0].View()
		for _, d := range dts[1:] {
			if v := d.View(); v != base {
				return "clients-diverge", fmt.Sprintf("key %q: %s reads %s but %s reads %s after everything was synced", key, dts[0].C.Alias, clip(base, 500), d.C.Alias, clip(v, 500))
			}
		}
		sv, _, err := w.serverView(dd)
		if err != nil {
			return "server-rebuild-error", fmt.Sprintf("key %q: the server cannot rebuild the datatype from its store: %v", key, err)
		}
		if sv != base {
			return "server-diverges", fmt.Sprintf("key %q: clients read %s, the state rebuilt by the server is %s", key, clip(base, 500), clip(sv, 500))
		}
		rv, err := w.replayView(dts[0].Typ, w.b.Ops(dd.DUID), 0)
		if err != nil {
			return "replay-error", fmt.Sprintf("key %q: replaying the stored log failed: %v", key, err)
		}
		if rv != base {
			return "replay-diverges", fmt.Sprintf("key %q: clients read %s, the replay of the stored log gives %s", key, clip(base, 500), clip(rv, 500))
		}
		w.c.Count("final_agreements", 1)
	}
	return "", ""
}

// remoteIDs extracts the (cuid, seq) of every operation handed to the remote handler.
func remoteIDs(packs [][]interface{}) [][][2]string {
	var out [][][2]string
	for _, p := range packs {
		var ids [][2]string
		var walk func(v interface{})
		walk = func(v interface{}) {
			switch x := v.(type) {
			case []interface{}:
				for _, e := range x {
					walk(e)
				}
			case map[string]interface{}:
				if id, ok := x["ID"].(map[string]interface{}); ok {
					if t := fmt.Sprint(x["Type"]); t == "2" || t == "TRANSACTION" {
						return // unit headers are listed in both forms; only real operations count
					}
					cu, _ := id["CUID"].(string)
					sq := id["Seq"]
					if cu == "" {
						cu, _ = id["c"].(string)
						sq = id["s"]
					}
					ids = append(ids, [2]string{cu, fmt.Sprint(sq)})
				}
			}
		}
		b, _ := json.Marshal(p)
		var v interface{}
		dec := json.NewDecoder(strings.NewReader(string(b)))
		dec.UseNumber()
		dec.Decode(&v)
		walk(v)
		out = append(out, ids)
	}
	return out
}

// exactlyOnce: per client datatype, every foreign operation of the stored log that lies
// after the position the client subscribed at was handed to its remote handler exactly
// once, own operations never, and each pack's list is increasing in stored sseq.
func (w *svcWorld) exactlyOnce() (string, string) {
	for _, cl := range w.cls {
		for _, d := range cl.DTs {
			if d.DT.GetState() != model.StateOfDatatype_SUBSCRIBED {
				continue
			}
			dd := w.b.Datatype(w.colNum, d.Key)
			if dd == nil {
				continue
			}
			sseqOf := map[[2]string]uint64{}
			for _, o := range w.b.Ops(dd.DUID) {
				sseqOf[[2]string{o.OpID.CUID, fmt.Sprint(o.OpID.Seq)}] = o.Sseq
			}
			_, _, remote := d.Handler()
			seen := map[[2]string]int{}
			for pi, ids := range remoteIDs(remote) {
				var last uint64
				if len(ids) > 0 && sseqOf[ids[0]] == 1 {
					// the pack starts at the first operation of the log: a subscribe response. The
					// client resets its state and takes the log from the start, so operations of an
					// earlier subscription (a duplicated entry request, both responses applied)
					// legitimately come again.
					seen = map[[2]string]int{}
				}
				for _, id := range ids {
					if id[0] == cl.Model.CUID {
						return "own-op-applied-as-remote", fmt.Sprintf("%s/%s: its own operation seq %s was delivered back to it as a remote operation", cl.Alias, d.Key, id[1])
					}
					seen[id]++
					s, ok := sseqOf[id]
					if !ok {
						continue // snapshot operation of a subscribe response etc.
					}
					if s <= last {
						return "remote-out-of-log-order", fmt.Sprintf("%s/%s: pack %d delivered operations out of log order (sseq %d after %d): %s", cl.Alias, d.Key, pi, s, last, clip(crdt.JS(remote[pi]), 1500))
					}
					last = s
				}
			}
			for id, n := range seen {
				if n > 1 {
					if _, stored := sseqOf[id]; stored {
						return "remote-op-twice", fmt.Sprintf("%s/%s: operation %s:%s was applied %d times", cl.Alias, d.Key, id[0], id[1], n)
					}
				}
			}
			w.c.Count("remote_ops_seen_by_handlers", int64(len(seen)))
		}
	}
	return "", ""
}

// keysSorted returns the keys of a map sorted.
func keysSorted(m map[string][]*bed.DT) []string {
	var ks []string
	for k := range m {
		ks = append(ks, k)
	}
	sort.Strings(ks)
	return ks
}

// entriesCompleted: after fault-free settling, every datatype a client has opened whose entry
// is legal NOW must have completed it: subscribe / subscribe-or-create on a key that exists
// (the scenario's keys have one type each), create / subscribe-or-create on a key nobody has.
// A client that silently stops asking is invisible to the comparisons of subscribed clients.
func (w *svcWorld) entriesCompleted() (string, string) {
	for _, cl := range w.cls {
		for _, d := range cl.DTs {
			if d.DT.GetState() == model.StateOfDatatype_SUBSCRIBED {
				continue
			}
			dd := w.b.Datatype(w.colNum, d.Key)
			legal := false
			switch d.Mode {
			case bed.Subscribe:
				legal = dd != nil && dd.Type == typeOf[d.Typ].String()
			case bed.SubscribeOrCreate:
				legal = dd == nil || dd.Type == typeOf[d.Typ].String()
			case bed.Create:
				legal = dd == nil
			}
			if legal {
				return "entry-never-completed", fmt.Sprintf("%s opened %s %q with %s; the entry is legal in the final state of the server (datatype stored: %v) but after the fault-free rounds of syncing the datatype is still in state %v", cl.Alias, d.Typ, d.Key, d.Mode, dd != nil, d.DT.GetState())
			}
		}
	}
	return "", ""
}
