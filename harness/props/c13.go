package props

import (
	"context"
	"fmt"
	"sort"
	"strings"
	"sync"
	"time"

	oerrors "github.com/orda-io/orda/client/pkg/errors"
	"github.com/orda-io/orda/client/pkg/iface"
	"github.com/orda-io/orda/client/pkg/model"
	"github.com/orda-io/orda/client/pkg/orda"
	"vh/bed"
	"vh/core"
	"vh/crdt"
	"vh/fakemongo"
)

var (
	c13Modes    = []string{bed.Create, bed.Subscribe, bed.SubscribeOrCreate}
	c13Existing = []string{"none", "same-type", "other-type", "self-subscribed"}
	c13Other    = []string{"absent", "sequentially-first", "racing"}
	c13Points   = []string{"fresh", "after-operations", "after-snapshot"}
)

func c13Cells() int {
	return len(c13Modes) * len(c13Existing) * len(c13Other) * len(c13Points) * len(crdt.Types)
}

func init() {
	core.Register(&core.Prop{
		ID:      "C13",
		Level:   "exploration",
		Workers: 16,
		Rule: fmt.Sprintf("complete matrix entry mode {create, subscribe, subscribe-or-create} x existing datatype {none, same type, other type, same type already subscribed by this client} (documents: in a third of the cells made by the REST patch route instead of a client) x other client {absent, sequentially first, racing in parallel (2-5 clients)} x point of history {fresh, after operations, after a snapshot exists} x four types = %d cells, repeated with different seeds (operations before / after, number of racers). Expected outcome from the statement: create on a key that exists, subscribe on a missing key, any mode on a key of another type => the error handler receives an error, the stored data are unchanged (store diff empty, volatile timestamps ignored), no transition to SUBSCRIBED; every report of the state-change handler is truthful (it starts at the state the datatype was in, changes it, and the last one ends at the state the datatype is in); otherwise success: state SUBSCRIBED, the state-change handler reports -> SUBSCRIBED exactly once, the first readable state equals the replay of the log up to the response checkpoint; racing clients: (in half of the racing cells the racers arrive within 4 ms of each other instead of at the same moment) exactly one datatype document per (collection, key) and outcomes consistent with some serial order; in every second repetition of the non-racing cells the entering client's first request is aborted by the server (one database command of its handler fails): the abort must reach the error handler, must not make the datatype SUBSCRIBED, must change nothing stored when the failed command is a read, and the retry is judged like a first entry; in half of the repetitions of the single-entry cells a successful entry response is delivered a second time: same state, no second report of SUBSCRIBED; in a third of all cells, once everything has settled, one more subscriber enters the key (subscribe / subscribe-or-create at random): a REALTIME client of the SDK over real grpc and a real MQTT client whose broker connection was cut, and is refused from then on, after it had connected - subscribing its notification topic fails; SUBSCRIBED must be reported exactly once and the first readable state must equal the replay of the stored log (what the broker fault itself causes is counted: fault reached / entry not completed); ",
			c13Cells()) +
			"non-trivial = every cell; distinct = cell x repetition",
		Assumptions: []string{
			"'already subscribed by this client' is exercised by re-sending the client's original entry request after it is subscribed (the public API returns the existing instance for a second open of the same key); the cell additionally sends the request a second instance of the same client id would send (new DUID, creation snapshot): a create of the same type, or any mode with ANOTHER type - both must be refused with unchanged store",
			"MongoDB is the in-memory stand-in; refused = RPC error or error-bit pack",
		},
		Trusted:    []string{"fakemongo (dump / diff)", "fakemqtt", "harness transport (direct mode)"},
		Cases:      func(t string) int { return c13Cells() * tierN(t, 4, 20) },
		Floor:      func(t string) int { return c13Cells() },
		Exhaustive: func(t string) bool { return true },
		Run:        runC13,
	})
}

type c13entry struct {
	cl      *bed.Client
	d       *bed.DT
	ex      *bed.Exchange
	pm      string
	before  map[string]string
	after   map[string]string
	errBase int  // errors the handler had received before the judged request (an aborted first attempt)
	torn    bool // the aborted first attempt failed at a WRITE (possibly between the two writes of a commit)
}

func otherType(t string, r interface{ Intn(int) int }) string {
	for {
		o := crdt.Types[r.Intn(4)]
		if o != t {
			return o
		}
	}
}

func runC13(c *core.Case) *core.Result {
	i := c.Index % c13Cells()
	rep := c.Index / c13Cells()
	typ := crdt.Types[i%4]
	i /= 4
	point := c13Points[i%3]
	i /= 3
	other := c13Other[i%3]
	i /= 3
	existing := c13Existing[i%4]
	i /= 4
	mode := c13Modes[i%3]
	c.Fingerprint(fmt.Sprintf("%s/%s/%s/%s/%s/rep%d", mode, existing, other, point, typ, rep))
	c.Step("cell mode=%s existing=%s other=%s point=%s type=%s", mode, existing, other, point, typ)
	c.NonTrivial()
	w, err := newSvcWorld(c, "colA")
	if err != nil {
		return c.Inconclusive("test bed did not start: %v", err)
	}
	defer w.close()
	r := c.Rng
	key := fmt.Sprintf("k%d-%d", c.Index, r.Intn(1<<30)) // racing entries must meet a lock name the process has never seen
	newClient := func(alias string) *bed.Client {
		cl := w.b.NewClient("colA", alias)
		w.cls = append(w.cls, cl)
		return cl
	}
	mustSync := func(cl *bed.Client) *core.Result {
		_, sig, msg := w.sync(cl)
		if sig != "" {
			return verdict(c, "setup:", sig, msg)
		}
		if !w.idle() {
			return c.Inconclusive("idle")
		}
		return nil
	}
	// ---- existing datatype
	existType := ""
	var owner *bed.Client
	var X *bed.Client
	var xd *bed.DT
	var firstReq *model.PushPullMessage
	switch existing {
	case "same-type", "other-type":
		existType = typ
		if existing == "other-type" {
			existType = otherType(typ, r)
		}
		if existType == "doc" && r.Intn(3) == 0 {
			// the existing document was made by the REST patch route (the server's own datatype
			// instance created it), not by a client: entering it is the same contract
			npatch := 1
			if point != "fresh" {
				npatch = 2 + r.Intn(3)
			}
			for j := 0; j < npatch; j++ {
				out := bed.Guard(15e9, func(ctx context.Context) error {
					_, err := w.b.Svc.PatchDocument(ctx, &model.PatchMessage{Collection: "colA", Key: key, Json: fmt.Sprintf(`{"made":"by-rest","n":%d,"l":[%d,2]}`, j, j)})
					return err
				})
				if out.Err != nil || out.TimedOut || out.Panic != "" {
					return c.Inconclusive("setup: REST patch failed: %v %s", out.Err, out.Panic)
				}
				if !w.idle() {
					return c.Inconclusive("idle")
				}
			}
			w.ledger.SkipKeys[key] = true // the patch client's operations are offered by no client of the harness
			c.Count("existing_documents_made_by_rest_patch", 1)
		} else {
			owner = newClient("owner")
			od := owner.Open(key, existType, bed.Create)
			owner.Register()
			if res := mustSync(owner); res != nil {
				return res
			}
			if point != "fresh" {
				for j := 0; j < 2+r.Intn(5); j++ {
					w.localOp(od)
				}
				if res := mustSync(owner); res != nil {
					return res
				}
			}
		}
	case "self-subscribed":
		existType = typ
		X = newClient("X")
		xd = X.Open(key, typ, mode)
		if mode == bed.Subscribe || (mode == bed.SubscribeOrCreate && r.Intn(2) == 1) {
			// somebody else must have created it (subscribe), or happens to have created it
			// (subscribe-or-create then subscribes; with a lost first response its retry still
			// carries both bits)
			owner = newClient("owner")
			owner.Open(key, typ, bed.Create)
			owner.Register()
			if res := mustSync(owner); res != nil {
				return res
			}
		}
		X.Register()
		for j := 0; j < r.Intn(3); j++ {
			w.localOp(xd) // issued before the first sync: part of the creation, void for a subscription
		}
		firstReq = X.BuildRequest()
		w.ledger.Offer(firstReq)
		ex := X.Send(firstReq)
		if ex.Out.Err != nil || ex.Out.Panic != "" || ex.Out.TimedOut {
			return c.Inconclusive("setup request failed")
		}
		w.idle()
		if rep%2 == 1 {
			// the response of the entry request is lost; the client retries
			c.Step("X's first response is lost; X retries")
			if res := mustSync(X); res != nil {
				return res
			}
		} else {
			X.Apply(ex.Resp)
			w.idle()
		}
		if xd.DT.GetState() != model.StateOfDatatype_SUBSCRIBED {
			return c.Violation("entry-not-completed", "%s of a new client did not end in SUBSCRIBED (lost first response: %v)", mode, rep%2 == 1)
		}
		if dd := w.b.Datatype(w.colNum, key); dd != nil {
			want, err := w.replayView(typ, w.b.Ops(dd.DUID), 0)
			if err == nil && xd.View() != want {
				return c.Violation("entry-state", "after %s (first response lost: %v) the client reads %s, the stored log replays to %s", mode, rep%2 == 1, clip(xd.View(), 400), clip(want, 400))
			}
		}
		if point != "fresh" {
			for j := 0; j < 2+r.Intn(4); j++ {
				w.localOp(xd)
			}
			if res := mustSync(X); res != nil {
				return res
			}
		}
	}
	if point == "after-snapshot" && existType != "" {
		dd := w.b.Datatype(w.colNum, key)
		if dd != nil && len(w.b.Snapshots(dd.DUID)) == 0 {
			c.Count("cells_without_snapshot_despite_request", 1)
		}
	}
	// ---- the entering clients
	exists := existType != ""
	sameType := existType == typ
	expectOK := func(existsNow, same bool) bool {
		switch mode {
		case bed.Create:
			return !existsNow
		case bed.Subscribe:
			return existsNow && same
		default:
			return !existsNow || same
		}
	}
	var entries []*c13entry
	var earlyOpen *core.Result
	enter := func(alias string) *c13entry {
		cl := newClient(alias)
		d := cl.Open(key, typ, mode)
		cl.Register()
		if d != nil && r.Intn(3) == 0 {
			// the key is opened again BEFORE the first sync of this client: same type => the
			// instance it already holds; another type => refused through the given handler
			nerr := 0
			var hmu sync.Mutex
			h2 := orda.NewHandlers(nil, nil, func(dt orda.Datatype, errs ...oerrors.OrdaError) {
				hmu.Lock()
				nerr += len(errs)
				hmu.Unlock()
			})
			ot := otherType(typ, r)
			var again, other orda.Datatype
			pm := safely(func() {
				again = bed.OpenRaw(cl.Cli, key, typ, mode, h2)
				other = bed.OpenRaw(cl.Cli, key, ot, c13Modes[r.Intn(3)], h2)
			})
			c.Step("%s opens key %s again before its first sync (same type, then as %s)", alias, key, ot)
			hmu.Lock()
			n := nerr
			hmu.Unlock()
			for t := 0; t < 100 && n == 0 && pm == "" && bed.IsNilDatatype(other); t++ {
				time.Sleep(10 * time.Millisecond) // a report that is due is awaited for a bounded time
				hmu.Lock()
				n = nerr
				hmu.Unlock()
			}
			switch {
			case pm != "":
				earlyOpen = c.Violation("client-panic", "opening key %q a second time before the first sync panicked: %s", key, pm)
			case bed.IsNilDatatype(again):
				earlyOpen = c.Violation("second-open-same-type", "opening a %s again before the first sync returned nothing", typ)
			case func() bool { aw, ok := again.(iface.Datatype); return !ok || aw.GetDUID() != d.W.GetDUID() }():
				earlyOpen = c.Violation("second-open-same-type", "opening a %s again before the first sync returned another instance than the one the client holds", typ)
			case !bed.IsNilDatatype(other) || n == 0:
				earlyOpen = c.Violation("second-open-other-type", "the client holds key %q as %s (not yet synced); opening it as %s returned a datatype: %v, errors delivered to the given handler: %d", key, typ, ot, !bed.IsNilDatatype(other), n)
			default:
				c.Count("second_opens_before_first_sync", 1)
			}
		}
		// operations issued before the first sync (discarded if the entry becomes a subscribe)
		if d != nil && r.Intn(2) == 0 {
			w.localOp(d)
		}
		return &c13entry{cl: cl, d: d}
	}
	doSync := func(e *c13entry, diff bool) {
		req := e.cl.BuildRequest()
		w.ledger.Offer(req)
		if diff {
			e.before = w.b.DB.Flat(true)
		}
		e.ex = e.cl.Send(req)
		if e.ex.Out.Err == nil && e.ex.Out.Panic == "" && !e.ex.Out.TimedOut {
			e.pm = e.cl.Apply(e.ex.Resp)
		}
	}
	judge := func(e *c13entry, ok bool, checkDiff bool) *core.Result {
		if e.ex.Out.Panic != "" {
			return c.Violation("server-panic", "ProcessPushPull panicked: %s", e.ex.Out.Panic)
		}
		if e.ex.Out.TimedOut {
			if e.ex.Out.Hang {
				return c.Violation("request-hang", "the entry request never returned\n%s", clipDump(e.ex.Out.Dump))
			}
			return c.Inconclusive("request watchdog")
		}
		if e.pm != "" {
			return c.Violation("client-panic", "ApplyPushPullPack panicked: %s", e.pm)
		}
		if !w.idle() {
			return c.Inconclusive("idle")
		}
		if f := e.d.TransitionFault(); f != "" {
			return c.Violation("false-state-report", "%s of a %s: %s", mode, typ, f)
		}
		errs, trs, _ := e.d.Handler()
		errs = errs[e.errBase:]
		nSub := 0
		for _, t := range trs {
			if t.New == model.StateOfDatatype_SUBSCRIBED {
				nSub++
			}
		}
		state := e.d.DT.GetState()
		if ok {
			if e.ex.Refused() || len(errs) > 0 {
				return c.Violation("legal-entry-refused", "%s of a %s on key state (exists=%v sameType=%v) was refused: rpc=%v errors=%v", mode, typ, exists, sameType, e.ex.Out.Err, errs)
			}
			if state != model.StateOfDatatype_SUBSCRIBED {
				return c.Violation("not-subscribed", "after a successful %s the datatype is in state %v", mode, state)
			}
			if nSub != 1 {
				return c.Violation("subscribed-reported-times", "the state-change handler reported the transition to SUBSCRIBED %d times", nSub)
			}
			// first readable state = replay of the log up to the response checkpoint
			if p := e.ex.PackOf(key); p != nil && p.CheckPoint != nil {
				dd := w.b.Datatype(w.colNum, key)
				if dd == nil {
					return c.Violation("no-datatype-doc", "successful entry but no datatype document stored")
				}
				if dd.DUID != e.d.W.GetDUID() {
					return c.Violation("duid-mismatch", "the client uses DUID %s, the stored datatype has %s", e.d.W.GetDUID(), dd.DUID)
				}
				want, err := w.replayView(typ, w.b.Ops(dd.DUID), p.CheckPoint.Sseq)
				if err != nil {
					return c.Violation("replay-error", "%v", err)
				}
				if got := e.d.View(); got != want {
					return c.Violation("first-state", "after %s the client reads %s, the datatype's state at log position %d is %s", mode, clip(got, 400), p.CheckPoint.Sseq, clip(want, 400))
				}
				c.Count("first_states_compared", 1)
			}
			return nil
		}
		// must be refused
		if !e.ex.Refused() {
			return c.Violation("illegal-entry-accepted", "%s of a %s on key state (exists=%v sameType=%v) was accepted by the server (response option %#x)", mode, typ, exists, sameType, e.ex.PackOf(key).GetOption())
		}
		for t := 0; t < 100 && e.ex.Out.Err == nil && len(errs) == 0; t++ {
			// the handler may be called from a goroutine of the client: a report that is due is
			// awaited for a bounded time (1 s) before its absence is a finding
			time.Sleep(10 * time.Millisecond)
			errs, _, _ = e.d.Handler()
			errs = errs[e.errBase:]
		}
		if e.ex.Out.Err == nil && len(errs) == 0 {
			return c.Violation("error-not-delivered", "the server refused the %s but the client's error handler was not called", mode)
		}
		if nSub != 0 || state == model.StateOfDatatype_SUBSCRIBED {
			return c.Violation("subscribed-after-refusal", "the entry was refused but the datatype reports SUBSCRIBED")
		}
		if checkDiff {
			e.after = w.b.DB.Flat(true)
			if d := fakemongoDiff(e.before, e.after); len(d) > 0 {
				return c.Violation("refused-but-changed", "the refused %s changed stored data: %v", mode, d)
			}
			c.Count("refusals_with_empty_diff", 1)
		}
		return nil
	}
	// abortedFirst: the entry request of e is aborted by the server - one database command of
	// its handler fails - before e enters for real. The abort must be an answer that the
	// client reports through its error handler, without becoming SUBSCRIBED and (when the
	// failed command is a read) without any stored change; the retry is then judged as usual.
	abortedFirst := func(e *c13entry) *core.Result {
		// the fault point is named by kind (read / write) and collection, not by the command a
		// particular version of the repository layer happens to use for it
		points := [][2]string{{"find", "-_-Datatypes"}, {"find", "-_-Datatypes"}, {"update", "-_-Datatypes"}, {"insert", "-_-Operations"}, {"find", "-_-Operations"}}
		pt := points[r.Intn(len(points))]
		var mu sync.Mutex
		hit := false
		w.b.DB.SetPlan(func(cmd *fakemongo.Cmd) fakemongo.Action {
			mu.Lock()
			defer mu.Unlock()
			if !hit && cmd.Coll == pt[1] && cmd.IsData() && isWrite(cmd.Name) == (pt[0] != "find") {
				hit = true
				return fakemongo.Action{Fail: true}
			}
			return fakemongo.Action{}
		})
		c.Step("%s's entry request meets a failing %s %s", e.cl.Alias, pt[0], pt[1])
		doSync(e, true)
		w.b.DB.SetPlan(nil)
		mu.Lock()
		wasHit := hit
		mu.Unlock()
		if e.ex.Out.Panic != "" {
			return c.Violation("server-panic", "ProcessPushPull panicked when %s %s failed: %s", pt[0], pt[1], e.ex.Out.Panic)
		}
		if e.ex.Out.TimedOut {
			if e.ex.Out.Hang {
				return c.Violation("request-hang", "the entry request never returned when %s %s failed\n%s", pt[0], pt[1], clipDump(e.ex.Out.Dump))
			}
			return c.Inconclusive("request watchdog")
		}
		if e.pm != "" {
			return c.Violation("client-panic", "ApplyPushPullPack panicked on the answer to an aborted entry: %s", e.pm)
		}
		if !w.idle() {
			return c.Inconclusive("idle")
		}
		errs, trs, _ := e.d.Handler()
		if !wasHit {
			// the request was decided before reaching that command (e.g. refused earlier)
			c.Count("aborted_entry_fault_not_reached", 1)
			e.errBase = len(errs)
			return nil
		}
		c.Count("aborted_entries", 1)
		e.torn = pt[0] != "find"
		if !e.ex.Refused() {
			// a failed read of the log tail of an entry that pulls nothing can be harmless
			c.Count("aborted_entry_answered_without_error", 1)
			e.errBase = len(errs)
			return nil
		}
		if e.ex.Out.Err == nil && len(errs) == 0 {
			return c.Violation("abort-not-delivered", "the server aborted the %s (failing %s %s, error pack) but the client's error handler was not called", mode, pt[0], pt[1])
		}
		for _, t := range trs {
			if t.New == model.StateOfDatatype_SUBSCRIBED {
				return c.Violation("subscribed-after-abort", "the server aborted the %s (failing %s %s) but the client's state-change handler reported SUBSCRIBED", mode, pt[0], pt[1])
			}
		}
		if e.d.DT.GetState() == model.StateOfDatatype_SUBSCRIBED {
			return c.Violation("subscribed-after-abort", "the server aborted the %s (failing %s %s) but the datatype is in state SUBSCRIBED", mode, pt[0], pt[1])
		}
		if pt[0] == "find" { // a read
			if d := fakemongoDiff(e.before, w.b.DB.Flat(true)); len(d) > 0 {
				return c.Violation("aborted-but-changed", "the aborted %s (failing %s %s) changed stored data: %v", mode, pt[0], pt[1], d)
			}
		}
		e.errBase = len(errs)
		return nil
	}
	_ = earlyOpen
	switch {
	case existing == "self-subscribed":
		// re-send X's original entry request (bits set) while other clients are absent / first / racing
		if other == "sequentially-first" {
			y := enter("Y")
			doSync(y, false)
			w.idle()
		}
		ex := X.Send(firstReq)
		if ex.Out.Panic != "" {
			return c.Violation("server-panic", "replayed entry request panicked: %s", ex.Out.Panic)
		}
		if ex.Out.TimedOut {
			if ex.Out.Hang {
				return c.Violation("request-hang", "replayed entry request never returned\n%s", clipDump(ex.Out.Dump))
			}
			return c.Inconclusive("watchdog")
		}
		if !w.idle() {
			return c.Inconclusive("idle")
		}
		if sig, msg := w.b.CheckLog(w.ledger, ""); sig != "" {
			return c.Violation("resent:"+sig, "%s", msg)
		}
		if res := mustSync(X); res != nil {
			return res
		}
		// the same client id enters the key AGAIN with a new instance (new DUID, creation
		// snapshot operation, the mode's option bits) - what a second instance of client X would
		// send. For create the statement is explicit: the key exists, so the request is refused
		// and nothing stored changes.
		// For every mode the statement is explicit about another type: refused, nothing changes -
		// also when the asking client id is recorded as a subscriber of the key's datatype.
		zt, zm := typ, mode
		if mode != bed.Create || r.Intn(2) == 0 {
			zt, zm = otherType(typ, r), c13Modes[r.Intn(3)]
		}
		{
			z := w.b.NewClient("colA", "X-again")
			zd := z.Open(key, zt, zm)
			if zd != nil {
				if r.Intn(2) == 0 {
					w.localOp(zd)
				}
				req := z.BuildRequest()
				req.Cuid = X.Model.CUID
				for _, p := range req.PushPullPacks {
					for _, o := range p.Operations {
						if o.ID != nil {
							o.ID.CUID = X.Model.CUID
						}
					}
				}
				c.Step("client X sends a second entry (%s, as %s) for key %s with a new DUID", zm, zt, key)
				before := w.b.DB.Flat(true)
				ex2 := X.Send(req)
				if ex2.Out.Panic != "" {
					return c.Violation("server-panic", "second entry request panicked: %s", ex2.Out.Panic)
				}
				if ex2.Out.TimedOut {
					if ex2.Out.Hang {
						return c.Violation("request-hang", "second entry request never returned\n%s", clipDump(ex2.Out.Dump))
					}
					return c.Inconclusive("watchdog")
				}
				if !w.idle() {
					return c.Inconclusive("idle")
				}
				if !ex2.Refused() {
					return c.Violation("illegal-entry-accepted", "a second entry (%s as %s, new DUID) to key %q by a client that is already subscribed to it as %s was accepted by the server (response option %#x)", zm, zt, key, typ, ex2.PackOf(key).GetOption())
				}
				if d := fakemongoDiff(before, w.b.DB.Flat(true)); len(d) > 0 {
					return c.Violation("refused-but-changed", "the refused second entry (%s as %s) changed stored data: %v", zm, zt, d)
				}
				if zt == typ {
					c.Count("second_create_by_subscribed_client_refused", 1)
				} else {
					c.Count("other_type_entry_by_subscribed_client_refused", 1)
				}
				if res := mustSync(X); res != nil {
					return res
				}
			}
		}
	case other == "absent":
		e := enter("X")
		if rep%2 == 1 {
			if res := abortedFirst(e); res != nil {
				return res
			}
		}
		doSync(e, true)
		if e.torn && expectOK(exists, sameType) && e.ex.Out.Err == nil && e.ex.Refused() {
			// after a commit that was cut between its writes the first retry may still be
			// refused while the server clears the leftovers (DESIGN §11, C08c); the next one counts
			c.Count("entry_retried_once_more_after_torn_commit", 1)
			errs, _, _ := e.d.Handler()
			e.errBase = len(errs)
			doSync(e, true)
		}
		if res := judge(e, expectOK(exists, sameType), true); res != nil {
			return res
		}
		if rep%4 >= 2 && expectOK(exists, sameType) && e.ex.Resp != nil {
			// the entry response reaches the client a second time (duplicated on the way): the
			// client must still hold the datatype's state at the position it subscribed at, and
			// must not report the transition to SUBSCRIBED again
			viewBefore := e.d.View()
			c.Step("%s receives its entry response a second time", e.cl.Alias)
			if pm := e.cl.Apply(e.ex.Resp); pm != "" {
				return c.Violation("client-panic", "ApplyPushPullPack panicked on the second delivery of the entry response: %s", pm)
			}
			if !w.idle() {
				return c.Inconclusive("idle")
			}
			if v := e.d.View(); v != viewBefore {
				return c.Violation("first-state-after-duplicate-response", "after %s the client read %s; after the same entry response was delivered a second time it reads %s", mode, clip(viewBefore, 400), clip(v, 400))
			}
			_, trs, _ := e.d.Handler()
			n := 0
			for _, t := range trs {
				if t.New == model.StateOfDatatype_SUBSCRIBED {
					n++
				}
			}
			if n != 1 {
				return c.Violation("subscribed-reported-times", "after a duplicated entry response the state-change handler has reported the transition to SUBSCRIBED %d times", n)
			}
			c.Count("entry_responses_delivered_twice", 1)
		}
		entries = append(entries, e)
	case other == "sequentially-first":
		y := enter("Y")
		doSync(y, true)
		yOK := expectOK(exists, sameType)
		if res := judge(y, yOK, true); res != nil {
			return res
		}
		existsNow := exists || yOK
		same := sameType
		if !exists && yOK {
			same = true
		}
		e := enter("X")
		if rep%2 == 1 {
			if res := abortedFirst(e); res != nil {
				return res
			}
		}
		doSync(e, true)
		if e.torn && expectOK(existsNow, same) && e.ex.Out.Err == nil && e.ex.Refused() {
			c.Count("entry_retried_once_more_after_torn_commit", 1)
			errs, _, _ := e.d.Handler()
			e.errBase = len(errs)
			doSync(e, true)
		}
		if res := judge(e, expectOK(existsNow, same), true); res != nil {
			return res
		}
		entries = append(entries, y, e)
	default: // racing
		n := 2 + r.Intn(4)
		for j := 0; j < n; j++ {
			entries = append(entries, enter(fmt.Sprintf("R%d", j)))
		}
		// in half of the racing cells the racers do not start at the same moment but within a
		// few milliseconds of each other: one arrives while another is inside and a third waits
		stagger := make([]time.Duration, len(entries))
		if r.Intn(2) == 0 {
			for j := range stagger {
				stagger[j] = time.Duration(r.Intn(4000)) * time.Microsecond
			}
			c.Count("racing_cells_with_staggered_arrivals", 1)
		}
		var wg sync.WaitGroup
		for j, e := range entries {
			wg.Add(1)
			go func(e *c13entry, d time.Duration) {
				defer wg.Done()
				if d > 0 {
					time.Sleep(d)
				}
				doSync(e, false)
			}(e, stagger[j])
		}
		wg.Wait()
		if !w.idle() {
			return c.Inconclusive("idle")
		}
		okCount := 0
		for _, e := range entries {
			if e.ex.Out.Panic != "" {
				return c.Violation("server-panic", "ProcessPushPull panicked: %s", e.ex.Out.Panic)
			}
			if e.ex.Out.TimedOut {
				if e.ex.Out.Hang {
					return c.Violation("request-hang", "a racing entry request never returned\n%s", clipDump(e.ex.Out.Dump))
				}
				return c.Inconclusive("watchdog")
			}
			if e.pm != "" {
				return c.Violation("client-panic", "ApplyPushPullPack panicked: %s", e.pm)
			}
			if !e.ex.Refused() && e.d.DT.GetState() == model.StateOfDatatype_SUBSCRIBED {
				okCount++
			}
		}
		// outcomes consistent with some serial order
		wantOK := 0
		switch {
		case mode == bed.Create && !exists:
			wantOK = 1
		case mode == bed.Create:
			wantOK = 0
		case mode == bed.Subscribe && exists && sameType:
			wantOK = n
		case mode == bed.Subscribe:
			wantOK = 0
		case !exists || sameType:
			wantOK = n
		}
		if wantOK == n && okCount < n {
			// every racer's entry is legal: one that lost the race with a refusal it may retry
			// (the statement promises one datatype and serial-order outcomes, not that nobody
			// ever has to ask twice) asks again, alone
			for _, e := range entries {
				if e.d.DT.GetState() == model.StateOfDatatype_SUBSCRIBED {
					continue
				}
				c.Count("racing_entries_retried", 1)
				doSync(e, false)
				if !w.idle() {
					return c.Inconclusive("idle")
				}
				if e.ex.Out.Panic != "" {
					return c.Violation("server-panic", "ProcessPushPull panicked: %s", e.ex.Out.Panic)
				}
				if e.ex.Out.Err == nil && !e.ex.Out.TimedOut && !e.ex.Refused() && e.d.DT.GetState() == model.StateOfDatatype_SUBSCRIBED {
					okCount++
				}
			}
		}
		if okCount != wantOK {
			return c.Violation("race-outcome", "%d racing %s requests (exists=%v sameType=%v): %d succeeded, a serial order gives %d", n, mode, exists, sameType, okCount, wantOK)
		}
		c.Count("racing_entries", int64(n))
	}
	if earlyOpen != nil {
		return earlyOpen
	}
	// the same key opened AGAIN on a client that holds it: with the same type the client gets
	// the instance it has (no second entry), with another type the open is refused through the
	// given error handler, and neither changes what the client or the server hold
	for _, e := range entries {
		if e.d == nil || e.d.DT.GetState() != model.StateOfDatatype_SUBSCRIBED {
			continue
		}
		var hmu sync.Mutex
		nerr := 0
		h2 := orda.NewHandlers(nil, nil, func(dt orda.Datatype, errs ...oerrors.OrdaError) {
			hmu.Lock()
			nerr += len(errs)
			hmu.Unlock()
		})
		viewBefore := e.d.View()
		dtDocs := func() string {
			var l []string
			for _, dd := range w.b.Datatypes() {
				l = append(l, fmt.Sprintf("%s/%s/%s/%d", dd.DUID, dd.Key, dd.Type, dd.CollectionNum))
			}
			sort.Strings(l)
			return strings.Join(l, " ")
		}
		before := dtDocs()
		var again, other orda.Datatype
		ot := otherType(typ, r)
		if pm := safely(func() {
			again = bed.OpenRaw(e.cl.Cli, key, typ, mode, h2)
			other = bed.OpenRaw(e.cl.Cli, key, ot, c13Modes[r.Intn(3)], h2)
		}); pm != "" {
			return c.Violation("client-panic", "opening key %q a second time on the same client panicked: %s", key, pm)
		}
		c.Step("%s opens key %s again (same type, then as %s)", e.cl.Alias, key, ot)
		if bed.IsNilDatatype(again) {
			return c.Violation("second-open-same-type", "opening a %s that the client already holds returned nothing", typ)
		}
		if aw, ok := again.(iface.Datatype); !ok || aw.GetDUID() != e.d.W.GetDUID() {
			return c.Violation("second-open-same-type", "opening a %s that the client already holds returned another instance", typ)
		}
		hmu.Lock()
		n := nerr
		hmu.Unlock()
		if !bed.IsNilDatatype(other) || n == 0 {
			return c.Violation("second-open-other-type", "the client holds key %q as %s; opening it as %s returned a datatype: %v, errors delivered to the given handler: %d", key, typ, ot, !bed.IsNilDatatype(other), n)
		}
		if res := mustSync(e.cl); res != nil {
			return res
		}
		if v := e.d.View(); v != viewBefore {
			return c.Violation("second-open-changed-state", "opening key %q again changed what the client reads: %s -> %s", key, clip(viewBefore, 300), clip(v, 300))
		}
		if after := dtDocs(); after != before {
			return c.Violation("second-open-changed-store", "opening key %q again on a subscribed client and syncing changed the stored datatypes: %s -> %s", key, before, after)
		}
		c.Count("second_opens_checked", 1)
		break
	}
	// exactly one datatype document per (collection, key)
	nDocs := 0
	for _, dd := range w.b.Datatypes() {
		if dd.CollectionNum == w.colNum && dd.Key == key {
			nDocs++
		}
	}
	if nDocs > 1 {
		return c.Violation("several-datatype-docs", "%d datatype documents exist for key %q", nDocs, key)
	}
	if sig, msg := w.b.CheckLog(w.ledger, ""); sig != "" {
		return c.Violation(sig, "%s", msg)
	}
	// everybody who is subscribed converges
	ok, sig, msg := w.settle(6)
	if sig != "" {
		return verdict(c, "", sig, msg)
	}
	if ok {
		if sig, msg := w.finalAgreement(); sig != "" {
			return c.Violation(sig, "%s", msg)
		}
	}
	if r.Intn(3) == 0 {
		if res := c13BrokerFault(c, w, key, typ); res != nil {
			return res
		}
	}
	return c.Held()
}

// c13BrokerFault: one more subscriber enters the key, a REALTIME client of the SDK (real grpc,
// real MQTT client) for which the notification broker has become unreachable after it
// connected. Subscribing its notification topic fails then; whatever the SDK makes of that
// failure, the statement about a new subscriber holds: SUBSCRIBED is reported once and the first
// readable state is the state of the log. What the broker fault itself causes (an entry that
// does not complete) is counted, not judged.
func c13BrokerFault(c *core.Case, w *svcWorld, key, typ string) *core.Result {
	var ref *bed.DT
	for _, cl := range w.cls {
		for _, d := range cl.DTs {
			if d.Key == key && d.Typ == typ && d.DT.GetState() == model.StateOfDatatype_SUBSCRIBED {
				ref = d
			}
		}
	}
	if ref == nil {
		return nil
	}
	front, err := w.b.Front()
	if err != nil {
		return nil
	}
	known := map[string]bool{}
	for _, id := range w.b.MQ.ClientIDs() {
		known[id] = true
	}
	cli := w.b.NewSDKClient(front, "colA", "rtfault", model.SyncType_REALTIME)
	out := bed.Guard(10e9, func(ctx context.Context) error { return cli.Connect() })
	if out.Err != nil || out.TimedOut || out.Panic != "" {
		c.Count("diag_broker_fault_client_did_not_connect", 1)
		return nil
	}
	defer func() {
		closed := make(chan struct{})
		go func() {
			defer close(closed)
			defer func() { recover() }()
			cli.Close()
		}()
		select {
		case <-closed:
		case <-time.After(3 * time.Second):
		}
	}()
	id := ""
	for t := 0; t < 200 && id == ""; t++ {
		for _, x := range w.b.MQ.ClientIDs() {
			if !known[x] {
				id = x
			}
		}
		if id == "" {
			time.Sleep(5 * time.Millisecond)
		}
	}
	if id == "" {
		c.Count("diag_broker_fault_client_not_seen_by_broker", 1)
		return nil
	}
	w.b.MQ.Refuse(id)
	time.Sleep(100 * time.Millisecond) // the client's MQTT layer notices the cut connection
	mode := []string{bed.Subscribe, bed.SubscribeOrCreate}[c.Rng.Intn(2)]
	c.Step("the notification broker is unreachable for the REALTIME client rtfault, which now enters key %s by %s", key, mode)
	bc := &bed.Client{B: w.b, Col: "colA", Alias: "rtfault", Cli: cli, SDK: true}
	var d *bed.DT
	if pm := safely(func() { d = bc.Open(key, typ, mode) }); pm != "" {
		return c.Violation("client-panic", "entering key %q while the notification broker is unreachable panicked: %s", key, pm)
	}
	if d == nil {
		c.Count("diag_broker_fault_open_returned_nothing", 1)
		return nil
	}
	nSub := func() int {
		_, tr, _ := d.Handler()
		n := 0
		for _, t := range tr {
			if t.New == model.StateOfDatatype_SUBSCRIBED {
				n++
			}
		}
		return n
	}
	for t := 0; t < 500 && nSub() == 0; t++ {
		time.Sleep(10 * time.Millisecond)
	}
	if nSub() == 0 {
		c.Count("diag_broker_fault_entry_not_completed", 1)
		return nil
	}
	for t := 0; t < 100; t++ { // a report that is due is awaited for a bounded time
		if errs, _, _ := d.Handler(); len(errs) > 0 {
			break
		}
		time.Sleep(10 * time.Millisecond)
	}
	if errs, _, _ := d.Handler(); len(errs) > 0 {
		c.Count("entries_whose_topic_subscription_failed", 1)
	} else {
		c.Count("diag_broker_fault_without_error_report", 1)
	}
	w.idle()
	want, rerr := w.replayView(typ, w.b.Ops(ref.W.GetDUID()), 0)
	if rerr == nil {
		if got := d.View(); got != want {
			return c.Violation("entry-state", "a REALTIME client entered %s by %s while the notification broker was unreachable for it: it reports SUBSCRIBED and reads %s, the stored log replays to %s", typ, mode, clip(got, 400), clip(want, 400))
		}
	}
	if n := nSub(); n != 1 {
		return c.Violation("subscribed-reported-times", "a REALTIME client whose notification broker is unreachable was told %d times that it became SUBSCRIBED", n)
	}
	c.Count("entries_with_unreachable_notification_broker", 1)
	return nil
}

func fakemongoDiff(a, b map[string]string) []string {
	var out []string
	for k, v := range b {
		if o, ok := a[k]; !ok {
			out = append(out, "created "+k)
		} else if o != v {
			out = append(out, "changed "+k)
		}
	}
	for k := range a {
		if _, ok := b[k]; !ok {
			out = append(out, "deleted "+k)
		}
	}
	return out
}
