package props

// C16, a request that arrives while the server shuts down: the repository's server binary runs
// as a child process; one push-pull is held at a database command by the stand-in, the process
// is told to stop (SIGTERM: graceful stop waits for the held request), and a REST request
// arrives meanwhile. It must be answered - any status, any error - while the shutdown is still
// pending; a request that stays open until the process is gone is a hang.

import (
	"bytes"
	"fmt"
	"io"
	"net/http"
	"os"
	"path/filepath"
	"strings"
	"sync"
	"syscall"
	"time"

	"github.com/orda-io/orda/client/pkg/model"
	"vh/bed"
	"vh/core"
	"vh/fakemongo"
)

func c16Shutdown(c *core.Case) *core.Result {
	w, err := newSvcWorld(c, "colA")
	if err != nil {
		return c.Inconclusive("test bed did not start: %v", err)
	}
	defer w.close()
	w.b.Taint()
	key := fmt.Sprintf("sd%d", c.Index)
	w.ledger.SkipKeys[key] = true
	proc, err := w.b.StartProc(filepath.Join(core.OutDir, "work", fmt.Sprintf("c16sd-%d", c.Index)), 0, 0)
	if err != nil {
		return c.Inconclusive("child server did not start: %v", err)
	}
	defer proc.Kill()
	front, err := w.b.Front()
	if err != nil {
		return c.Inconclusive("grpc front: %v", err)
	}
	front.SetBackend(func() model.OrdaServiceClient { return proc.Client() })
	defer front.SetBackend(nil)
	if err := w.useSDK(); err != nil {
		return c.Inconclusive("%v", err)
	}
	cl, err := w.b.NewSDKBedClient("colA", "author")
	if err != nil {
		return c.Inconclusive("SDK client: %v", err)
	}
	w.cls = append(w.cls, cl)
	d := cl.Open(key, "doc", bed.Create)
	w.localOp(d)
	if _, sig, msg := w.sync(cl); sig != "" {
		return verdict(c, "shutdown:setup:", sig, msg)
	}
	if !dbQuiet(w.b, 10*time.Second) {
		return c.Inconclusive("the child's database traffic did not stop")
	}
	// hold the next push at its first write
	gate := make(chan struct{})
	reached := make(chan struct{})
	var mu sync.Mutex
	hit := false
	w.b.DB.SetPlan(func(cmd *fakemongo.Cmd) fakemongo.Action {
		mu.Lock()
		defer mu.Unlock()
		if !hit && cmd.Name == "insert" && cmd.Coll == "-_-Operations" {
			hit = true
			return fakemongo.Action{GateBefore: gate, OnReached: func() { close(reached) }}
		}
		return fakemongo.Action{}
	})
	released := false
	release := func() {
		if !released {
			released = true
			close(gate)
		}
	}
	defer func() { release(); w.b.DB.SetPlan(nil) }()
	for i := 0; i < 20 && len(d.W.CreatePushPullPack().Operations) == 0; i++ {
		w.localOp(d) // until something is pending (a generated call may be refused locally)
	}
	if len(d.W.CreatePushPullPack().Operations) == 0 {
		return c.Inconclusive("no local operation was accepted")
	}
	pushDone := make(chan struct{})
	go func() {
		defer close(pushDone)
		w.sync(cl)
	}()
	select {
	case <-reached:
	case <-time.After(15 * time.Second):
		return c.Inconclusive("the push did not reach its database write")
	}
	c.Step("a push-pull is held at its database write; the server process receives SIGTERM")
	proc.Signal(syscall.SIGTERM)
	// logical evidence that the shutdown has begun: the child's own log line
	began := false
	for i := 0; i < 200 && !began; i++ {
		if lb, _ := os.ReadFile(proc.Log); strings.Contains(string(lb), "gracefully shutdown server") {
			began = true
			break
		}
		select {
		case <-proc.Done():
			return c.Inconclusive("the child ended before its graceful stop was observed")
		case <-time.After(25 * time.Millisecond):
		}
	}
	if !began {
		return c.Inconclusive("the child did not log the beginning of its graceful stop")
	}
	url := fmt.Sprintf("http://127.0.0.1:%d/api/v1/collections/colA/documents/%s-other", proc.RESTPort, key) // another key than the held one: no wait for its lock is involved
	c.Step("HTTP POST %s while the shutdown waits for the held request", url)
	type answer struct {
		code int
		err  error
	}
	ans := make(chan answer, 1)
	go func() {
		httpc := &http.Client{Timeout: 60 * time.Second}
		resp, err := httpc.Post(url, "application/json", bytes.NewReader([]byte(`{"json":"{\"a\":1}"}`)))
		if err != nil {
			ans <- answer{0, err}
			return
		}
		io.Copy(io.Discard, resp.Body)
		resp.Body.Close()
		ans <- answer{resp.StatusCode, nil}
	}()
	select {
	case a := <-ans:
		c.Step("answered: status %d error %v", a.code, a.err)
		c.Count("rest_requests_answered_during_shutdown", 1)
	case <-proc.Done():
		return c.Inconclusive("the child ended while the REST request was open (the held request did not keep the shutdown pending)")
	case <-time.After(8 * time.Second):
		// the shutdown is still pending (the gate is held, the process lives): nothing has
		// answered the request for 8 s
		return c.Violation("no-answer:rest-during-shutdown", "a REST request that arrived while the server was shutting down gracefully (one push-pull still in progress) was not answered within 8 s although the process was alive the whole time: it stays open until the process is gone")
	}
	release()
	select {
	case <-pushDone:
	case <-time.After(20 * time.Second):
		return c.Inconclusive("the held push did not return after its release")
	}
	select {
	case <-proc.Done():
		c.Count("graceful_stops_completed", 1)
	case <-time.After(15 * time.Second):
		c.Count("graceful_stops_not_completed_in_15s", 1)
	}
	c.NonTrivial()
	return c.Held()
}
