package props

import (
	"encoding/json"
	"fmt"
	"math/rand"
	"runtime"
	"strconv"
	"strings"
	"time"

	"github.com/orda-io/orda/client/pkg/model"
	"github.com/orda-io/orda/client/pkg/orda"
	"github.com/wI2L/jsondiff"
	"vh/core"
	"vh/crdt"
)

var patchKeys = []string{"a", "b", "c", "k0", "k1", "x/y", "~", "~0", "~1", "a~b", "m/n/o", "", "0", "1", "12", "-", "ü", " sp", "q\"q", "~01", "/lead", "trail/"}

var c19Numbers = []float64{0, -1, 2147483647, 2147483648, -2147483649, 4294967296, 9007199254740991, 9007199254740992, 9007199254740994,
	9223372036854775807, -9223372036854775808, 18446744073709551615, 1e21, -1e21, 1.7976931348623157e308, 5e-324, 1e-7, 0.1, 123456789.12345679}

// genJSON generates a JSON value without nulls. top: objects only.
func genJSON(r *rand.Rand, depth int, g *crdt.Gen) interface{} {
	k := r.Intn(10)
	switch {
	case depth >= 4 || k < 4:
		switch r.Intn(4) {
		case 0:
			return float64(r.Intn(1000))
		case 1:
			return r.Intn(2) == 0
		case 2:
			if r.Intn(4) == 0 {
				// numbers at the edges of the integer and float ranges (every JSON number is a
				// float64 for the document): a target is a target whatever its magnitude
				return c19Numbers[r.Intn(len(c19Numbers))]
			}
			return float64(r.Intn(100)) + 0.25
		}
		return g.Tag()
	case k < 7:
		return genObject(r, depth, g)
	default:
		n := r.Intn(4)
		a := make([]interface{}, 0, n)
		for i := 0; i < n; i++ {
			if r.Intn(3) == 0 {
				a = append(a, genObject(r, depth+1, g))
			} else {
				a = append(a, genJSON(r, depth+2, g))
			}
		}
		return a
	}
}

func genObject(r *rand.Rand, depth int, g *crdt.Gen) map[string]interface{} {
	m := map[string]interface{}{}
	n := r.Intn(4)
	if depth == 0 {
		n = 1 + r.Intn(4)
	}
	for i := 0; i < n; i++ {
		m[patchKeys[r.Intn(len(patchKeys))]] = genJSON(r, depth+1, g)
	}
	return m
}

// mutateJSON derives a target from a current value: type changes at a path, array growth /
// shrink / permutation, key additions and removals.
func mutateJSON(r *rand.Rand, v interface{}, depth int, g *crdt.Gen) interface{} {
	if depth == 0 && r.Intn(8) == 0 {
		// the target differs from the current value ONLY in the order of one array
		if t, ok := permuteOneArray(r, crdt.Norm(v)); ok {
			return t
		}
	}
	switch x := v.(type) {
	case map[string]interface{}:
		out := map[string]interface{}{}
		for k, c := range x {
			switch r.Intn(6) {
			case 0: // remove
			case 1: // replace with another type
				out[k] = genJSON(r, depth+1, g)
			case 2, 3:
				out[k] = mutateJSON(r, c, depth+1, g)
			default:
				out[k] = crdt.Norm(c)
			}
		}
		for i := r.Intn(3); i > 0; i-- {
			out[patchKeys[r.Intn(len(patchKeys))]] = genJSON(r, depth+1, g)
		}
		if depth == 0 && len(out) == 0 && r.Intn(3) > 0 {
			out["a"] = g.Tag()
		}
		return out
	case []interface{}:
		out := make([]interface{}, 0, len(x)+2)
		for _, c := range x {
			switch r.Intn(6) {
			case 0:
			case 1:
				out = append(out, genJSON(r, depth+2, g))
			case 2:
				out = append(out, mutateJSON(r, c, depth+1, g))
			default:
				out = append(out, crdt.Norm(c))
			}
		}
		for i := r.Intn(3); i > 0; i-- {
			out = append(out, genJSON(r, depth+2, g))
		}
		if r.Intn(4) == 0 {
			r.Shuffle(len(out), func(i, j int) { out[i], out[j] = out[j], out[i] })
		}
		return out
	}
	if r.Intn(3) == 0 {
		return genJSON(r, depth+1, g)
	}
	return v
}

// permuteOneArray reorders (rotation or swap of two) one array of >= 2 elements somewhere in v.
func permuteOneArray(r *rand.Rand, v interface{}) (interface{}, bool) {
	var arrays [][]interface{}
	var walk func(x interface{})
	walk = func(x interface{}) {
		switch t := x.(type) {
		case map[string]interface{}:
			for _, k := range crdt.SortedKeys(t) {
				walk(t[k])
			}
		case []interface{}:
			if len(t) >= 2 {
				arrays = append(arrays, t)
			}
			for _, c := range t {
				walk(c)
			}
		}
	}
	walk(v)
	if len(arrays) == 0 {
		return nil, false
	}
	a := arrays[r.Intn(len(arrays))] // shares its backing array with v: reordered in place
	if r.Intn(2) == 0 {
		first := a[0]
		copy(a, a[1:])
		a[len(a)-1] = first
	} else {
		i, j := r.Intn(len(a)), r.Intn(len(a))
		a[i], a[j] = a[j], a[i]
	}
	return v, true
}

func needsEscapedKey(v interface{}) bool {
	switch x := v.(type) {
	case map[string]interface{}:
		for k, c := range x {
			for _, ch := range k {
				if ch == '/' || ch == '~' {
					return true
				}
			}
			if needsEscapedKey(c) {
				return true
			}
		}
	case []interface{}:
		for _, c := range x {
			if needsEscapedKey(c) {
				return true
			}
		}
	}
	return false
}

func init() {
	core.Register(&core.Prop{
		ID:       "C19",
		MaxBatch: 600,
		Level:    "exploration",
		Rule: "SDK half: seeded chains of 1-5 (current, target) JSON objects without nulls (depth <= 4, arrays of primitives / objects / arrays, keys incl. '/', '~', '~0', '~1', empty, numeric and '-' keys, type changes at a path, array growth / shrink / permutation, targets that only reorder one array, numbers at the edges of the integer and float ranges); after each PatchByJSON (a third through Document.Patch with the steps computed by the harness; a quarter INSIDE a transaction body, on the handle the body receives, made on a goroutine of its own - a call that never comes back is a violation when the goroutine dump shows it waiting for the lock of the transaction it is in): GetValue() JSON-equals the target, the pending list grew by one unit (one operation or one TRANSACTION announcing all of them), a second replica with its own concurrent history settled first receives the operations and reads the target wherever the patch wrote, and a twin fed with the same operations equals the patched replica; every third patch is applied as explicit JSON-patch steps through Document.Patch; unpatchable requests (invalid JSON; step lists that remove a missing key, use an unsupported step, address an array with a non-number - also after valid steps) return an error and change nothing; REST half: see the E-svc cases of this check (one case in 200 goes over HTTP through the REST gateway of the repository's server binary running as a child process: POST /api/v1/collections/{collection}/documents/{key}); " +
			"non-trivial = the patch needed >= 2 operations or touched a key that needs JSON-pointer escaping or changed a type; distinct = hash of the script",
		Assumptions: []string{
			"targets contain no null (the statement excludes them)",
			"on the receiving replica the target is compared where the patching replica had already seen all of the receiver's operations (otherwise the merge is governed by C02)",
		},
		Cases: func(t string) int { return tierN(t, 3000, 40000) },
		Floor: func(t string) int { return tierN(t, 600, 8000) },
		Run:   runC19,
	})
}

func runC19(c *core.Case) *core.Result {
	if restCase != nil && c.Index%4 == 3 {
		if c.Index%200 == 199 {
			return c19HTTP(c) // the REST gateway of a real server process
		}
		return restCase(c)
	}
	return c19SDK(c)
}

// restCase is installed by the E-svc part (c19rest.go) when the server bed is built in.
var restCase func(c *core.Case) *core.Result

func c19SDK(c *core.Case) *core.Result {
	r := c.Rng
	g := crdt.NewGen(r)
	h := crdt.NewHist(c, g, "doc", 2)
	P, Q := h.Reps[0], h.Reps[1]
	doc := P.DT.(orda.Document)
	nontrivial := false
	chainLen := 1 + r.Intn(5)
	c.Step("sdk chain of %d patches", chainLen)
	var cur interface{} = map[string]interface{}{}
	for i := 0; i < chainLen; i++ {
		// Q's own concurrent history is settled first: everything Q did is delivered to P
		if r.Intn(2) == 0 {
			op := crdt.Op{Kind: "put", Key: "q" + strconv.Itoa(r.Intn(3)), Val: g.Tag()}
			if _, _, sig, msg := h.Local(Q, op); sig != "" {
				return c.Violation(sig, "%s", msg)
			}
			if sig, msg := h.Sync(Q, -1); sig != "" {
				return c.Violation(sig, "%s", msg)
			}
			if sig, msg := h.Sync(P, -1); sig != "" {
				return c.Violation(sig, "%s", msg)
			}
			cur = crdt.Norm(doc.GetValue())
		}
		var target interface{}
		if i == 0 || r.Intn(4) == 0 {
			target = genObject(r, 0, g)
		} else {
			target = mutateJSON(r, cur, 0, g)
		}
		tjson := crdt.JS(target)
		c.Step("patch %d: %s -> %s", i, crdt.Canon(cur), tjson)
		before := len(P.Pending())
		var perr error
		var nPatches int
		if r.Intn(4) == 0 {
			// the same call made INSIDE a transaction body, on the handle the body receives
			// (PatchByJSON is part of that handle's interface): it reaches the target, and what
			// the enclosing transaction emits is one unit. The call is made on a goroutine of its
			// own: a body that waits for the lock its own goroutine holds never returns.
			c.Count("patches_inside_a_transaction_body", 1)
			done := make(chan string, 1)
			go func() {
				done <- safely(func() {
					if e := doc.Transaction("patch-in-body", func(tx orda.DocumentInTx) error {
						ps, e := tx.PatchByJSON(tjson)
						nPatches = len(ps)
						return e
					}); e != nil {
						perr = e
					}
				})
			}()
			select {
			case pm := <-done:
				if pm != "" {
					return c.Violation("sdk:panic", "PatchByJSON(%s) inside a transaction body on %s panicked: %s", clip(tjson, 300), clip(crdt.Canon(cur), 300), pm)
				}
			case <-time.After(20 * time.Second):
				if dump := allStacks(); waitsForOwnTransactionLock(dump) {
					return c.Violation("sdk:patch-in-transaction-never-returns", "PatchByJSON(%s) called inside a transaction body never returns: the goroutine waits for the datatype's lock inside a transaction it started from within its own transaction body\n%s", clip(tjson, 300), clipDump(dump))
				}
				return c.Inconclusive("patch inside a transaction body: watchdog")
			}
		} else if pm := safely(func() {
			if (c.Index+i)%3 == 1 {
				// the same patch through the explicit API: the JSON-patch steps computed by the
				// harness, applied with Document.Patch
				ps, e := jsondiff.CompareJSON([]byte(crdt.JS(cur)), []byte(tjson))
				if e != nil {
					perr = e
					return
				}
				nPatches = len(ps)
				c.Count("patches_through_explicit_steps", 1)
				if e := doc.Patch(ps...); e != nil {
					perr = e
				}
				return
			}
			ps, e := doc.PatchByJSON(tjson)
			nPatches = len(ps)
			if e != nil {
				perr = e
			}
		}); pm != "" {
			return c.Violation("sdk:panic", "PatchByJSON(%s) on %s panicked: %s", clip(tjson, 300), clip(crdt.Canon(cur), 300), pm)
		}
		if perr != nil {
			return c.Violation("sdk:refused", "PatchByJSON refused a null-free target object: %v (current %s target %s)", perr, clip(crdt.Canon(cur), 300), clip(tjson, 300))
		}
		if got, want := crdt.Canon(doc.GetValue()), crdt.Canon(target); got != want {
			return c.Violation("sdk:not-target", "after PatchByJSON the document is %s, the target was %s (was %s)", clip(got, 500), clip(want, 500), clip(crdt.Canon(cur), 300))
		}
		added := P.Pending()[before:]
		if nPatches > 0 && len(added) == 0 {
			return c.Violation("sdk:no-operations", "a patch with %d steps emitted no operations", nPatches)
		}
		if len(added) > 1 {
			hd, err := crdt.Decode(added[0])
			if err != nil || hd.Type != model.TypeOfOperation_TRANSACTION || int(hd.N) != len(added) {
				return c.Violation("sdk:not-one-unit", "a patch emitted %d operations that are not one transaction unit (first: %v)", len(added), added[0])
			}
			nontrivial = true
		}
		if needsEscapedKey(target) || needsEscapedKey(cur) {
			nontrivial = true
		}
		c.Count("patches_applied", 1)
		c.Count("patch_operations", int64(len(added)))
		// the operations bring the other replica to the same value
		if sig, msg := h.Sync(P, -1); sig != "" {
			return c.Violation(sig, "%s", msg)
		}
		if sig, msg := h.Sync(Q, -1); sig != "" {
			return c.Violation(sig, "%s", msg)
		}
		if got, want := crdt.Canon(Q.DT.(orda.Document).GetValue()), crdt.Canon(target); got != want {
			return c.Violation("sdk:replica-not-target", "a replica that received the patch operations reads %s, the target was %s", clip(got, 500), clip(want, 500))
		}
		cur = target
	}
	// unpatchable requests change nothing
	if sig, msg := h.CompareAll(); sig != "" {
		return c.Violation(sig, "%s", msg)
	}
	for _, bad := range []string{"{", "[1,2", "nope", ""} {
		b := observeAll(P, g.Keys)
		var perr error
		c.Step("unpatchable %q", bad)
		if pm := safely(func() {
			_, e := doc.PatchByJSON(bad)
			if e != nil {
				perr = e
			}
		}); pm != "" {
			return c.Violation("sdk:unpatchable-panic", "PatchByJSON(%q) panicked: %s", bad, pm)
		}
		if perr == nil {
			return c.Violation("sdk:unpatchable-accepted", "PatchByJSON(%q) returned no error", bad)
		}
		if d := diffObs(b, observeAll(P, g.Keys)); d != "" {
			return c.Violation("sdk:unpatchable-changed-state", "a refused patch %q left a trace: %s", bad, d)
		}
		c.Count("unpatchable_requests", 1)
	}
	// unpatchable step lists through Document.Patch: an error, and nothing changes - also when
	// valid steps precede the one that cannot be applied (the patch is one atomic unit)
	badPatches := []string{
		`[{"op":"remove","path":"/__no_such_key__"}]`,
		`[{"op":"add","path":"/__added__","value":"x"},{"op":"remove","path":"/__no_such_key__"}]`,
		`[{"op":"move","from":"/__a__","path":"/__b__"}]`,
		`[{"op":"add","path":"/__added__","value":{"n":[1,2]}},{"op":"copy","from":"/__added__","path":"/__c__"}]`,
	}
	if m, ok := cur.(map[string]interface{}); ok {
		for _, k := range crdt.SortedKeys(m) {
			if _, isArr := m[k].([]interface{}); isArr && !strings.ContainsAny(k, "/~") && k != "" {
				badPatches = append(badPatches, fmt.Sprintf(`[{"op":"add","path":"/__added__","value":1},{"op":"add","path":"/%s/not-a-position","value":1}]`, k))
				break
			}
		}
	}
	for _, bad := range badPatches {
		var ops jsondiff.Patch
		if err := json.Unmarshal([]byte(bad), &ops); err != nil {
			continue
		}
		b := observeAll(P, g.Keys)
		var perr error
		c.Step("unpatchable steps %s", bad)
		if pm := safely(func() {
			if e := doc.Patch(ops...); e != nil {
				perr = e
			}
		}); pm != "" {
			return c.Violation("sdk:unpatchable-panic", "Patch(%s) panicked: %s", bad, pm)
		}
		if perr == nil {
			return c.Violation("sdk:unpatchable-accepted", "Patch(%s) returned no error (document %s)", bad, clip(crdt.Canon(doc.GetValue()), 300))
		}
		if d := diffObs(b, observeAll(P, g.Keys)); d != "" {
			return c.Violation("sdk:unpatchable-changed-state", "the refused patch %s left a trace: %s", bad, d)
		}
		c.Count("unpatchable_step_lists", 1)
	}
	if nontrivial {
		c.NonTrivial()
	}
	// non-object targets are outside the statement: outcomes are recorded, not judged
	for _, odd := range []string{"[1,2]", "\"s\"", "5", "null"} {
		var perr error
		pm := safely(func() {
			_, e := doc.PatchByJSON(odd)
			if e != nil {
				perr = e
			}
		})
		switch {
		case pm != "":
			c.Count("diagnostic_nonobject_target_panicked", 1)
		case perr != nil:
			c.Count("diagnostic_nonobject_target_refused", 1)
		default:
			c.Count("diagnostic_nonobject_target_accepted", 1)
		}
		if pm != "" {
			return c.Held() // the datatype may be left locked by the panic: end the case here
		}
	}
	if nontrivial {
		c.NonTrivial()
	}
	return c.Held()
}

// allStacks returns the stacks of all goroutines.
func allStacks() string {
	buf := make([]byte, 1<<20)
	for {
		n := runtime.Stack(buf, true)
		if n < len(buf) {
			return string(buf[:n])
		}
		buf = make([]byte, 2*len(buf))
	}
}

// waitsForOwnTransactionLock: some goroutine waits for the datatype's transaction lock in a
// DoTransaction that was called from inside the body of another DoTransaction on its own stack
// (which holds that lock): a wait that no other goroutine can end.
func waitsForOwnTransactionLock(dump string) bool {
	for _, g := range strings.Split(dump, "\n\n") {
		if strings.Contains(g, "setTransactionContextAndLock") && strings.Contains(g, "sync.(*Mutex).") && strings.Count(g, ").DoTransaction(") >= 2 {
			return true
		}
	}
	return false
}
