package props

import (
	"context"
	"encoding/json"
	"fmt"
	"math/rand"
	"sort"
	"strings"
	"sync"
	"time"

	"github.com/orda-io/orda/client/pkg/model"
	"go.mongodb.org/mongo-driver/bson"
	"google.golang.org/protobuf/proto"
	"vh/bed"
	"vh/core"
	"vh/crdt"
	"vh/fakemongo"
)

func init() {
	core.Register(&core.Prop{
		ID:       "C17",
		MaxBatch: 150,
		Level:    "exploration",
		Workers:  16,
		Rule: "seeded histories over 2-3 collections (in a third of the cases with names of about 70 bytes that differ in the last character only) created in a FRESH store (collection-number allocation is part of the mechanism; in every second case the collections are created at the same moment with delays injected at the allocation's database commands), overlapping keys and several clients per collection; after every request the store diff is partitioned by owner (collection number in -_-Datatypes / -_-Operations / -_-Snapshots / -_-Clients, name for user collections): a request issued under collection A may touch only A-owned documents; foreign requests (a client registered in A naming collection B; a client of A first sending a client message that names B - which must be refused without changing anything - and then asking for B's datatype; packs carrying the DUID of a datatype of B with every option-bit combination, sent by a client at sequence 1 and by one further along) must leave B-owned documents untouched and must not return operations of B; a REST patch may touch only the collection it names; the same key in two collections yields two datatypes, and the notifications a sync causes are published on <its own collection>/<key> with the id of that collection's datatype (never on the topic of the same key in another collection); ResetCollection(A) at random points removes every A-owned datatype, operation, snapshot and client document and the user collection A while the dump restricted to the other collections is identical; " +
			"non-trivial = at least two collections hold the same key and at least one request crossed the collection boundary; distinct = hash of the step script",
		Assumptions: []string{
			"MongoDB is the in-memory stand-in; volatile timestamps are ignored in diffs",
		},
		Trusted: []string{"fakemongo (dump / diff)", "fakemqtt", "harness transport (direct mode)"},
		Cases:   func(t string) int { return tierN(t, 800, 8000) },
		Floor:   func(t string) int { return tierN(t, 300, 3000) },
		Run:     runC17,
	})
}

// ownerOf maps a Flat() key + document to the owning collection name ("" = global).
func c17Owner(key string, doc bson.D, numToName map[int32]string) string {
	ns := key[:strings.Index(key, "/")]
	switch ns {
	case bed.NSDatatypes, bed.NSOperations, bed.NSSnapshots, bed.NSClients:
		if v, ok := doc.Map()["colNum"]; ok {
			var n int32
			switch x := v.(type) {
			case int32:
				n = x
			case int64:
				n = int32(x)
			}
			if name, ok := numToName[n]; ok {
				return name
			}
			return fmt.Sprintf("?num%d", n)
		}
		return ""
	case bed.NSCollections, bed.NSColNum:
		return ""
	}
	return strings.TrimPrefix(ns, bed.DBName+".")
}

type c17snap struct {
	flat  map[string]string
	owner map[string]string
}

func c17Take(b *bed.Bed, numToName map[int32]string) c17snap {
	s := c17snap{flat: map[string]string{}, owner: map[string]string{}}
	for ns, docs := range b.DB.Dump() {
		for _, d := range docs {
			id, _ := d.Map()["_id"]
			k := fmt.Sprintf("%s/%v", ns, id)
			var stripped bson.D
			for _, e := range d {
				if e.Key == "createdAt" || e.Key == "updatedAt" {
					continue
				}
				if e.Key == "rwClients" || e.Key == "roClients" {
					// per-subscriber "at" timestamps are volatile
					if sub, ok := e.Value.(bson.D); ok {
						var nsub bson.D
						for _, ce := range sub {
							if cd, ok := ce.Value.(bson.D); ok {
								var ncd bson.D
								for _, f := range cd {
									if f.Key != "at" {
										ncd = append(ncd, f)
									}
								}
								nsub = append(nsub, bson.E{Key: ce.Key, Value: ncd})
							}
						}
						stripped = append(stripped, bson.E{Key: e.Key, Value: nsub})
						continue
					}
				}
				stripped = append(stripped, e)
			}
			js, _ := bson.MarshalExtJSON(stripped, true, false)
			s.flat[k] = string(js)
			s.owner[k] = c17Owner(k, d, numToName)
		}
	}
	return s
}

// touched returns the owners whose documents differ between two snapshots.
func c17Touched(a, b c17snap) map[string][]string {
	out := map[string][]string{}
	for k, v := range b.flat {
		if o, ok := a.flat[k]; !ok || o != v {
			out[b.owner[k]] = append(out[b.owner[k]], k)
		}
	}
	for k := range a.flat {
		if _, ok := b.flat[k]; !ok {
			out[a.owner[k]] = append(out[a.owner[k]], "deleted "+k)
		}
	}
	return out
}

func runC17(c *core.Case) *core.Result {
	b, err := bed.New() // a fresh store: collection numbers are allocated from scratch
	if err != nil {
		return c.Inconclusive("test bed did not start: %v", err)
	}
	defer func() { b.Taint(); b.Close() }()
	r := c.Rng
	g := crdt.NewGen(r)
	ncol := 2 + r.Intn(2)
	var cols []string
	numToName := map[int32]string{}
	prefix := "col"
	if r.Intn(3) == 0 {
		// long names that differ in their last character only (a naming scheme with a common
		// stem): two names are two collections however long their common prefix is
		prefix = "inventory-of-the-northern-warehouse-and-its-subsidiaries-2026-q3-col"
	}
	for i := 0; i < ncol; i++ {
		cols = append(cols, fmt.Sprintf("%s%c", prefix, 'A'+i))
	}
	if c.Index%2 == 1 {
		// the collections are created at the same moment (two administrators, two services
		// starting up), with small delays injected at the database commands of the number
		// allocation and of the collection documents; a creation that fails under that
		// concurrency is repeated afterwards - what must hold is that the collections end up
		// with numbers of their own
		c.Step("CreateCollection of %v concurrently", cols)
		var pmu sync.Mutex
		prng := rand.New(rand.NewSource(r.Int63()))
		b.DB.SetPlan(func(cmd *fakemongo.Cmd) fakemongo.Action {
			if cmd.Coll == "-_-ColNumGenerator" || cmd.Coll == "-_-Collections" {
				pmu.Lock()
				d := time.Duration(prng.Intn(1500)) * time.Microsecond
				pmu.Unlock()
				return fakemongo.Action{Delay: d}
			}
			return fakemongo.Action{}
		})
		var wg sync.WaitGroup
		for _, name := range cols {
			wg.Add(1)
			go func(name string) {
				defer wg.Done()
				defer func() { recover() }()
				b.CreateCollection(name)
			}(name)
		}
		wg.Wait()
		b.DB.SetPlan(nil)
		c.Count("concurrent_collection_creations", 1)
	}
	for _, name := range cols {
		if err := b.CreateCollection(name); err != nil { // idempotent for a collection that exists
			return c.Violation("create-collection", "CreateCollection(%s) failed: %v", name, err)
		}
	}
	for _, name := range cols {
		n := b.CollectionNum(name)
		if other, dup := numToName[n]; dup {
			return c.Violation("shared-collection-number", "collections %s and %s were both given number %d: their datatypes, operations, snapshots and clients are indistinguishable in the store", other, name, n)
		}
		numToName[n] = name
	}
	c.Step("collections %v numbers %v", cols, numToName)
	ledger := bed.NewLedger()
	type cli struct {
		*bed.Client
		col string
	}
	var clients []*cli
	keys := []string{"k0", "k1"}
	types := map[string]string{"k0": crdt.Types[r.Intn(4)], "k1": crdt.Types[r.Intn(4)]}
	for _, col := range cols {
		for j := 0; j < 1+r.Intn(2); j++ {
			clients = append(clients, &cli{b.NewClient(col, fmt.Sprintf("%s-c%d", col, j)), col})
		}
	}
	crossed, sameKey := false, false
	guard := func(ex *bed.Exchange) *core.Result {
		if ex.Out.Panic != "" {
			return c.Violation("server-panic", "ProcessPushPull panicked: %s", ex.Out.Panic)
		}
		if ex.Out.TimedOut {
			if ex.Out.Hang {
				return c.Violation("request-hang", "request never returned\n%s", clipDump(ex.Out.Dump))
			}
			return c.Inconclusive("watchdog")
		}
		return nil
	}
	steps := tierN(c.Tier, 40, 70)
	for s := 0; s < steps; s++ {
		cl := clients[r.Intn(len(clients))]
		switch k := r.Intn(20); {
		case k < 3 || len(cl.DTs) == 0:
			key := keys[r.Intn(len(keys))]
			have := false
			for _, d := range cl.DTs {
				if d.Key == key {
					have = true
				}
			}
			if !have {
				c.Step("%s open %s %s", cl.Alias, types[key], key)
				cl.Open(key, types[key], bed.SubscribeOrCreate)
				if len(cl.DTs) == 1 {
					before := c17Take(b, numToName)
					if err := cl.Register(); err != nil {
						c.Step("register: %v", err)
					}
					for owner, docs := range c17Touched(before, c17Take(b, numToName)) {
						if owner != cl.col && owner != "" {
							return c.Violation("register-touched-foreign", "registering a client of %s changed documents of %s: %v", cl.col, owner, docs)
						}
					}
				}
			}
		case k < 8 || (k == 8 && types[keys[0]] != "doc"):
			d := cl.DTs[r.Intn(len(cl.DTs))]
			c.Step("%s/%s local op", cl.Alias, d.Key)
			crdt.Apply(d.DT, g.Op(wrapRep(d)))
		case k == 8 && types[keys[0]] == "doc":
			// a REST patch names a collection and a key: it may touch that collection only, also
			// when the same key holds a document in another collection
			col := cols[r.Intn(len(cols))]
			target := crdt.JS(map[string]interface{}{"patched": g.Tag(), "n": r.Intn(100)})
			before := c17Take(b, numToName)
			c.Step("REST patch of %s/%s to %s", col, keys[0], target)
			out := bed.Guard(15e9, func(ctx context.Context) error {
				_, err := b.Svc.PatchDocument(ctx, &model.PatchMessage{Collection: col, Key: keys[0], Json: target})
				return err
			})
			if out.Panic != "" {
				return c.Violation("server-panic", "PatchDocument panicked: %s", out.Panic)
			}
			if out.TimedOut {
				return c.Inconclusive("PatchDocument watchdog")
			}
			if !b.Idle(20e9) {
				return c.Inconclusive("idle")
			}
			for owner, docs := range c17Touched(before, c17Take(b, numToName)) {
				if owner != col && owner != "" {
					sort.Strings(docs)
					return c.Violation("patch-touched-foreign", "a REST patch of %s/%s changed documents owned by %q: %v", col, keys[0], owner, docs)
				}
			}
			c.Count("rest_patches_with_partitioned_diff", 1)
		case k < 15:
			// normal sync: may touch only the client's own collection
			req := cl.BuildRequest()
			ledger.Offer(req)
			before := c17Take(b, numToName)
			pubsBefore := b.MQ.NumPubs()
			endBefore := map[string]int{}
			for _, dd := range b.Datatypes() {
				endBefore[dd.DUID] = len(b.Ops(dd.DUID))
			}
			c.Step("%s sync", cl.Alias)
			ex := cl.Send(req)
			if res := guard(ex); res != nil {
				return res
			}
			if ex.Out.Err == nil {
				if pm := cl.Apply(ex.Resp); pm != "" {
					var desc []string
					for _, p := range ex.Resp.PushPullPacks {
						desc = append(desc, fmt.Sprintf("%s opt=%#x cp=%v ops=%d", p.Key, p.Option, p.CheckPoint, len(p.Operations)))
					}
					var rq []string
					for _, p := range req.PushPullPacks {
						rq = append(rq, fmt.Sprintf("%s opt=%#x cp=%v ops=%d duid=%s", p.Key, p.Option, p.CheckPoint, len(p.Operations), p.DUID))
					}
					return c.Violation("client-panic", "ApplyPushPullPack panicked: %s (request %v response %v)", pm, rq, desc)
				}
			}
			if !b.Idle(20e9) {
				return c.Inconclusive("idle")
			}
			after := c17Take(b, numToName)
			for owner, docs := range c17Touched(before, after) {
				if owner != cl.col {
					sort.Strings(docs)
					return c.Violation("touched-foreign-documents", "a sync of %s (collection %s) changed documents owned by %q: %v", cl.Alias, cl.col, owner, docs)
				}
			}
			c.Count("requests_with_partitioned_diff", 1)
			// announcements stay inside the collection too: every notification this request caused
			// is published on <its collection>/<key> of a datatype of that collection whose log
			// grew, carries that datatype's id, and every such datatype is announced there
			grown := map[string]string{} // topic -> duid
			for _, dd := range b.Datatypes() {
				if len(b.Ops(dd.DUID)) > endBefore[dd.DUID] {
					grown[numToName[dd.CollectionNum]+"/"+dd.Key] = dd.DUID
				}
			}
			b.AwaitPubs(pubsBefore+len(grown), 3*time.Second) // an announcement that is due may come from a goroutine the hooks do not see
			announced := map[string]bool{}
			for _, pb := range b.MQ.Pubs()[pubsBefore:] {
				var n model.Notification
				json.Unmarshal(pb.Payload, &n)
				if !strings.HasPrefix(pb.Topic, cl.col+"/") {
					return c.Violation("notification-on-foreign-topic", "a sync of %s (collection %s) caused a notification on topic %q (%s): subscribers of another collection are told about it, its own are not", cl.Alias, cl.col, pb.Topic, pb.Payload)
				}
				if duid, ok := grown[pb.Topic]; !ok || duid != n.DUID {
					return c.Violation("notification-names-other-datatype", "a sync of %s (collection %s) caused a notification on %q carrying %s; datatypes whose log grew: %v", cl.Alias, cl.col, pb.Topic, pb.Payload, grown)
				}
				announced[pb.Topic] = true
				c.Count("notifications_checked", 1)
			}
			for topic := range grown {
				if !announced[topic] {
					return c.Violation("push-not-announced-in-its-collection", "a sync of %s stored operations of %q but no notification was published on that topic (published: %v)", cl.Alias, topic, b.MQ.Pubs()[pubsBefore:])
				}
			}
		case k < 18:
			// foreign request
			var victim *cli
			for _, o := range clients {
				if o.col != cl.col && len(o.DTs) > 0 {
					victim = o
				}
			}
			if victim == nil {
				continue
			}
			vd := victim.DTs[r.Intn(len(victim.DTs))]
			if vd.DT.GetState() != model.StateOfDatatype_SUBSCRIBED {
				continue
			}
			req := cl.BuildRequest()
			variant := r.Intn(4)
			switch variant {
			case 3: // two steps: register for the foreign collection (must be refused), then ask for its datatype
				if cl.Model == nil || len(req.PushPullPacks) == 0 {
					continue
				}
				msg := model.NewClientMessage(proto.Clone(cl.Model).(*model.Client))
				msg.Collection = victim.col
				beforeReg := c17Take(b, numToName)
				c.Step("%s (registered in %s) sends a client message naming %s", cl.Alias, cl.col, victim.col)
				out := bed.Guard(10e9, func(ctx context.Context) error {
					_, err := b.Svc.ProcessClient(ctx, msg)
					return err
				})
				if out.Panic != "" {
					return c.Violation("server-panic", "ProcessClient panicked: %s", out.Panic)
				}
				if out.TimedOut {
					return c.Inconclusive("ProcessClient watchdog")
				}
				if !b.Idle(20e9) {
					return c.Inconclusive("idle")
				}
				if out.Err == nil {
					return c.Violation("foreign-registration-accepted", "client %s is registered in %s; its client message naming %s was accepted", cl.Alias, cl.col, victim.col)
				}
				for owner, docs := range c17Touched(beforeReg, c17Take(b, numToName)) {
					sort.Strings(docs)
					return c.Violation("refused-registration-changed-store", "the refused client message of %s (collection %s) naming %s changed stored documents (owner %q): %v", cl.Alias, cl.col, victim.col, owner, docs)
				}
				req.Collection = victim.col
				req.PushPullPacks = req.PushPullPacks[:1]
				p := req.PushPullPacks[0]
				p.Key, p.Type, p.DUID = vd.Key, typeOf[vd.Typ], vd.W.GetDUID()
				p.Option = uint32(model.PushPullBitSubscribe)
				p.CheckPoint.Sseq, p.CheckPoint.Cseq = 0, 0
				p.Operations = nil
			case 0: // names the foreign collection
				req.Collection = victim.col
			case 1, 2: // carries the foreign DUID (with the victim's key or the attacker's)
				for _, p := range req.PushPullPacks {
					p.DUID = vd.W.GetDUID()
					if variant == 2 {
						p.Key = vd.Key
						p.Type = typeOf[vd.Typ]
					}
					opt := uint32(r.Intn(4)) // normal / create / subscribe / both
					if r.Intn(4) == 0 {
						opt |= uint32(model.PushPullBitReadOnly)
					}
					p.Option = opt
					if r.Intn(2) == 0 {
						p.CheckPoint.Sseq = 0
					}
				}
			}
			crossed = true
			before := c17Take(b, numToName)
			c.Step("%s sends a foreign request (variant %d) against %s/%s", cl.Alias, variant, victim.col, vd.Key)
			ex := cl.Send(proto.Clone(req).(*model.PushPullMessage))
			if res := guard(ex); res != nil {
				return res
			}
			if !b.Idle(20e9) {
				return c.Inconclusive("idle")
			}
			after := c17Take(b, numToName)
			for owner, docs := range c17Touched(before, after) {
				if owner != cl.col && owner != "" {
					sort.Strings(docs)
					return c.Violation("foreign-request-modified", "a request of %s (collection %s, variant %d) changed documents owned by %s: %v", cl.Alias, cl.col, variant, owner, docs)
				}
			}
			// must not read foreign operations
			if ex.Resp != nil {
				vdd := b.Datatype(b.CollectionNum(victim.col), vd.Key)
				if vdd != nil {
					foreign := map[string]bool{}
					for _, o := range b.Ops(vdd.DUID) {
						foreign[fmt.Sprintf("%s:%d", o.OpID.CUID, o.OpID.Seq)] = true
					}
					for _, p := range ex.Resp.PushPullPacks {
						for _, o := range p.Operations {
							if o.ID != nil && foreign[fmt.Sprintf("%s:%d", o.ID.CUID, o.ID.Seq)] {
								return c.Violation("foreign-request-read", "a request of %s (collection %s, variant %d) was answered with operations of %s/%s", cl.Alias, cl.col, variant, victim.col, vd.Key)
							}
						}
					}
				}
			}
			c.Count("foreign_requests", 1)
			// the attacker's own datatype state may now be confused by its forged request; it
			// continues with its real packs (responses of forged requests were not applied)
		default:
			// reset of a collection
			col := cols[r.Intn(len(cols))]
			before := c17Take(b, numToName)
			c.Step("ResetCollection(%s)", col)
			out := bed.Guard(10e9, func(ctx context.Context) error {
				_, err := b.Svc.ResetCollection(ctx, &model.CollectionMessage{Collection: col})
				return err
			})
			if out.Panic != "" {
				return c.Violation("server-panic", "ResetCollection panicked: %s", out.Panic)
			}
			if out.TimedOut {
				return c.Inconclusive("watchdog")
			}
			if out.Err != nil {
				return c.Violation("reset-failed", "ResetCollection(%s) failed: %v", col, out.Err)
			}
			after := c17Take(b, numToName)
			for k, owner := range after.owner {
				if owner == col {
					return c.Violation("reset-left-documents", "after ResetCollection(%s) the document %s still exists", col, k)
				}
			}
			for owner, docs := range c17Touched(before, after) {
				if owner != col && owner != "" {
					return c.Violation("reset-touched-foreign", "ResetCollection(%s) changed documents of %s: %v", col, owner, docs)
				}
			}
			c.Count("resets", 1)
			// a reset may give the collection a number of its own again: the statement fixes what
			// is removed, not the numbering
			for _, name := range cols {
				if n := b.CollectionNum(name); n != 0 {
					if other, taken := numToName[n]; taken && other != name {
						return c.Violation("shared-collection-number", "after ResetCollection(%s) collections %s and %s both have number %d", col, other, name, n)
					}
					numToName[n] = name
				}
			}
			// clients of the reset collection start over
			var keep []*cli
			for _, o := range clients {
				if o.col != col {
					keep = append(keep, o)
				}
			}
			clients = keep
			for j := 0; j < 1+r.Intn(2); j++ {
				clients = append(clients, &cli{b.NewClient(col, fmt.Sprintf("%s-n%d-%d", col, s, j)), col})
			}
		}
		// same key in two collections?
		seen := map[string]map[string]bool{}
		for _, dd := range b.Datatypes() {
			if seen[dd.Key] == nil {
				seen[dd.Key] = map[string]bool{}
			}
			seen[dd.Key][numToName[dd.CollectionNum]] = true
		}
		for _, m := range seen {
			if len(m) >= 2 {
				sameKey = true
			}
		}
	}
	if crossed && sameKey {
		c.NonTrivial()
	}
	return c.Held()
}
