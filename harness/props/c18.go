package props

import (
	"context"
	"encoding/json"
	"fmt"
	"sort"
	"sync"
	"sync/atomic"
	"time"

	"github.com/orda-io/orda/client/pkg/errors"
	"github.com/orda-io/orda/client/pkg/iface"
	"github.com/orda-io/orda/client/pkg/model"
	"github.com/orda-io/orda/client/pkg/orda"
	"github.com/orda-io/orda/client/pkg/vhook"
	"vh/bed"
	"vh/core"
	"vh/crdt"
)

func init() {
	core.Register(&core.Prop{
		ID:           "C18",
		MaxBatch:     24,
		Level:        "exploration",
		Workers:      8,
		Race:         true,
		RaceAdvisory: true, // client-side races are judged by C20; here they are only counted
		CaseTimeout:  200e9,
		Rule: "two kinds of cases. (a) notification content / count, deterministic, direct mode: scenarios of C05's generator; one request in five is a REST patch of a stored document (a push by the server's patch client); after every request and server idleness the MQTT stand-in's publish log must have grown by exactly one message on <collection>/<key> carrying {CUID: pusher, DUID, sseq: new end of log} for every datatype of the request that stored >= 1 operation, and by none otherwise. (b) realtime: 2-5 REALTIME SDK clients over real grpc and real paho clients on the MQTT stand-in (deliveries delayed at random; responses of served requests held back 0-5 ms so that notifications overtake them; a solo client loses 40 % of the responses to its pushes) subscribe, complete their first sync (for the second client of half of the cases the broker takes 40-160 ms to process the SUBSCRIBE packet; the moment that client's state-change handler reports SUBSCRIBED the first client issues one operation, nothing else happens, and the quiescence oracle below must find both equal; in a quarter of the cases a notification naming another datatype id with a huge sequence number is then delivered on the key's topic) and then only issue local operations and small committed transactions from their own goroutines at random moments, no Sync() call; after the last operation the harness waits for logical quiescence (no RPC in flight, no queued delivery, no announced background goroutine, no database command in progress, and no new RPC / publish event during a 2 s silence window) and then requires equal state on all clients and nothing left to push; then an epilogue steered by logical events follows, with the same quiescence oracle: A's next push is held at the front after it was served and either (0) A issues a second operation and the notification of a push B made earlier (deliveries were held at the broker) is released to A during that flight, (1) B pushes after A's request was served and its notification reaches A during that flight, or (2) two held notifications of B are released together - the first starts A's pull, the second waits in A's queue - and a third push of B is announced while A's receive loop is busy; then nothing else happens; no client may start a push-pull because of a notification that its own push caused (hook events dm.notification / dm.sync.on-notification joined on receiver and sseq; a solo client, all of whose notifications are its own, must also issue no more push-pull RPCs than its local operations started); the run is under the race detector; " +
			"non-trivial = (a) >= 3 requests stored operations and >= 1 stored none; (b) >= 2 clients issued operations concurrently; distinct = hash of the script (a) / of the observed RPC order (b)",
		Assumptions: []string{
			"'converge by themselves' is decided as bounded progress to logical quiescence; not quiescent within 60 s => inconclusive",
			"MQTT broker and MongoDB are the in-memory stand-ins; QoS 0",
		},
		Trusted: []string{"fakemongo", "fakemqtt (publish log, delivery delays)", "harness grpc front", "Go race detector"},
		Cases:   func(t string) int { return tierN(t, 80, 1500) },
		Floor:   func(t string) int { return tierN(t, 30, 500) },
		Run:     runC18,
	})
}

func runC18(c *core.Case) *core.Result {
	if c.Index%2 == 0 {
		return c18Content(c)
	}
	return c18Realtime(c)
}

// ---- (a) notification content and count

func c18Content(c *core.Case) *core.Result {
	s, err := newSvcScenario(c, 5, false)
	if err != nil {
		return c.Inconclusive("test bed did not start: %v", err)
	}
	w := s.w
	defer w.close()
	stored, none := 0, 0
	steps := tierN(c.Tier, 45, 80)
	r := c.Rng
	for i := 0; i < steps; i++ {
		ci := r.Intn(len(w.cls))
		cl := w.cls[ci]
		switch k := r.Intn(10); {
		case k < 2 || len(cl.DTs) == 0:
			ki := r.Intn(len(w.keys))
			if s.opened[[2]int{ci, ki}] == nil {
				s.open(ci, ki)
			}
		case k < 6:
			w.localOp(cl.DTs[r.Intn(len(cl.DTs))])
		default:
			if !w.idle() {
				return c.Inconclusive("idle")
			}
			endBefore := map[string]uint64{}
			for _, dd := range w.b.Datatypes() {
				endBefore[dd.Key] = uint64(len(w.b.Ops(dd.DUID)))
			}
			pubsBefore := w.b.MQ.NumPubs()
			pusher := ""
			// one request in five is a REST patch of a stored document: a push by the server's
			// own patch client, announced like any other
			var docKeys []string
			if r.Intn(5) == 0 {
				for _, dd := range w.b.Datatypes() {
					if dd.CollectionNum == w.colNum && dd.Type == model.TypeOfDatatype_DOCUMENT.String() {
						docKeys = append(docKeys, dd.Key)
					}
				}
				sort.Strings(docKeys)
			}
			if len(docKeys) > 0 {
				key := docKeys[r.Intn(len(docKeys))]
				pusher = c18PatchCUID
				target := fmt.Sprintf(`{"rest":"%s","n":%d}`, w.g.Tag(), r.Intn(1000))
				c.Step("REST patch of %s to %s", key, target)
				out := bed.Guard(15e9, func(ctx context.Context) error {
					_, err := w.b.Svc.PatchDocument(ctx, &model.PatchMessage{Collection: "colA", Key: key, Json: target})
					return err
				})
				if out.Panic != "" {
					return c.Violation("server-panic", "PatchDocument panicked: %s", out.Panic)
				}
				if out.TimedOut {
					return c.Inconclusive("PatchDocument: watchdog")
				}
				if out.Err != nil {
					c.Count("diag_rest_patches_refused", 1)
				} else {
					c.Count("rest_patches", 1)
				}
			} else {
				pusher = cl.Model.CUID
				if _, sig, msg := w.sync(cl); sig != "" {
					return verdict(c, "", sig, msg)
				}
			}
			if !w.idle() {
				return c.Inconclusive("idle")
			}
			want := map[string]uint64{} // key -> new end, for keys that stored >= 1 op
			duids := map[string]string{}
			for _, dd := range w.b.Datatypes() {
				n := uint64(len(w.b.Ops(dd.DUID)))
				if n > endBefore[dd.Key] {
					want[dd.Key] = n
					duids[dd.Key] = dd.DUID
				}
			}
			if !w.b.AwaitPubs(pubsBefore+len(want), 3*time.Second) { // an announcement that is due may come from a goroutine the hooks do not see
				c.Count("announcements_not_seen_within_3s", 1)
			} else if len(want) > 0 {
				w.idle()
			}
			pubs := w.b.MQ.Pubs()[pubsBefore:]
			if len(want) > 0 {
				stored++
			} else {
				none++
			}
			got := map[string]int{}
			for _, p := range pubs {
				var n model.Notification
				if err := json.Unmarshal(p.Payload, &n); err != nil {
					return c.Violation("notification-undecodable", "published payload %q on %s is not a notification", p.Payload, p.Topic)
				}
				key := ""
				for k := range want {
					if p.Topic == "colA/"+k {
						key = k
					}
				}
				if key == "" {
					return c.Violation("notification-without-push", "a notification was published on %s (%s) although the request stored no operation for that key", p.Topic, p.Payload)
				}
				got[key]++
				if n.CUID != pusher || n.DUID != duids[key] || n.Sseq != want[key] {
					return c.Violation("notification-content", "notification on %s carries %s, expected CUID %s DUID %s sseq %d", p.Topic, p.Payload, pusher, duids[key], want[key])
				}
			}
			for k := range want {
				if got[k] != 1 {
					return c.Violation("notification-count", "the request stored operations for key %s (new end %d) but %d notifications were published on colA/%s", k, want[k], got[k], k)
				}
			}
			c.Count("requests_checked", 1)
			c.Count("notifications_checked", int64(len(pubs)))
		}
	}
	if stored >= 3 && none >= 1 {
		c.NonTrivial()
	}
	return c.Held()
}

// c18PatchCUID is the client id under which the server pushes the operations of a REST patch.
const c18PatchCUID = "!@#$OrdaPatchAPI"

// sureOp returns a call that is valid in every state of the type and always emits an operation.
func sureOp(typ string, g *crdt.Gen) crdt.Op {
	switch typ {
	case "counter":
		return crdt.Op{Kind: "inc", N: 1 + g.R.Intn(5)}
	case "map":
		return crdt.Op{Kind: "put", Key: "k0", Val: g.Tag()}
	case "list":
		return crdt.Op{Kind: "ins", Pos: 0, Vals: []interface{}{g.Tag()}}
	}
	return crdt.Op{Kind: "put", Key: "k0", Val: g.Tag()}
}

// ---- (b) realtime clients

type rtClient struct {
	cli   orda.Client
	dt    orda.Datatype
	w     iface.Datatype
	mu    sync.Mutex
	errs  int
	cuid  string
	alias string

	subscribed chan struct{}
}

func openRT(cli orda.Client, key, typ string, create bool, h *orda.Handlers) orda.Datatype {
	switch typ {
	case "counter":
		if create {
			return cli.CreateCounter(key, h)
		}
		return cli.SubscribeCounter(key, h)
	case "map":
		if create {
			return cli.CreateMap(key, h)
		}
		return cli.SubscribeMap(key, h)
	case "list":
		if create {
			return cli.CreateList(key, h)
		}
		return cli.SubscribeList(key, h)
	}
	if create {
		return cli.CreateDocument(key, h)
	}
	return cli.SubscribeDocument(key, h)
}

func c18Realtime(c *core.Case) *core.Result {
	b, err := bed.New()
	if err != nil {
		return c.Inconclusive("test bed did not start: %v", err)
	}
	defer func() { b.Taint(); b.Close() }()
	if err := b.CreateCollection("colA"); err != nil {
		return c.Inconclusive("CreateCollection: %v", err)
	}
	rpc, err := b.StartRPC()
	if err != nil {
		return c.Inconclusive("grpc front: %v", err)
	}
	defer rpc.Stop()
	r := c.Rng
	ncli := 2 + r.Intn(4)
	solo := c.Index%8 == 7
	if solo {
		ncli = 1
	}
	typ := crdt.Types[r.Intn(4)]
	key := fmt.Sprintf("rt%d", c.Index)
	c.Step("realtime clients=%d type=%s", ncli, typ)
	b.MQ.SetDelay(func(sub, topic string) time.Duration {
		return time.Duration(time.Now().UnixNano()%5) * time.Millisecond
	})
	var cls []*rtClient
	defer func() {
		for _, x := range cls {
			func() {
				defer func() { recover() }()
				x.cli.Close()
			}()
		}
	}()
	waitState := func(x *rtClient) bool {
		select {
		case <-x.subscribed:
			return true
		case <-time.After(5 * time.Second):
			return false
		}
	}
	// logical quiescence with a silence window, then equal state and nothing left to push
	settleAndCompare := func(stage string) *core.Result {
		deadline := time.Now().Add(60 * time.Second)
		lastEvents, silentSince := -1, time.Now()
		quiet := false
		for time.Now().Before(deadline) {
			events := len(rpc.Calls()) + b.MQ.NumPubs()
			busy := rpc.InFlight() != 0 || b.MQ.Queued() != 0 || vhook.Pending() != 0 || b.DB.OpenCommands() != 0
			if busy || events != lastEvents {
				lastEvents, silentSince = events, time.Now()
			} else if time.Since(silentSince) > 2*time.Second {
				quiet = true
				break
			}
			time.Sleep(20 * time.Millisecond)
		}
		if !quiet {
			return c.Inconclusive("no logical quiescence within 60 s %s (rpc in flight %d, queued deliveries %d, background goroutines %d)", stage, rpc.InFlight(), b.MQ.Queued(), vhook.Pending())
		}
		base := ""
		for i, x := range cls {
			v := crdt.Canon(x.dt.ToJSON())
			if cn, ok := x.dt.(orda.Counter); ok {
				v = crdt.Canon(cn.Get())
			}
			if i == 0 {
				base = v
			} else if v != base {
				return c.Violation("realtime-no-convergence", "%s: the system is quiescent (no RPC, no queued notification, no background goroutine for 2 s) but client %s reads %s while client %s reads %s", stage, cls[0].alias, clip(base, 400), x.alias, clip(v, 400))
			}
			if p := x.w.CreatePushPullPack(); len(p.Operations) > 0 {
				return c.Violation("realtime-unpushed-operations", "%s: the system is quiescent but client %s still holds %d operations that were never pushed", stage, x.alias, len(p.Operations))
			}
		}
		return nil
	}
	// a broker that is slow in processing the SUBSCRIBE of the second client: its first sync is
	// complete when its state-change handler reports SUBSCRIBED, and whatever is pushed from then
	// on has to reach it without a Sync() call - whether or not the broker took its time
	slowSub := ncli >= 2 && r.Intn(2) == 0
	slowBy := time.Duration(40+r.Intn(120)) * time.Millisecond
	for i := 0; i < ncli; i++ {
		x := &rtClient{alias: fmt.Sprintf("rt%d", i)}
		x.cli = b.NewSDKClient(rpc, "colA", x.alias, model.SyncType_REALTIME)
		if err := x.cli.Connect(); err != nil {
			return c.Inconclusive("Connect: %v", err)
		}
		x.subscribed = make(chan struct{})
		var once sync.Once
		h := orda.NewHandlers(func(dt orda.Datatype, old, new model.StateOfDatatype) {
			if new == model.StateOfDatatype_SUBSCRIBED {
				once.Do(func() { close(x.subscribed) })
			}
		}, nil, func(dt orda.Datatype, errs ...errors.OrdaError) {
			x.mu.Lock()
			x.errs += len(errs)
			x.mu.Unlock()
		})
		if slowSub && i == 1 {
			first := cls[0].cuid
			b.MQ.SetSubscribeDelay(func(id, topic string) time.Duration {
				if id != first {
					return slowBy
				}
				return 0
			})
		}
		x.dt = openRT(x.cli, key, typ, i == 0, h)
		x.w = x.dt.(iface.Datatype)
		x.cuid = x.w.GetCUID()
		if !waitState(x) {
			return c.Inconclusive("client %d did not complete its first sync", i)
		}
		if slowSub && i == 1 {
			// the second client has just reported SUBSCRIBED: the first one issues one operation
			// right now, and nothing else happens
			cls = append(cls, x)
			crdt.Apply(cls[0].dt, sureOp(typ, crdt.NewGen(newRand(r.Int63()))))
			c.Step("client rt1 reported SUBSCRIBED (the broker took %v for its SUBSCRIBE); rt0 issues one operation at once", slowBy)
			res := settleAndCompare("after the first sync of a client whose topic subscription the broker processed slowly")
			cls = cls[:1]
			b.MQ.SetSubscribeDelay(nil)
			if res != nil {
				return res
			}
			c.Count("first_syncs_with_slow_broker_subscription", 1)
		}
		// the first sync is complete once the client's topic subscription is active at the broker
		for t := 0; t < 500 && b.MQ.Subscribers("colA/"+key) < i+1; t++ {
			time.Sleep(10 * time.Millisecond)
		}
		if b.MQ.Subscribers("colA/"+key) < i+1 {
			return c.Inconclusive("client %d did not subscribe to its notification topic", i)
		}
		cls = append(cls, x)
	}
	callsAfterEntry := len(rpc.Calls())
	// schedule widening at the RPC boundary: a served request's response stays on the way for
	// 0-5 ms (so notifications of later pushes overtake it); a solo client additionally loses
	// 40 % of the responses to its pushes (its own notification then finds it behind)
	{
		var fmu sync.Mutex
		fr := newRand(r.Int63())
		var drop func(*model.PushPullMessage) bool
		if solo {
			drop = func(req *model.PushPullMessage) bool {
				n := 0
				for _, p := range req.PushPullPacks {
					n += len(p.Operations)
				}
				fmu.Lock()
				defer fmu.Unlock()
				return n > 0 && fr.Intn(10) < 4
			}
		}
		rpc.SetFaults(drop, func(*model.PushPullMessage) time.Duration {
			fmu.Lock()
			defer fmu.Unlock()
			if fr.Intn(2) == 0 {
				return 0
			}
			return time.Duration(fr.Intn(5000)) * time.Microsecond
		})
		defer rpc.SetFaults(nil, nil)
	}
	var deliverStarts, ownNotifications int64
	// which client caused the notification (receiver, sseq) - and did the receiver start a sync
	// because of it? A sync started by a notification the client caused itself is a violation.
	var nmu sync.Mutex
	ownAt := map[string]bool{} // receiver cuid + "/" + sseq -> caused by the receiver itself
	reactedToOwn := ""
	b.OnHook(func(point string, args ...interface{}) {
		switch point {
		case "dm.deliver.start":
			atomic.AddInt64(&deliverStarts, 1)
		case "dm.notification":
			if len(args) >= 3 {
				nmu.Lock()
				ownAt[fmt.Sprintf("%v/%v", args[0], args[2])] = args[0] == args[1]
				nmu.Unlock()
				if args[0] == args[1] {
					atomic.AddInt64(&ownNotifications, 1)
				}
			}
		case "dm.sync.on-notification":
			if len(args) >= 2 {
				nmu.Lock()
				if ownAt[fmt.Sprintf("%v/%v", args[0], args[1])] && reactedToOwn == "" {
					reactedToOwn = fmt.Sprintf("client %v started a push-pull because of the notification for sseq %v, which its own push had caused", short(fmt.Sprint(args[0])), args[1])
				}
				nmu.Unlock()
			}
		}
	})
	if c.Index%4 == 1 {
		// the topic of a key is shared by whatever datatype carries that key: a notification that
		// names ANOTHER datatype id (e.g. of a datatype of that key that existed before a reset),
		// with a far larger sequence number, reaches every client; it concerns none of them and
		// must not change how they treat the notifications of their own datatype
		b.MQ.Inject("colA/"+key, []byte(fmt.Sprintf(`{"CUID":"%s","DUID":"%s","sseq":%d}`, crdt.SeededCUID(r), crdt.SeededCUID(r), uint64(1)<<40)))
		c.Step("a notification naming another datatype id is delivered on the key's topic")
		c.Count("foreign_datatype_notifications_injected", 1)
	}
	// local operations from the clients' own goroutines, at random moments
	var wg sync.WaitGroup
	nops := 3 + r.Intn(8)
	seeds := make([]int64, ncli)
	for i := range seeds {
		seeds[i] = r.Int63()
	}
	for i, x := range cls {
		wg.Add(1)
		go func(i int, x *rtClient) {
			defer wg.Done()
			g := crdt.NewGen(newRand(seeds[i]))
			rep := &crdt.Rep{Typ: typ, DT: x.dt, W: x.w}
			for j := 0; j < nops; j++ {
				if g.R.Intn(4) == 0 {
					// a committed user transaction of 2-3 calls: one unit, delivered as a whole
					var body []crdt.Op
					for b := 0; b < 2+g.R.Intn(2); b++ {
						body = append(body, sureOp(typ, g))
					}
					runTx(rep, body, nil, false)
				} else {
					crdt.Apply(x.dt, g.Op(rep))
				}
				time.Sleep(time.Duration(g.R.Intn(4)) * time.Millisecond)
			}
		}(i, x)
	}
	wg.Wait()
	c.Step("%d clients issued %d operations each from their own goroutines; waiting for logical quiescence", ncli, nops)
	if res := settleAndCompare("after the concurrent phase"); res != nil {
		return res
	}
	if ncli >= 2 {
		// epilogues, steered by logical events only. A's push is in flight (served, its response
		// held at the front) and
		//  variant 0: A issues a second operation meanwhile, and the notification of an operation
		//             that B pushed BEFORE A's request was served reaches A during that flight
		//             (deliveries were held at the broker);
		//  variant 1: B pushes AFTER A's request was served (so A's response cannot contain it)
		//             and B's notification reaches A during that flight.
		// Nothing else happens afterwards: whatever A and B issued must still reach everybody.
		variant := []int{0, 1, 2, 0}[(c.Index/2)%4] // the first shape depends most on scheduling: it gets half of the cases
		A, B := cls[0], cls[1]
		gA := crdt.NewGen(newRand(r.Int63()))
		released := true
		release := func() {
			if !released {
				released = true
				b.MQ.Release()
			}
		}
		defer release()
		if variant == 2 {
			// two notifications of B wait at the broker; released together, the first makes A pull
			// (its request is served, the response held at the front), the second is stale and sits
			// in A's notification queue; then B pushes again: that third notification reaches a
			// client whose receive loop is busy and whose queue already holds one. It announces an
			// operation A's held response cannot contain, so it must not get lost.
			b.MQ.Hold()
			released = false
			for k := 0; k < 2; k++ {
				pubs0 := b.MQ.NumPubs()
				crdt.Apply(B.dt, sureOp(typ, gA))
				for t := 0; t < 500 && b.MQ.NumPubs() == pubs0; t++ {
					time.Sleep(10 * time.Millisecond)
				}
				if b.MQ.NumPubs() == pubs0 {
					return c.Inconclusive("epilogue: B's push was not announced within 5 s")
				}
			}
			served := make(chan struct{}, 1)
			letGo := make(chan struct{})
			var armed int32 = 1
			rpc.SetFaults(nil, func(req *model.PushPullMessage) time.Duration {
				if req.Cuid == A.cuid && atomic.CompareAndSwapInt32(&armed, 1, 0) {
					served <- struct{}{}
					select {
					case <-letGo:
					case <-time.After(5 * time.Second):
					}
				}
				return 0
			})
			release() // both notifications reach A; the first starts a pull
			select {
			case <-served:
			case <-time.After(5 * time.Second):
				close(letGo)
				return c.Inconclusive("epilogue: A did not start a pull on B's notifications within 5 s")
			}
			time.Sleep(20 * time.Millisecond) // schedule shaping only: let the second notification reach A's queue
			pubs0 := b.MQ.NumPubs()
			crdt.Apply(B.dt, sureOp(typ, gA))
			for t := 0; t < 500 && (b.MQ.NumPubs() == pubs0 || b.MQ.Queued() != 0); t++ {
				time.Sleep(10 * time.Millisecond)
			}
			time.Sleep(20 * time.Millisecond) // schedule shaping only: the third notification is at A now
			close(letGo)
			c.Step("epilogue variant 2")
			c.Count("epilogues_variant_2", 1)
			if res := settleAndCompare("after a third notification met a busy receive loop whose queue already held a stale one"); res != nil {
				return res
			}
		}
		if variant == 0 {
			b.MQ.Hold()
			released = false
			pubs0 := b.MQ.NumPubs()
			crdt.Apply(B.dt, sureOp(typ, gA))
			for t := 0; t < 500 && b.MQ.NumPubs() == pubs0; t++ {
				time.Sleep(10 * time.Millisecond)
			}
			if b.MQ.NumPubs() == pubs0 {
				return c.Inconclusive("epilogue: B's push was not announced within 5 s")
			}
		}
		if variant != 2 {
			served := make(chan struct{}, 1)
			arrived := make(chan struct{}, 1)
			var armed int32 = 1
			var seenInFlight int32
			b.OnHook(func(point string, args ...interface{}) {
				if point == "dm.notification" && len(args) >= 2 && args[0] == A.cuid && args[1] == B.cuid {
					select {
					case arrived <- struct{}{}:
					default:
					}
				}
			})
			rpc.SetFaults(nil, func(req *model.PushPullMessage) time.Duration {
				if req.Cuid == A.cuid && atomic.CompareAndSwapInt32(&armed, 1, 0) {
					served <- struct{}{}
					select {
					case <-arrived:
						atomic.StoreInt32(&seenInFlight, 1)
					case <-time.After(3 * time.Second):
					}
					return 5 * time.Millisecond
				}
				return 0
			})
			crdt.Apply(A.dt, sureOp(typ, gA))
			select {
			case <-served:
			case <-time.After(5 * time.Second):
				return c.Inconclusive("epilogue: A's push did not reach the front within 5 s")
			}
			stage := ""
			if variant == 0 {
				crdt.Apply(A.dt, sureOp(typ, gA)) // while A's push is in flight
				release()                         // B's earlier notification now reaches A, still during the flight
				stage = "after a push in flight met a second local operation and a delayed foreign notification"
			} else {
				crdt.Apply(B.dt, sureOp(typ, gA)) // committed after A's request was served; announced to A during the flight
				stage = "after a notification arrived during the client's own push whose response cannot contain the announced operation"
			}
			c.Step("epilogue variant %d", variant)
			c.Count(fmt.Sprintf("epilogues_variant_%d", variant), 1)
			epilogueSeen := &seenInFlight
			defer func() {
				if atomic.LoadInt32(epilogueSeen) == 1 {
					c.Count("epilogue_notification_arrived_during_flight", 1)
				} else {
					c.Count("epilogue_notification_not_seen_during_flight", 1)
				}
			}()
			if res := settleAndCompare(stage); res != nil {
				return res
			}
		}
	}
	nmu.Lock()
	reacted := reactedToOwn
	nmu.Unlock()
	if reacted != "" {
		return c.Violation("sync-on-own-notification", "%s", reacted)
	}
	c.Count("realtime_runs_converged", 1)
	c.Count("realtime_rpcs", int64(len(rpc.Calls())))
	c.Count("realtime_notifications", int64(b.MQ.NumPubs()))
	if solo {
		// every push-pull of a solo client must stem from a local transaction (each delivery
		// goroutine syncs at most once); one more than that is a reaction to a notification,
		// and a solo client only ever receives notifications caused by itself.
		n := int64(0)
		for _, call := range rpc.Calls()[callsAfterEntry:] {
			if call.Method == "ProcessPushPull" {
				n++
			}
		}
		if ds := atomic.LoadInt64(&deliverStarts); n > ds {
			// more syncs than delivery goroutines: with one goroutine per delivery that means a
			// reaction to an own notification, but a client may also retry inside one goroutine;
			// the verdict is the join of notification and sync events above, this is a diagnostic
			c.Count("diag_more_syncs_than_delivery_goroutines", 1)
		}
		c.Count("own_notifications_ignored", atomic.LoadInt64(&ownNotifications))
		c.Count("solo_runs", 1)
	}
	var order []string
	for _, call := range rpc.Calls() {
		order = append(order, call.CUID[:4]+call.Method[7:8])
	}
	c.Fingerprint(core.Hash(order...))
	if ncli >= 2 || solo {
		c.NonTrivial()
	}
	return c.Held()
}
