package props

import (
	"context"
	"encoding/json"
	"fmt"
	"sort"
	"strings"
	"sync"
	"sync/atomic"
	"time"

	"github.com/anishathalye/porcupine"
	"github.com/orda-io/orda/client/pkg/model"
	"google.golang.org/protobuf/proto"
	"vh/bed"
	"vh/core"
	"vh/crdt"
	"vh/fakemongo"
)

func init() {
	core.Register(&core.Prop{
		ID:          "C12",
		MaxBatch:    30,
		Level:       "exploration",
		Workers:     4,
		Race:        true,
		CaseTimeout: 240e9,
		Rule: "real parallel executions under the Go race detector: 2-16 clients call ProcessPushPull at the same instant on a shared key and on their own keys (each call with its own context, cancelled on return), mixed with ProcessClient and PatchDocument calls (one document its owner pushes to, and three documents nothing else touches, patched at the same instant and answered with exactly their targets), with pull-only requests of a subscribed reader that carry the read-only bit, in several waves, with random yields / sleeps injected at the push-pull hook points and at database commands; monitors: (1) critical-section overlap from the cs-enter / cs-exit hook events per (collection, key); (2) linearizability of the recorded call/return history of every key against the sequential push-pull specification (porcupine, partitioned by key; operations carry unique ids; an error reply is a no-op); (3) store invariants of C06 at the end; (4) independence: one key's handler is held inside its critical section by a gate on its database write while requests on other keys (one existing, 40 fresh ones) must return and must not be refused for their lock; (5) every request returns (watchdog classification), including pull-only requests of a client that gives up (context cancelled before the call, 0.1-2 ms into it, or exactly when its handler is about to take the key's lock - hook pp.before-lock), and afterwards sequential fault-free syncs of all clients reach quiescence (a leaked lock or a blocked key shows here); (6) race-detector reports attributed to orda code (none of the accesses in harness code), deduplicated by the pair of innermost orda functions; " +
			"non-trivial = >= 3 clients pushed operations to the shared key in the same wave; distinct = hash of the observed per-key critical-section entry order (the interleaving actually seen)",
		Assumptions: []string{
			"only the in-process local lock is exercised (no Redis in the sandbox); a single server process",
			"an error reply (lock wait expired, unchanged document write) is modelled as a request without effect",
			"porcupine timeout (20 s per history) => inconclusive",
		},
		Trusted: []string{"fakemongo (gates, delays)", "fakemqtt", "harness transport (direct mode)", "porcupine v1.3.0", "Go race detector"},
		Cases:   func(t string) int { return tierN(t, 60, 2000) },
		Floor:   func(t string) int { return tierN(t, 20, 500) },
		Run:     runC12,
	})
}

// ---- sequential specification of push-pull on one datatype

type ppIn struct {
	cuid  string
	opt   uint32
	reqS  uint64
	offer string // "seq,seq,..."
	own   bool   // the request carries the datatype's own DUID (the creator, or a subscribed client)
}

type ppOut struct {
	err    bool
	s, c   uint64
	pulled string // "cuid:seq,..."
	opt    uint32
}

type ppState struct {
	log string // "cuid:seq,cuid:seq"
	cps string // "cuid=cseq;..." sorted (subscribed clients)
}

func parseCPs(s string) map[string]uint64 {
	m := map[string]uint64{}
	if s == "" {
		return m
	}
	for _, kv := range strings.Split(s, ";") {
		i := strings.Index(kv, "=")
		var v uint64
		fmt.Sscan(kv[i+1:], &v)
		m[kv[:i]] = v
	}
	return m
}

func fmtCPs(m map[string]uint64) string {
	var ks []string
	for k := range m {
		ks = append(ks, k)
	}
	sort.Strings(ks)
	var sb []string
	for _, k := range ks {
		sb = append(sb, fmt.Sprintf("%s=%d", k, m[k]))
	}
	return strings.Join(sb, ";")
}

func ppStep(st, input, output interface{}) (bool, interface{}) {
	s := st.(ppState)
	i := input.(ppIn)
	o := output.(ppOut)
	if o.err {
		return true, st // refused / failed request: no effect
	}
	var lg []string
	if s.log != "" {
		lg = strings.Split(s.log, ",")
	}
	cps := parseCPs(s.cps)
	exists := len(lg) > 0
	c, subscribed := cps[i.cuid]
	create := i.opt&uint32(model.PushPullBitCreate) != 0
	subscribe := i.opt&uint32(model.PushPullBitSubscribe) != 0
	var offer []uint64
	if i.offer != "" {
		for _, x := range strings.Split(i.offer, ",") {
			var v uint64
			fmt.Sscan(x, &v)
			offer = append(offer, v)
		}
	}
	asSubscribe := false
	switch {
	case !exists:
		if !create {
			return false, st // nothing to subscribe / unknown datatype: must have been an error
		}
		c, subscribed = 0, true
	case subscribe && (!subscribed || !i.own):
		asSubscribe = true
		offer = nil
		if !subscribed {
			c = 0
		}
	case create && !subscribe && !subscribed:
		return false, st // duplicate key
	case !subscribed:
		return false, st
	}
	var pulled []string
	if int(i.reqS) < len(lg) {
		pulled = append(pulled, lg[i.reqS:]...)
	}
	for _, sq := range offer {
		switch {
		case sq == c+1:
			lg = append(lg, fmt.Sprintf("%s:%d", i.cuid, sq))
			c = sq
		case sq <= c:
		default:
			return false, st // gap: must have been an error
		}
	}
	cps[i.cuid] = c
	okSub := (o.opt&uint32(model.PushPullBitSubscribe) != 0) == asSubscribe
	ok := okSub && o.s == uint64(len(lg)) && o.c == c && o.pulled == strings.Join(pulled, ",")
	return ok, ppState{strings.Join(lg, ","), fmtCPs(cps)}
}

type keyedIn struct {
	key string
	in  ppIn
}

var ppModel = porcupine.Model{
	Init: func() interface{} { return ppState{} },
	Step: func(st, in, out interface{}) (bool, interface{}) {
		return ppStep(st, in.(keyedIn).in, out)
	},
	Equal: func(a, b interface{}) bool { return a.(ppState) == b.(ppState) },
	Partition: func(h []porcupine.Operation) [][]porcupine.Operation {
		m := map[string][]porcupine.Operation{}
		for _, op := range h {
			k := op.Input.(keyedIn).key
			m[k] = append(m[k], op)
		}
		var ks []string
		for k := range m {
			ks = append(ks, k)
		}
		sort.Strings(ks)
		var out [][]porcupine.Operation
		for _, k := range ks {
			out = append(out, m[k])
		}
		return out
	},
	DescribeOperation: func(in, out interface{}) string {
		return fmt.Sprintf("%+v -> %+v", in, out)
	},
}

// ---- critical-section monitor

type csMonitor struct {
	mu      sync.Mutex
	inside  map[string]int
	order   []string
	overlap string
	nolock  string
}

func (m *csMonitor) hook(point string, args ...interface{}) {
	if len(args) < 5 {
		return
	}
	locked, _ := args[1].(bool)
	key := fmt.Sprintf("%v:%v", args[2], args[3])
	cuid, _ := args[4].(string)
	m.mu.Lock()
	defer m.mu.Unlock()
	switch point {
	case "pp.cs-enter":
		if locked {
			m.inside[key]++
			m.order = append(m.order, key+"<"+short(cuid))
			if m.inside[key] > 1 && m.overlap == "" {
				m.overlap = fmt.Sprintf("%d handlers are inside the critical section of %s at the same time (entry order so far: %v)", m.inside[key], key, m.order)
			}
		}
	case "pp.cs-exit":
		if locked {
			m.inside[key]--
		}
	case "pp.before-commit":
		if !locked && m.nolock == "" {
			m.nolock = fmt.Sprintf("a handler of %s (client %s) reached its commit without holding the lock", key, short(cuid))
		}
	}
}

func short(s string) string {
	if len(s) > 4 {
		return s[:4]
	}
	return s
}

func runC12(c *core.Case) *core.Result {
	w, err := newSvcWorld(c, "colA")
	if err != nil {
		return c.Inconclusive("test bed did not start: %v", err)
	}
	defer w.close()
	r := c.Rng
	ncli := 2 + r.Intn(7)
	if c.Index%5 == 0 {
		ncli = 9 + r.Intn(8)
	}
	raceEntry := c.Index%3 == 0 // clients race their subscribe-or-create
	typ := []string{"counter", "list", "map"}[r.Intn(3)]
	c.Step("clients=%d type=%s racing-entry=%v", ncli, typ, raceEntry)
	sharedKey := fmt.Sprintf("shared-%d-%d", c.Index, r.Intn(1<<30)) // a lock name this process has never seen
	mon := &csMonitor{inside: map[string]int{}}
	w.b.OnHook(mon.hook)
	// schedule widening at hook points and database commands
	var jitter int64 = int64(1 + r.Intn(3))
	seedJ := r.Int63()
	var jc int64
	w.b.OnHook(func(point string, args ...interface{}) {
		n := atomic.AddInt64(&jc, 1)
		switch (seedJ + n*7919) % 5 {
		case 0:
			time.Sleep(time.Duration(jitter) * 200 * time.Microsecond)
		case 1:
			time.Sleep(50 * time.Microsecond)
		}
	})
	w.b.DB.SetPlan(func(cmd *fakemongo.Cmd) fakemongo.Action {
		n := atomic.AddInt64(&jc, 1)
		if (seedJ+n*104729)%7 == 0 {
			return fakemongo.Action{Delay: time.Duration(100+(n%5)*100) * time.Microsecond}
		}
		return fakemongo.Action{}
	})
	var hmu sync.Mutex
	var hist []porcupine.Operation
	var clock int64
	errReplies := int64(0)
	type cc struct {
		cl      *bed.Client
		shared  *bed.DT
		own     *bed.DT
		ownDUID map[string]bool
	}
	var clients []*cc
	for i := 0; i < ncli; i++ {
		cl := w.b.NewClient("colA", fmt.Sprintf("p%d", i))
		w.cls = append(w.cls, cl)
		mode := bed.SubscribeOrCreate
		x := &cc{cl: cl}
		x.shared = cl.Open(sharedKey, typ, mode)
		x.own = cl.Open(fmt.Sprintf("own%d-%d", i, c.Index), "counter", bed.Create)
		cl.Register()
		clients = append(clients, x)
	}
	// one exchange of one client, recorded at the boundary
	var violation atomic.Value
	exchange := func(cid int, x *cc, dts ...*bed.DT) {
		req := x.cl.BuildRequest(dts...)
		w.ledger.Offer(req)
		type rec struct {
			in keyedIn
		}
		var ins []keyedIn
		for _, p := range req.PushPullPacks {
			var seqs []string
			for _, o := range p.Operations {
				seqs = append(seqs, fmt.Sprint(o.ID.Seq))
			}
			own := false
			if dd := w.b.Datatype(w.colNum, p.Key); dd != nil && dd.DUID == p.DUID {
				own = true
			}
			ins = append(ins, keyedIn{p.Key, ppIn{cuid: short(x.cl.Model.CUID), opt: p.Option, reqS: p.CheckPoint.Sseq, offer: strings.Join(seqs, ","), own: own}})
		}
		call := atomic.AddInt64(&clock, 1)
		ex := x.cl.Send(req)
		ret := atomic.AddInt64(&clock, 1)
		if ex.Out.Panic != "" {
			violation.Store([2]string{"server-panic", "ProcessPushPull panicked: " + ex.Out.Panic})
			return
		}
		if ex.Out.TimedOut {
			if ex.Out.Hang {
				violation.Store([2]string{"request-hang", "a concurrent ProcessPushPull never returned\n" + clipDump(ex.Out.Dump)})
			} else {
				violation.Store([2]string{"INCONCLUSIVE", "request watchdog"})
			}
			return
		}
		outs := map[string]ppOut{}
		if ex.Out.Err != nil {
			atomic.AddInt64(&errReplies, 1)
			for _, in := range ins {
				outs[in.key] = ppOut{err: true}
			}
		} else {
			for _, p := range ex.Resp.PushPullPacks {
				if bed.IsErrorPack(p) {
					atomic.AddInt64(&errReplies, 1)
					outs[p.Key] = ppOut{err: true}
					continue
				}
				var pl []string
				for _, o := range p.Operations {
					pl = append(pl, fmt.Sprintf("%s:%d", short(o.ID.CUID), o.ID.Seq))
				}
				outs[p.Key] = ppOut{s: p.CheckPoint.Sseq, c: p.CheckPoint.Cseq, pulled: strings.Join(pl, ","), opt: p.Option}
			}
			if pm := x.cl.Apply(ex.Resp); pm != "" {
				violation.Store([2]string{"client-panic", "ApplyPushPullPack panicked: " + pm})
			}
		}
		hmu.Lock()
		for _, in := range ins {
			o, ok := outs[in.key]
			if !ok {
				violation.Store([2]string{"missing-pack", fmt.Sprintf("the response carries no pack for key %s", in.key)})
				continue
			}
			hist = append(hist, porcupine.Operation{ClientId: cid, Input: in, Call: call, Output: o, Return: ret})
		}
		hmu.Unlock()
	}
	parallel := func(f func(i int, x *cc)) {
		var wg sync.WaitGroup
		start := make(chan struct{})
		for i, x := range clients {
			wg.Add(1)
			go func(i int, x *cc) {
				defer wg.Done()
				<-start
				f(i, x)
			}(i, x)
		}
		close(start)
		wg.Wait()
	}
	// ---- entry
	if raceEntry {
		parallel(func(i int, x *cc) { exchange(i, x) })
	} else {
		for i, x := range clients {
			exchange(i, x)
		}
	}
	if v, ok := violation.Load().([2]string); ok {
		return verdict(c, "", v[0], v[1])
	}
	// retries for clients whose entry was refused (lock expiry etc.)
	for try := 0; try < 3; try++ {
		for i, x := range clients {
			if x.shared.DT.GetState() != model.StateOfDatatype_SUBSCRIBED || x.own.DT.GetState() != model.StateOfDatatype_SUBSCRIBED {
				exchange(i, x)
			}
		}
	}
	// ---- waves of simultaneous pushes, with ProcessClient / PatchDocument traffic mixed in
	w.ledger.SkipKeys["pdoc"] = true
	docCl := w.b.NewClient("colA", "docowner")
	docD := docCl.Open("pdoc", "doc", bed.Create)
	docCl.Register()
	w.cls = append(w.cls, docCl)
	if _, sig, msg := w.sync(docCl); sig != "" {
		return verdict(c, "setup:", sig, msg)
	}
	// a client that gives up: its pull-only requests on the shared key run with a context that
	// is cancelled before the call or while the handler queues for / holds the key's lock (a
	// client-side timeout or disconnect); the responses are never applied. A pull-only request
	// of a subscribed client has no effect on the log, so these calls are not part of the
	// linearizability history; what matters is what they leave behind (a held lock).
	ghostCl := w.b.NewClient("colA", "ghost")
	ghostD := ghostCl.Open(sharedKey, typ, bed.Subscribe)
	ghostCl.Register()
	ghostOK := false
	if ghostD != nil {
		for try := 0; try < 3 && !ghostOK; try++ {
			if ex, _ := ghostCl.Sync(); ex != nil && !ex.Out.TimedOut && ghostD.DT.GetState() == model.StateOfDatatype_SUBSCRIBED {
				ghostOK = true
			}
		}
	}
	// a reader: subscribed to the shared key, it sends pull-only requests that carry the
	// read-only bit while the waves push (a dashboard that only ever reads). Its responses are
	// not applied and, like the ghost's, its calls are not part of the linearizability history:
	// what matters is that the server serialises them with the writers of the key like any other
	// request for it (the critical-section monitor sees every handler).
	readerCl := w.b.NewClient("colA", "reader")
	readerD := readerCl.Open(sharedKey, typ, bed.Subscribe)
	readerCl.Register()
	readerOK := false
	if readerD != nil {
		for try := 0; try < 3 && !readerOK; try++ {
			if ex, _ := readerCl.Sync(); ex != nil && !ex.Out.TimedOut && readerD.DT.GetState() == model.StateOfDatatype_SUBSCRIBED {
				readerOK = true
			}
		}
	}
	var readOnlyPulls, soloPatches int64
	defer func() { c.Count("independent_rest_patches_answered_with_their_target", atomic.LoadInt64(&soloPatches)) }()
	readerSend := func() {
		req := readerCl.BuildRequest(readerD)
		for _, p := range req.PushPullPacks {
			p.Option |= uint32(model.PushPullBitReadOnly)
		}
		ex := readerCl.Send(req)
		if ex.Out.Panic != "" {
			violation.Store([2]string{"server-panic", "ProcessPushPull of a read-only pull panicked: " + ex.Out.Panic})
		} else if ex.Out.TimedOut {
			if ex.Out.Hang {
				violation.Store([2]string{"request-hang", "a read-only pull never returned\n" + clipDump(ex.Out.Dump)})
			} else {
				violation.Store([2]string{"INCONCLUSIVE", "request watchdog (read-only pull)"})
			}
		}
		atomic.AddInt64(&readOnlyPulls, 1)
	}
	defer func() { c.Count("read_only_pulls_during_waves", atomic.LoadInt64(&readOnlyPulls)) }()
	var abandoned, cancelledAtLock int64
	var atLock atomic.Value // func(): cancels the ghost's current request when its handler is about to take the lock
	atLock.Store(func() {})
	w.b.OnHook(func(point string, args ...interface{}) {
		if point == "pp.before-lock" && len(args) >= 4 && ghostCl.Model != nil && args[3] == ghostCl.Model.CUID {
			atLock.Load().(func())()
		}
	})
	ghostSend := func(delay time.Duration) {
		req := ghostCl.BuildRequest(ghostD)
		ctx, cancel := context.WithCancel(context.Background())
		switch {
		case delay < 0: // exactly between the request's lookups and its TryLock
			atLock.Store(func() { cancel(); atomic.AddInt64(&cancelledAtLock, 1) })
			defer atLock.Store(func() {})
		case delay == 0:
			cancel()
		default:
			time.AfterFunc(delay, cancel)
		}
		done := make(chan string, 1)
		svc := w.b.Svc
		go func() {
			pm := safely(func() { svc.ProcessPushPull(ctx, proto.Clone(req).(*model.PushPullMessage)) })
			done <- pm
		}()
		select {
		case pm := <-done:
			if pm != "" {
				violation.Store([2]string{"server-panic", "ProcessPushPull with a cancelled context panicked: " + pm})
			}
		case <-time.After(20 * time.Second):
			d := bed.Stacks()
			if !bed.HandlerAlive(d) {
				violation.Store([2]string{"request-hang", "a request whose context was cancelled never returned\n" + clipDump(d)})
			} else {
				violation.Store([2]string{"INCONCLUSIVE", "request watchdog (cancelled-context request)"})
			}
		}
		cancel()
		atomic.AddInt64(&abandoned, 1)
	}
	// probe: the shared key is usable: one client, one request at a time, no fault, no
	// concurrency. Three refusals in a row mean the key stayed blocked (decided right after an
	// abandoned request and before the slower monitors, so that a leaked lock does not cost a
	// lease time per remaining request).
	probe := func() *core.Result {
		for _, x := range clients {
			if x.shared.DT.GetState() != model.StateOfDatatype_SUBSCRIBED {
				continue
			}
			refused := 0
			for try := 0; try < 3; try++ {
				before := w.errPacks + w.rpcErrs
				if _, sig, msg := w.sync(x.cl, x.shared); sig != "" {
					return verdict(c, "", sig, msg)
				}
				if w.errPacks+w.rpcErrs == before {
					break
				}
				refused++
			}
			if refused == 3 {
				return c.Violation("key-blocked-after-abandoned-request", "a single client synced the shared key three times, one request at a time and without any fault, and was refused every time: the key's lock was never released (%d requests were abandoned by their client so far, %d of them cancelled when their handler was about to take the lock)", atomic.LoadInt64(&abandoned), atomic.LoadInt64(&cancelledAtLock))
			}
			break
		}
		return nil
	}
	waves := 3 + r.Intn(3)
	nt := false
	for wv := 0; wv < waves; wv++ {
		pushers := 0
		for _, x := range clients {
			if x.shared.DT.GetState() == model.StateOfDatatype_SUBSCRIBED && r.Intn(4) > 0 {
				for j := 0; j < 1+r.Intn(3); j++ {
					crdt.Apply(x.shared.DT, w.g.Op(wrapRep(x.shared)))
				}
				pushers++
			}
			if x.own.DT.GetState() == model.StateOfDatatype_SUBSCRIBED && r.Intn(2) == 0 {
				crdt.Apply(x.own.DT, crdt.Op{Kind: "inc", N: 1})
			}
		}
		if pushers >= 3 {
			nt = true
		}
		crdt.Apply(docD.DT, crdt.Op{Kind: "put", Key: fmt.Sprintf("w%d", wv), Val: "x"})
		c.Step("wave %d: %d clients sync simultaneously (%d push to the shared key)", wv, len(clients), pushers)
		var side sync.WaitGroup
		side.Add(3)
		if ghostOK {
			delays := []time.Duration{-1, -1, 0, 100 * time.Microsecond, 500 * time.Microsecond, 2 * time.Millisecond}
			d1, d2 := delays[r.Intn(len(delays))], delays[r.Intn(len(delays))]
			side.Add(1)
			go func() {
				defer side.Done()
				ghostSend(d1)
				ghostSend(d2)
			}()
		}
		if readerOK {
			nr := 2 + r.Intn(3)
			gap := time.Duration(r.Intn(800)) * time.Microsecond
			side.Add(1)
			go func() {
				defer side.Done()
				for j := 0; j < nr; j++ {
					readerSend()
					time.Sleep(gap)
				}
			}()
		}
		go func() { // re-registration traffic
			defer side.Done()
			for _, x := range clients[:minInt(3, len(clients))] {
				out := bed.Guard(10e9, func(ctx context.Context) error {
					_, err := w.b.Svc.ProcessClient(ctx, x.cl.ClientMessage())
					return err
				})
				if out.Panic != "" {
					violation.Store([2]string{"server-panic", "ProcessClient panicked: " + out.Panic})
				}
			}
		}()
		// REST patches of three documents that nothing else touches, at the same instant: keys
		// of their own are independent of each other and of everything else in the wave, so
		// every call is answered with exactly the document it asked for
		for k := 0; k < 3; k++ {
			key := fmt.Sprintf("solo%d", k)
			w.ledger.SkipKeys[key] = true
			target := fmt.Sprintf(`{"k":%d,"pad":"%s","w":%d}`, k, strings.Repeat(string(rune('a'+k)), 10+40*k+wv), wv)
			side.Add(1)
			go func() {
				defer side.Done()
				var got string
				out := bed.Guard(15e9, func(ctx context.Context) error {
					resp, err := w.b.Svc.PatchDocument(ctx, &model.PatchMessage{Collection: "colA", Key: key, Json: target})
					if resp != nil {
						got = resp.Json
					}
					return err
				})
				switch {
				case out.Panic != "":
					violation.Store([2]string{"server-panic", "PatchDocument panicked: " + out.Panic})
				case out.TimedOut && out.Hang:
					violation.Store([2]string{"request-hang", "PatchDocument never returned\n" + clipDump(out.Dump)})
				case out.TimedOut:
				case out.Err != nil:
					violation.Store([2]string{"independent-patch-refused", fmt.Sprintf("a REST patch of document %s, which nothing else touches, was refused while patches of other documents ran: %v", key, out.Err)})
				case crdt.Canon(jsonOf(got)) != crdt.Canon(jsonOf(target)):
					violation.Store([2]string{"independent-patch-answer", fmt.Sprintf("a REST patch of document %s to %s, which nothing else touches, was answered with %s while patches of other documents ran at the same time", key, clip(target, 200), clip(got, 200))})
				default:
					atomic.AddInt64(&soloPatches, 1)
				}
			}()
		}
		go func() { // REST patch on a document that its owner pushes to at the same time
			defer side.Done()
			out := bed.Guard(15e9, func(ctx context.Context) error {
				_, err := w.b.Svc.PatchDocument(ctx, &model.PatchMessage{Collection: "colA", Key: "pdoc", Json: fmt.Sprintf(`{"patched":%d}`, wv)})
				return err
			})
			if out.Panic != "" {
				violation.Store([2]string{"server-panic", "PatchDocument panicked: " + out.Panic})
			}
			if out.TimedOut && out.Hang {
				violation.Store([2]string{"request-hang", "PatchDocument never returned\n" + clipDump(out.Dump)})
			}
		}()
		go func() {
			defer side.Done()
			ex, pm := docCl.Sync()
			if pm != "" {
				violation.Store([2]string{"client-panic", "ApplyPushPullPack panicked: " + pm})
			}
			if ex.Out.Panic != "" {
				violation.Store([2]string{"server-panic", "ProcessPushPull panicked: " + ex.Out.Panic})
			}
		}()
		parallel(func(i int, x *cc) { exchange(i, x) })
		side.Wait()
		if v, ok := violation.Load().([2]string); ok {
			return verdict(c, "", v[0], v[1])
		}
		if ghostOK && wv%2 == 0 {
			// the same while the key is quiet: the abandoned request finds the lock free
			ghostSend(-1)
			if res := probe(); res != nil {
				return res
			}
		}
	}
	// ---- independence: hold the shared key's handler inside its critical section
	if len(clients) >= 2 {
		gate := make(chan struct{})
		reached := make(chan struct{}, 1)
		var once sync.Once
		sharedDoc := w.b.Datatype(w.colNum, sharedKey)
		holder, other := clients[0], clients[1]
		if sharedDoc != nil && holder.shared.DT.GetState() == model.StateOfDatatype_SUBSCRIBED && other.own.DT.GetState() == model.StateOfDatatype_SUBSCRIBED {
			crdt.Apply(holder.shared.DT, w.g.Op(wrapRep(holder.shared)))
			crdt.Apply(other.own.DT, crdt.Op{Kind: "inc", N: 1})
			w.b.DB.SetPlan(func(cmd *fakemongo.Cmd) fakemongo.Action {
				// the holder's request is the only one under way: the first write of whatever form
				// (update, find-and-modify, ...) to the datatype documents is its commit
				if isWrite(cmd.Name) && cmd.Coll == "-_-Datatypes" {
					act := fakemongo.Action{}
					once.Do(func() {
						act = fakemongo.Action{GateBefore: gate, OnReached: func() { reached <- struct{}{} }}
					})
					return act
				}
				return fakemongo.Action{}
			})
			done := make(chan struct{})
			go func() { exchange(0, holder, holder.shared); close(done) }()
			select {
			case <-reached:
				c.Step("the handler of key shared is held inside its critical section; a request on another key must return")
				oreq := other.cl.BuildRequest(other.own)
				w.ledger.Offer(oreq)
				ex := other.cl.Send(oreq)
				if ex.Out.TimedOut {
					// one watchdog expiry can be the machine; a request that waits for the held key
					// also waits the second time (the gate is still closed)
					c.Count("independence_request_retried_after_watchdog", 1)
					ex = other.cl.Send(other.cl.BuildRequest(other.own))
				}
				// ... and so must requests on MANY other keys (whatever the lock registry does
				// with names - hashing, striping, prefixes - distinct keys never wait for each other)
				blocked := ""
				prober := w.b.NewClient("colA", fmt.Sprintf("ind%d", c.Index))
				for j := 0; j < 40 && blocked == ""; j++ {
					pk := fmt.Sprintf("ind-%d-%d", c.Index, j)
					pd := prober.Open(pk, "counter", bed.Create)
					if pd == nil {
						break
					}
					if j == 0 {
						prober.Register()
					}
					preq := prober.BuildRequest(pd)
					w.ledger.Offer(preq)
					pex := prober.Send(preq)
					if pex.Out.TimedOut {
						c.Count("independence_request_retried_after_watchdog", 1)
						pex = prober.Send(prober.BuildRequest(pd))
					}
					switch {
					case pex.Out.TimedOut:
						blocked = fmt.Sprintf("a request creating key %q did not return", pk)
					case pex.Out.Err == nil && pex.Resp != nil:
						for _, pp := range pex.Resp.PushPullPacks {
							if bed.IsErrorPack(pp) && len(pp.Operations) > 0 && strings.Contains(string(pp.Operations[0].Body), "fail to lock") {
								blocked = fmt.Sprintf("a request creating key %q was refused because its lock could not be taken", pk)
							}
						}
						prober.Apply(pex.Resp)
					}
					c.Count("independence_probe_keys", 1)
				}
				close(gate)
				if blocked != "" {
					<-done
					return c.Violation("cross-key-blocking", "while the handler of key %q was inside its critical section, %s", sharedKey, blocked)
				}
				if ex.Out.TimedOut {
					<-done
					return c.Violation("cross-key-blocking", "while the handler of key %q was inside its critical section, a request for key %q did not return", sharedKey, other.own.Key)
				}
				other.cl.Apply(ex.Resp)
				c.Count("independence_checks", 1)
			case <-time.After(8 * time.Second):
				close(gate)
			}
			<-done
			w.b.DB.SetPlan(nil)
		}
	}
	w.b.ClearHooks()
	w.b.DB.SetPlan(nil)
	if !w.b.Idle(30 * time.Second) {
		return c.Inconclusive("idle")
	}
	if v, ok := violation.Load().([2]string); ok {
		return verdict(c, "", v[0], v[1])
	}
	if res := probe(); res != nil {
		return res
	}
	mon.mu.Lock()
	overlap, nolock, order := mon.overlap, mon.nolock, strings.Join(mon.order, " ")
	mon.mu.Unlock()
	if overlap != "" {
		return c.Violation("critical-section-overlap", "%s", overlap)
	}
	if nolock != "" {
		return c.Violation("commit-without-lock", "%s", nolock)
	}
	c.Fingerprint(core.Hash(order))
	// ---- linearizability
	res, info := porcupine.CheckOperationsVerbose(ppModel, hist, 20*time.Second)
	_ = info
	switch res {
	case porcupine.Illegal:
		sort.Slice(hist, func(a, b int) bool { return hist[a].Call < hist[b].Call })
		var sb strings.Builder
		for _, h := range hist {
			in := h.Input.(keyedIn)
			if in.key != sharedKey {
				continue
			}
			fmt.Fprintf(&sb, "  c%d [%d,%d] %+v -> %+v\n", h.ClientId, h.Call, h.Return, in.in, h.Output)
		}
		return c.Violation("not-linearizable", "the concurrent push-pull history is not equivalent to any one-at-a-time order of the requests (history of key shared):\n%s", clip(sb.String(), 6000))
	case porcupine.Unknown:
		return c.Inconclusive("linearizability check timed out")
	}
	c.Count("linearizable_histories", 1)
	c.Count("history_operations", int64(len(hist)))
	c.Count("error_replies", errReplies)
	// ---- store invariants and convergence
	if sig, msg := w.b.CheckLog(w.ledger, ""); sig != "" {
		return c.Violation(sig, "%s", msg)
	}
	c.Count("abandoned_requests", atomic.LoadInt64(&abandoned))
	c.Count("abandoned_requests_cancelled_at_lock", atomic.LoadInt64(&cancelledAtLock))
	errsBefore := w.errPacks + w.rpcErrs
	if ok, sig, msg := w.settle(8); sig != "" {
		return verdict(c, "", sig, msg)
	} else if ok {
		if sig, msg := w.finalAgreement(); sig != "" {
			return c.Violation(sig, "%s", msg)
		}
	} else {
		return c.Violation("no-quiescence-after-concurrency", "after the concurrent phase every client synced eight more times, one request at a time and without any fault, and something is still left to push or pull (%d of these sequential requests were answered with an error): a key stays blocked or a client cannot make progress", w.errPacks+w.rpcErrs-errsBefore)
	}
	nDocs := 0
	for _, dd := range w.b.Datatypes() {
		if dd.Key == sharedKey {
			nDocs++
		}
	}
	if nDocs != 1 {
		return c.Violation("several-datatype-docs", "%d datatype documents exist for the shared key", nDocs)
	}
	if nt {
		c.NonTrivial()
	}
	return c.Held()
}

// jsonOf decodes a JSON text (nil when it is none).
func jsonOf(s string) interface{} {
	var v interface{}
	if json.Unmarshal([]byte(s), &v) != nil {
		return nil
	}
	return v
}
