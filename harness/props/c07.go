package props

import (
	"fmt"
	"strings"

	"github.com/orda-io/orda/client/pkg/model"
	"vh/bed"
	"vh/core"
	"vh/crdt"
)

// fault kinds of one exchange
const (
	fNormal   = 'N'
	fDrop     = 'D' // request processed, response discarded
	fDupFirst = 'U' // request processed twice, first response applied
	fDupLast  = 'V' // request processed twice, second response applied
	fDupBoth  = 'W' // request processed twice, both responses applied in order (random part only)
	fStale1   = 'S' // response held and applied after the client's next exchange
	fStale2   = 'T' // response held and applied after the client's next two exchanges
)

var c07Patterns = []string{"ABABA", "ABBAB", "AABBA", "ABCAB", "ABACB", "BAABA", "ABAAB", "AABAB"}
var c07OpMasks = []string{"11111", "10101", "11011"}
var c07Faults = []byte{fDrop, fDupFirst, fDupLast, fStale1, fStale2}

// c07Plans enumerates every assignment of at most two faults to the five exchanges.
func c07Plans() []string {
	plans := []string{"NNNNN"}
	for i := 0; i < 5; i++ {
		for _, f := range c07Faults {
			p := []byte("NNNNN")
			p[i] = f
			plans = append(plans, string(p))
		}
	}
	for i := 0; i < 5; i++ {
		for j := i + 1; j < 5; j++ {
			for _, f := range c07Faults {
				for _, g := range c07Faults {
					p := []byte("NNNNN")
					p[i], p[j] = f, g
					plans = append(plans, string(p))
				}
			}
		}
	}
	return plans
}

var c07AllPlans = c07Plans()

func c07Exhaustive() int { return len(c07Patterns) * len(c07OpMasks) * len(c07AllPlans) * 2 }

// c07Enumerated: the quick tier enumerates the plans for the counter only (even indices).
func c07Enumerated(tier string) int {
	if tier == "thorough" {
		return c07Exhaustive()
	}
	return c07Exhaustive() / 2
}

func init() {
	core.Register(&core.Prop{
		ID:      "C07",
		Level:   "fault_enumeration",
		Workers: 16,
		Rule: fmt.Sprintf("the harness is the network (direct mode over the real service). Exhaustive part: %d exchange patterns of 2-3 clients x %d local-operation masks x every assignment of at most two faults {drop response, duplicate request (first / second response applied), stale response applied after 1 / 2 later exchanges} to the five exchanges x {counter, list} = %d plans (the quick tier enumerates the counter half), each followed by fault-free syncing to quiescence; random part: long histories (<= 80 steps, <= 5 clients, all four types, fault probability 0.2; additionally a duplicated request whose two responses are both applied, in order). Oracle: store invariants (C06), every operation issued on a subscribed datatype is stored exactly once, every replica equals the fault-free replay of the stored log and the server's rebuild, remote handlers saw no operation twice and never an own one; ",
			len(c07Patterns), len(c07OpMasks), c07Exhaustive()) +
			"non-trivial = a fault changed the message flow (a dropped or duplicated exchange carried >= 1 operation, or a stale response was applied after a newer one); distinct = the plan (exhaustive) / hash of the step script (random)",
		Assumptions: []string{
			"in the enumerated plans faults are placed on exchanges of clients that have completed a fault-free first sync; half of the random histories also lose the response of entry (create / subscribe / subscribe-or-create) requests or duplicate the entry request and apply both responses",
			"MongoDB / MQTT are the in-memory stand-ins",
		},
		Trusted:    []string{"fakemongo", "fakemqtt", "harness transport (direct mode)", "monitors in /verif/harness"},
		Cases:      func(t string) int { return c07Enumerated(t) + tierN(t, 300, 6000) },
		Floor:      func(t string) int { return tierN(t, 2000, 4000) },
		Exhaustive: func(t string) bool { return true }, // for the stated plan space (quick: counter only)
		Run:        runC07,
	})
}

type heldResp struct {
	resp  *model.PushPullMessage
	after int // apply after this many more exchanges of the client
}

type c07world struct {
	w      *svcWorld
	dts    map[*bed.Client]*bed.DT
	held   map[*bed.Client][]*heldResp
	issued int
	nt     bool
}

// exchange performs one exchange of cl under fault f.
func (x *c07world) exchange(cl *bed.Client, f byte) (string, string) {
	w := x.w
	req := cl.BuildRequest()
	w.ledger.Offer(req)
	nops := 0
	for _, p := range req.PushPullPacks {
		nops += len(p.Operations)
	}
	w.c.Step("%s exchange fault=%c ops=%d", cl.Alias, f, nops)
	send := func() (*bed.Exchange, string, string) {
		ex := cl.Send(req)
		if ex.Out.Panic != "" {
			return ex, "server-panic", "ProcessPushPull panicked: " + ex.Out.Panic
		}
		if ex.Out.TimedOut {
			if ex.Out.Hang {
				return ex, "request-hang", "ProcessPushPull never returned\n" + clipDump(ex.Out.Dump)
			}
			return ex, "INCONCLUSIVE", "request watchdog"
		}
		if !w.idle() {
			return ex, "INCONCLUSIVE", "server side did not become idle"
		}
		return ex, "", ""
	}
	apply := func(resp *model.PushPullMessage, what string) (string, string) {
		if resp == nil {
			return "", ""
		}
		if pm := cl.Apply(resp); pm != "" {
			return "client-panic", fmt.Sprintf("ApplyPushPullPack panicked on a %s response: %s", what, pm)
		}
		if !w.idle() {
			return "INCONCLUSIVE", "handlers did not finish"
		}
		return "", ""
	}
	ex, sig, msg := send()
	if sig != "" {
		return sig, msg
	}
	var toApply *model.PushPullMessage
	switch f {
	case fNormal:
		toApply = ex.Resp
	case fDrop:
		if nops > 0 {
			x.nt = true
		}
		w.c.Count("faults_drop_response", 1)
	case fDupFirst, fDupLast, fDupBoth:
		ex2, sig, msg := send()
		if sig != "" {
			return sig, msg
		}
		if nops > 0 {
			x.nt = true
		}
		w.c.Count("faults_duplicate_request", 1)
		toApply = ex.Resp
		if f == fDupLast {
			toApply = ex2.Resp
		}
		if f == fDupBoth {
			if sig, msg := apply(ex.Resp, "first (of a duplicated request)"); sig != "" {
				return sig, msg
			}
			toApply = ex2.Resp
		}
	case fStale1, fStale2:
		n := 1
		if f == fStale2 {
			n = 2
		}
		if ex.Resp != nil {
			x.held[cl] = append(x.held[cl], &heldResp{ex.Resp, n})
		}
		w.c.Count("faults_stale_response", 1)
	}
	if sig, msg := apply(toApply, "current"); sig != "" {
		return sig, msg
	}
	if f == fDupBoth {
		if d := x.dts[cl]; d != nil {
			w.c.Step("%s after both responses: state %v view %s", cl.Alias, d.DT.GetState(), clip(d.View(), 120))
		}
	}
	// stale responses that are due
	var keep []*heldResp
	for _, h := range x.held[cl] {
		if f != fStale1 && f != fStale2 || h.resp != ex.Resp {
			h.after--
		}
		if h.after <= 0 && !(h.resp == ex.Resp) {
			w.c.Step("%s applies a stale response", cl.Alias)
			if toApply != nil {
				x.nt = true
			}
			if sig, msg := apply(h.resp, "stale"); sig != "" {
				return "stale:" + sig, msg
			}
			continue
		}
		keep = append(keep, h)
	}
	x.held[cl] = keep
	return "", ""
}

func (x *c07world) flushHeld() (string, string) {
	for cl, hs := range x.held {
		for _, h := range hs {
			x.w.c.Step("%s applies a stale response (end of script)", cl.Alias)
			if pm := cl.Apply(h.resp); pm != "" {
				return "stale:client-panic", "ApplyPushPullPack panicked on a stale response: " + pm
			}
			x.nt = true
		}
		x.held[cl] = nil
	}
	x.w.idle()
	return "", ""
}

// oracle: after fault-free settling.
func (x *c07world) oracle() (string, string) {
	w := x.w
	if sig, msg := x.flushHeld(); sig != "" {
		return sig, msg
	}
	ok, sig, msg := w.settle(8)
	if sig != "" {
		return sig, msg
	}
	if !ok {
		return "no-quiescence", "after the faults stopped, 8 rounds of syncing every client did not reach a state with nothing left to push or pull"
	}
	if sig, msg := w.b.CheckLog(w.ledger, ""); sig != "" {
		return sig, msg
	}
	// every issued operation is stored exactly once
	for _, cl := range w.cls {
		d := x.dts[cl]
		dd := w.b.Datatype(w.colNum, d.Key)
		if dd == nil {
			return "no-datatype-doc", "datatype document missing"
		}
		stored := 0
		for _, o := range w.b.Ops(dd.DUID) {
			if o.OpID.CUID == cl.Model.CUID {
				stored++
			}
		}
		issuedSeq := d.W.CreatePushPullPack().CheckPoint.Cseq
		if uint64(stored) != issuedSeq {
			return "issued-vs-stored", fmt.Sprintf("client %s issued operations up to seq %d but %d of its operations are stored", cl.Alias, issuedSeq, stored)
		}
	}
	if sig, msg := w.finalAgreement(); sig != "" {
		return sig, msg
	}
	return w.exactlyOnce()
}

// newC07WorldFaultyEntry is newC07World with the responses of some entry requests lost
// (the client retries): creation and subscription under message faults.
func newC07WorldFaultyEntry(c *core.Case, typ string, ncli int) (*c07world, string, string) {
	w, err := newSvcWorld(c, "colA")
	if err != nil {
		return nil, "INCONCLUSIVE", "test bed did not start: " + err.Error()
	}
	x := &c07world{w: w, dts: map[*bed.Client]*bed.DT{}, held: map[*bed.Client][]*heldResp{}}
	r := c.Rng
	for i := 0; i < ncli; i++ {
		cl := w.b.NewClient("colA", string(rune('A'+i)))
		w.cls = append(w.cls, cl)
		mode := bed.Subscribe
		if i == 0 {
			mode = bed.Create
		}
		if r.Intn(2) == 0 {
			mode = bed.SubscribeOrCreate
		}
		d := cl.Open("k", typ, mode)
		x.dts[cl] = d
		if err := cl.Register(); err != nil {
			return x, "INCONCLUSIVE", "register: " + err.Error()
		}
		if i == 0 || mode == bed.SubscribeOrCreate && false {
			for j := 0; j < r.Intn(3); j++ {
				w.localOp(d) // part of the creation
			}
		}
		switch r.Intn(4) {
		case 0, 1:
			if sig, msg := x.exchange(cl, fDrop); sig != "" {
				return x, sig, msg
			}
			x.nt = true
		case 2:
			// the entry request is duplicated on the way and both responses reach the client
			if sig, msg := x.exchange(cl, fDupBoth); sig != "" {
				return x, sig, msg
			}
			x.nt = true
			w.c.Count("entry_requests_duplicated_both_responses_applied", 1)
		}
		for try := 0; try < 3 && d.DT.GetState() != model.StateOfDatatype_SUBSCRIBED; try++ {
			if _, sig, msg := w.sync(cl); sig != "" {
				return x, sig, msg
			}
			w.idle()
		}
		if d.DT.GetState() != model.StateOfDatatype_SUBSCRIBED {
			return x, "entry-not-completed", fmt.Sprintf("client %d (%s) did not become subscribed after its entry response was lost and it retried", i, mode)
		}
	}
	return x, "", ""
}

func newC07World(c *core.Case, typ string, ncli int) (*c07world, string, string) {
	w, err := newSvcWorld(c, "colA")
	if err != nil {
		return nil, "INCONCLUSIVE", "test bed did not start: " + err.Error()
	}
	x := &c07world{w: w, dts: map[*bed.Client]*bed.DT{}, held: map[*bed.Client][]*heldResp{}}
	for i := 0; i < ncli; i++ {
		cl := w.b.NewClient("colA", string(rune('A'+i)))
		w.cls = append(w.cls, cl)
		mode := bed.Subscribe
		if i == 0 {
			mode = bed.Create
		}
		d := cl.Open("k", typ, mode)
		x.dts[cl] = d
		if err := cl.Register(); err != nil {
			return x, "INCONCLUSIVE", "register: " + err.Error()
		}
		// fault-free first sync
		if _, sig, msg := w.sync(cl); sig != "" {
			return x, sig, msg
		}
		w.idle()
		if d.DT.GetState() != model.StateOfDatatype_SUBSCRIBED {
			return x, "INCONCLUSIVE", fmt.Sprintf("client %d did not become subscribed in the fault-free prologue", i)
		}
	}
	return x, "", ""
}

func runC07(c *core.Case) *core.Result {
	if c.Index < c07Enumerated(c.Tier) {
		return c07Plan(c)
	}
	return c07Random(c)
}

func c07Plan(c *core.Case) *core.Result {
	i := c.Index
	if c.Tier != "thorough" {
		i *= 2 // counter plans only
	}
	typ := []string{"counter", "list"}[i%2]
	i /= 2
	plan := c07AllPlans[i%len(c07AllPlans)]
	i /= len(c07AllPlans)
	mask := c07OpMasks[i%len(c07OpMasks)]
	i /= len(c07OpMasks)
	pat := c07Patterns[i%len(c07Patterns)]
	ncli := 2
	if strings.Contains(pat, "C") {
		ncli = 3
	}
	c.Step("plan type=%s pattern=%s ops=%s faults=%s", typ, pat, mask, plan)
	c.Fingerprint(fmt.Sprintf("%s/%s/%s/%s", typ, pat, mask, plan))
	x, sig, msg := newC07World(c, typ, ncli)
	if x != nil {
		defer x.w.close()
	}
	if sig != "" {
		return verdict(c, "prologue:", sig, msg)
	}
	for e := 0; e < 5; e++ {
		cl := x.w.cls[int(pat[e]-'A')]
		if mask[e] == '1' {
			x.w.localOp(x.dts[cl])
			x.issued++
		}
		if sig, msg := x.exchange(cl, plan[e]); sig != "" {
			return verdict(c, "", sig, msg)
		}
	}
	if sig, msg := x.oracle(); sig != "" {
		return verdict(c, "", sig, msg)
	}
	if x.nt {
		c.NonTrivial()
	}
	return c.Held()
}

func c07Random(c *core.Case) *core.Result {
	r := c.Rng
	typ := crdt.Types[c.Index%4]
	ncli := 2 + r.Intn(4)
	c.Step("random type=%s clients=%d", typ, ncli)
	mk := newC07World
	if (c.Index/4)%2 == 1 { // independent of the type, which is c.Index%4
		mk = newC07WorldFaultyEntry
	}
	x, sig, msg := mk(c, typ, ncli)
	if x != nil {
		defer x.w.close()
	}
	if sig != "" {
		return verdict(c, "prologue:", sig, msg)
	}
	steps := tierN(c.Tier, 60, 80)
	for s := 0; s < steps; s++ {
		cl := x.w.cls[r.Intn(ncli)]
		if r.Intn(2) == 0 {
			x.w.localOp(x.dts[cl])
			continue
		}
		f := byte(fNormal)
		if r.Float64() < 0.2 {
			f = c07Faults[r.Intn(len(c07Faults))]
			if r.Intn(6) == 0 {
				f = fDupBoth
			}
		}
		if sig, msg := x.exchange(cl, f); sig != "" {
			return verdict(c, "", sig, msg)
		}
	}
	if sig, msg := x.oracle(); sig != "" {
		return verdict(c, "", sig, msg)
	}
	if x.nt {
		c.NonTrivial()
	}
	return c.Held()
}
