package props

import (
	"context"
	"fmt"
	"strings"
	"sync"
	"sync/atomic"
	"time"

	"github.com/orda-io/orda/client/pkg/errors"
	"github.com/orda-io/orda/client/pkg/model"
	"github.com/orda-io/orda/client/pkg/operations"
	"google.golang.org/protobuf/proto"
	"vh/bed"
	"vh/core"
	"vh/crdt"
	"vh/fakemongo"
)

func init() {
	core.Register(&core.Prop{
		ID:      "C16",
		Level:   "exploration",
		Workers: 16,
		Rule: "request mutation over the real service: valid requests captured from correct clients in all states (due-to-create, due-to-subscribe, subscribed with and without pending operations) are mutated in one to three fields - unknown / foreign / empty / swapped DUID, unknown or empty key, names (unknown key, collection, client alias, key of a patch, name of a new collection) outside ASCII and longer than the server's log tags, wrong type, every combination of the seven option bits (read-only with and without operations, snapshot, delete, unsubscribe, error), checkpoints stale / future / huge / zero / absent, absent header, operations without id, operation lists with gaps, repeats, reordering, foreign client id, other era, emptied, 500 operations; unregistered / foreign-collection / administrative / empty client id, unknown / other / empty collection, no packs, duplicated packs - plus correct requests with a panic injected inside their handler's goroutine between lock acquisition and commit (hook pp.before-commit: the recovery path must answer, keep the process alive and release the key; also for ONE of the two handlers of a two-pack message, which must still be answered with both packs), plus ClientMessage, PatchMessage (invalid JSON, non-object JSON, key of another type, unknown collection), CollectionMessage and EncodingMessage (no operation, unknown operation type, undecodable body, missing id, snapshots for a datatype type that does not exist / of another type / with foreign content) variants. Monitors: every call is answered (watchdog classification: a handler that ended without replying is a hang; a call that returns neither a response nor an error is not an answer), a server panic is a violation, refused (RPC error or error-bit pack) => store diff empty (volatile timestamps ignored); after every hostile request a canary client syncs the same key and another key and must be answered; after an ACCEPTED hostile request the stored log must still satisfy the structural invariants of C06 (gapless up to the recorded end, nobody acknowledged beyond what is stored). One case in five ends with valid requests that are unusual only in size or repetition: one message of a correct client with 17-60 packs (creations, then a push on every datatype) must be answered pack for pack, the same client registers 40 more times, an existing collection is created 20 more times. One case in 150 runs the repository's server binary as a child process: a push-pull is held at a database write, the process receives SIGTERM (graceful stop waits for the held request) and a REST request arriving meanwhile must be answered while the shutdown is pending. Client half: every error pack the server produced in the run and the five defined push-pull error codes are applied to a subscribed client: its error handler must be called, nothing may panic, and it must complete a normal sync of another datatype afterwards; every third case also runs the client half through the SDK's own sync path (Client.Sync() over real grpc) - half of these end with a reset of the collection, after which the client's sync is refused, it registers again with Connect() and a datatype it creates must be accepted within three syncs -: a lost response, a request refused at the RPC level and an error pack for one of two datatypes, in random order - after each the next Sync() must return (watchdog classification: waiting for the client's sync semaphore while no sync is under way is a hang) and succeed, the error pack must reach an error handler, and every issued operation ends up stored exactly once; " +
			"non-trivial = the request differs from any request a correct client could send (every mutated request); distinct = hash of the mutation script",
		Assumptions: []string{
			"only 'answered / not answered / crashed' and 'refused => unchanged' are verdicts; whatever a canary notices after an ACCEPTED hostile request (error pack, client-side panic) is recorded as a diagnostic",
			"operation bodies are not corrupted (a stored undecodable body is an accepted request whose effect on other clients is outside the statement)",
		},
		Trusted: []string{"fakemongo (dump / diff)", "fakemqtt", "harness transport (direct mode)"},
		Cases:   func(t string) int { return tierN(t, 600, 8000) },
		Floor:   func(t string) int { return tierN(t, 500, 6000) },
		Run:     runC16,
	})
}

// sigOf reduces a call description to the RPC name (signatures must not vary with the
// random mutation list).
func sigOf(what string) string {
	if i := strings.Index(what, "("); i > 0 {
		return what[:i]
	}
	return what
}

func randUID(r interface{ Intn(int) int }) string { return crdt.SeededCUID(r) }

type c16world struct {
	foreignOpsStored bool // operations with a foreign origin were accepted earlier in this case
	w                *svcWorld
	canary           *bed.Client
	cz0, cz9         *bed.DT
	att              []*bed.Client
	foreign          *bed.Client // client of colB
	errPacks         []*model.PushPullPack
	nm               map[int32]string
	late             int    // canary patches / late subscribers so far
	typ              string // type of k0
	// keys of this case: unique per case, so that whatever a hostile request leaves behind in
	// the process (a lock that is never released) stays with the case that caused it
	k0, k9, kb string
}

// c16WideName is a well-formed name (key, alias, collection) outside ASCII: every character
// takes three or four bytes, and it is longer than the short tags the server derives from names.
const c16WideName = "名前はここに書きます🙂キー"

// mutate applies 1-3 mutations to a request; returns a description.
func (x *c16world) mutate(req *model.PushPullMessage) string {
	r := x.w.c.Rng
	var desc []string
	n := 1 + r.Intn(3)
	for i := 0; i < n; i++ {
		var p *model.PushPullPack
		if len(req.PushPullPacks) > 0 {
			p = req.PushPullPacks[r.Intn(len(req.PushPullPacks))]
		}
		k := r.Intn(37)
		over := k >= 34 // three extra slots for the over-counted unit header
		if over {
			k = 21
		}
		if p == nil && k < 22 {
			k = 22 + r.Intn(8)
		}
		switch k {
		case 30:
			// fields a message may simply not carry (all are optional on the wire)
			if p != nil {
				p.CheckPoint = nil
				desc = append(desc, "cp=absent")
			}
		case 31:
			req.Header = nil
			desc = append(desc, "header=absent")
		case 32:
			if p != nil && len(p.Operations) > 0 {
				p.Operations[r.Intn(len(p.Operations))].ID = nil
				desc = append(desc, "ops=id-absent,cuid=") // accounted like a foreign identity
			}
		case 33:
			// (an operation without a body would be a corrupted body: outside the statement, see Assumptions)
			if p != nil {
				p.Era = uint32(1 + r.Intn(3))
				desc = append(desc, "era=other")
			}
		case 0:
			p.DUID = randUID(r)
			desc = append(desc, "duid=unknown")
		case 1:
			p.DUID = ""
			desc = append(desc, "duid=empty")
		case 2:
			if x.foreign != nil && len(x.foreign.DTs) > 0 {
				p.DUID = x.foreign.DTs[0].W.GetDUID()
				desc = append(desc, "duid=foreign-collection")
			}
		case 3:
			p.DUID = x.cz9.W.GetDUID()
			desc = append(desc, "duid=of-another-key")
		case 4:
			p.Key = "nokey" + randUID(r)[:4]
			if r.Intn(2) == 0 {
				// names are free text: one outside ASCII, longer than the tags the server logs
				p.Key = c16WideName + randUID(r)[:4]
			}
			desc = append(desc, "key=unknown")
		case 5:
			p.Key = ""
			desc = append(desc, "key=empty")
		case 6:
			p.Type = model.TypeOfDatatype((int(p.Type) + 1 + r.Intn(3)) % 4)
			desc = append(desc, "type=other")
		case 7, 8, 9, 10:
			p.Option = uint32(r.Intn(128))
			desc = append(desc, fmt.Sprintf("option=%#x", p.Option))
		case 11:
			p.Option |= uint32(model.PushPullBitReadOnly)
			desc = append(desc, "option|=readonly")
		case 12:
			if p.CheckPoint != nil {
				p.CheckPoint.Sseq = 0
			}
			desc = append(desc, "cp.sseq=0")
		case 13:
			if p.CheckPoint != nil {
				p.CheckPoint.Sseq += uint64(1 + r.Intn(20))
			}
			desc = append(desc, "cp.sseq=future")
		case 14:
			if p.CheckPoint != nil {
				p.CheckPoint.Sseq = 1<<63 - 1
				if r.Intn(2) == 0 {
					p.CheckPoint.Sseq = 1<<64 - 1
				}
			}
			desc = append(desc, "cp.sseq=huge")
		case 15:
			if p.CheckPoint != nil {
				p.CheckPoint.Cseq = uint64(r.Intn(3))
			}
			desc = append(desc, "cp.cseq=stale")
		case 16:
			if p.CheckPoint != nil {
				p.CheckPoint.Cseq += uint64(1+r.Intn(50)) << uint(r.Intn(40))
			}
			desc = append(desc, "cp.cseq=future/huge")
		case 17:
			if p.CheckPoint != nil {
				p.CheckPoint.Sseq, p.CheckPoint.Cseq = 0, 0
			}
			desc = append(desc, "cp=zero")
		case 18:
			if len(p.Operations) >= 3 {
				j := 1 + r.Intn(len(p.Operations)-2)
				p.Operations = append(p.Operations[:j], p.Operations[j+1:]...)
				desc = append(desc, "ops=gap")
			} else if len(p.Operations) > 0 && p.Operations[0].ID != nil {
				p.Operations[0].ID.Seq += 3
				desc = append(desc, "ops=gap(first)")
			}
		case 19:
			if len(p.Operations) > 0 {
				p.Operations = append([]*model.Operation{proto.Clone(p.Operations[0]).(*model.Operation)}, p.Operations...)
				desc = append(desc, "ops=repeat")
			}
		case 20:
			if len(p.Operations) >= 2 {
				p.Operations[0], p.Operations[len(p.Operations)-1] = p.Operations[len(p.Operations)-1], p.Operations[0]
				desc = append(desc, "ops=reordered")
			}
		case 21:
			sub := r.Intn(5)
			if over {
				sub = 4
			}
			switch sub {
			case 4:
				// a well-numbered pack that opens with a transaction header announcing MORE
				// operations than follow: nothing a replay (server rebuild, subscriber) can execute
				if len(p.Operations) > 0 && p.Operations[0].ID != nil && p.CheckPoint != nil {
					hdr := operations.NewTransactionOperation("hostile")
					hdr.SetNumOfOps(len(p.Operations) + 1 + 2 + r.Intn(5))
					hdr.SetID(proto.Clone(p.Operations[0].ID).(*model.OperationID))
					for _, o := range p.Operations {
						if o.ID != nil {
							o.ID.Seq++
							o.ID.Lamport++
						}
					}
					p.Operations = append([]*model.Operation{hdr.ToModelOperation()}, p.Operations...)
					p.CheckPoint.Cseq++
					desc = append(desc, "ops=unit-header-overcount")
				}
			case 0:
				for _, o := range p.Operations {
					if o.ID != nil {
						o.ID.CUID = randUID(r)
					}
				}
				desc = append(desc, "ops=foreign-cuid")
			case 1:
				p.Operations = nil
				desc = append(desc, "ops=emptied")
			case 2:
				if len(p.Operations) > 0 && p.Operations[len(p.Operations)-1].ID != nil {
					base := p.Operations[len(p.Operations)-1]
					for j := 0; j < 500; j++ {
						o := proto.Clone(base).(*model.Operation)
						o.ID.Seq = base.ID.Seq + uint64(j) + 1
						o.ID.Lamport = base.ID.Lamport + uint64(j) + 1
						p.Operations = append(p.Operations, o)
					}
					desc = append(desc, "ops=+500")
				}
			default:
				if len(p.Operations) > 0 {
					if o := p.Operations[r.Intn(len(p.Operations))]; o.ID != nil {
						o.ID.Era = uint32(1 + r.Intn(3))
						desc = append(desc, "ops=other-era")
					}
				}
			}
		case 22:
			req.Cuid = randUID(r)
			desc = append(desc, "cuid=unregistered")
		case 23:
			if x.foreign != nil && x.foreign.Model != nil {
				req.Cuid = x.foreign.Model.CUID
				desc = append(desc, "cuid=client-of-other-collection")
			}
		case 24:
			req.Cuid = "!@#$OrdaPatchAPI"
			desc = append(desc, "cuid=admin")
		case 25:
			req.Cuid = ""
			desc = append(desc, "cuid=empty")
		case 26:
			req.Collection = []string{"nocol", "colB", "", c16WideName}[r.Intn(4)]
			desc = append(desc, "collection="+req.Collection)
		case 27:
			if req.Header != nil {
				req.Header.Agent = "other-sdk"
				req.Header.Version = "9.9.9"
			}
			desc = append(desc, "header=other-version")
		case 28:
			req.PushPullPacks = nil
			desc = append(desc, "packs=none")
		default:
			if p != nil {
				req.PushPullPacks = append(req.PushPullPacks, proto.Clone(p).(*model.PushPullPack))
				desc = append(desc, "packs=duplicated")
			}
		}
	}
	return strings.Join(desc, ",")
}

func (x *c16world) snap() c17snap { return c17Take(x.w.b, x.nm) }

// judge a guarded call.
func (x *c16world) judge(what string, out bed.CallOutcome, refused bool, before c17snap) *core.Result {
	c := x.w.c
	if out.Panic != "" {
		return c.Violation("server-panic:"+sigOf(what)+":"+core.Hash(stripNum(out.Panic)), "%s panicked: %s", what, out.Panic)
	}
	if out.TimedOut {
		if out.Hang {
			return c.Violation("no-answer:"+sigOf(what), "%s was never answered: the call waits for a handler reply while no handler goroutine exists\n%s", what, clipDump(out.Dump))
		}
		return c.Inconclusive("%s: watchdog", what)
	}
	if !x.w.idle() {
		return c.Inconclusive("idle")
	}
	if strings.Contains(what, "unit-header-overcount") {
		if refused {
			c.Count("overcounted_unit_header_refused", 1)
		} else {
			c.Count("overcounted_unit_header_accepted", 1)
		}
	}
	if refused {
		after := x.snap()
		t := c17Touched(before, after)
		if len(t) > 0 {
			var all []string
			for _, docs := range t {
				all = append(all, docs...)
			}
			return c.Violation("refused-but-changed:"+sigOf(what), "%s was refused (error returned) but stored data changed: %v", what, all)
		}
		c.Count("refused_with_empty_diff", 1)
	} else {
		c.Count("accepted_hostile_requests", 1)
		// an ACCEPTED request may store what it carries, but whatever is stored afterwards is
		// still a log: gapless sequence numbers up to the recorded end, and no client acknowledged
		// beyond what is stored of it (C06's invariants, structural part). Requests whose
		// operations carry ANOTHER client's id are stored under that id by the unchanged server
		// (it does not check the origin of pushed operations); the per-client accounting cannot
		// be applied to them and they are only counted.
		if sig, msg := x.w.b.CheckLog(nil, ""); sig != "" {
			if strings.Contains(what, "foreign-cuid") || strings.Contains(what, "cuid=") || strings.Contains(what, "ops=other-era") || x.foreignOpsStored {
				// the request speaks under another identity (client id of the message or of its
				// operations): what is stored is accounted to that identity, the per-client part
				// of the invariants does not apply; counted only
				x.foreignOpsStored = true
				c.Count("diag_log_accounting_after_foreign_origin_push", 1)
			} else {
				return c.Violation("accepted-but-log-broken:"+sig, "%s was accepted (no error) and left a broken log: %s", what, msg)
			}
		}
	}
	return nil
}

// canaryCheck: a correct client syncs the same key and another key and must be answered.
func (x *c16world) canaryCheck() *core.Result {
	c := x.w.c
	x.w.localOp(x.cz9)
	req := x.canary.BuildRequest()
	ex := x.canary.Send(req)
	if ex.Out.Panic != "" {
		return c.Violation("server-panic:canary", "a normal sync after the hostile request panicked: %s", ex.Out.Panic)
	}
	if ex.Out.TimedOut {
		if ex.Out.Hang {
			return c.Violation("no-answer:canary", "a correct client's sync after the hostile request is never answered\n%s", clipDump(ex.Out.Dump))
		}
		// a leaked lock makes the handler wait for the lock's lease time: still running
		return c.Inconclusive("canary watchdog")
	}
	if ex.Out.Err != nil {
		c.Count("diagnostic_canary_rpc_error", 1)
		return nil
	}
	for _, p := range ex.Resp.PushPullPacks {
		if bed.IsErrorPack(p) {
			c.Count("diagnostic_canary_error_pack", 1)
			x.errPacks = append(x.errPacks, p)
		}
	}
	if pm := x.canary.Apply(ex.Resp); pm != "" {
		c.Count("diagnostic_canary_client_panic", 1)
	}
	x.w.idle()
	c.Count("canary_syncs_answered", 1)
	// the other ways into the key's stored data - a well-formed REST patch of it (the server
	// rebuilds the datatype from its store first) and a client that subscribes now (served from
	// snapshot and log) - must be answered too, whatever the hostile requests accepted so far
	// have left stored: an error is an answer, a panic or silence is not
	x.late++
	answered := false
	pout := bed.Guard(15e9, func(ctx context.Context) error {
		resp, err := x.w.b.Svc.PatchDocument(ctx, &model.PatchMessage{Collection: "colA", Key: x.k0, Json: fmt.Sprintf(`{"canary":%d}`, x.late)})
		answered = resp != nil
		return err
	})
	if res := x.emptyAnswer("PatchDocument", pout, answered); res != nil {
		return res
	}
	if pout.Panic != "" {
		return c.Violation("server-panic:canary-patch", "a well-formed patch of the key after the hostile request panicked: %s", pout.Panic)
	}
	if pout.TimedOut {
		if pout.Hang {
			return c.Violation("no-answer:canary-patch", "a well-formed patch of the key after the hostile request is never answered\n%s", clipDump(pout.Dump))
		}
		return c.Inconclusive("canary patch watchdog")
	}
	x.w.idle()
	c.Count("canary_patches_answered", 1)
	if x.late%3 == 0 {
		lc := x.w.b.NewClient("colA", fmt.Sprintf("late%d", x.late))
		ld := lc.Open(x.k0, x.typ, bed.Subscribe)
		if ld != nil && lc.Register() == nil {
			lex := lc.Send(lc.BuildRequest())
			if lex.Out.Panic != "" {
				return c.Violation("server-panic:late-subscriber", "a subscription to the key after the hostile request panicked: %s", lex.Out.Panic)
			}
			if lex.Out.TimedOut {
				if lex.Out.Hang {
					return c.Violation("no-answer:late-subscriber", "a subscription to the key after the hostile request is never answered\n%s", clipDump(lex.Out.Dump))
				}
				return c.Inconclusive("late subscriber watchdog")
			}
			if lex.Out.Err == nil {
				if pm := lc.Apply(lex.Resp); pm != "" {
					c.Count("diagnostic_late_subscriber_client_panic", 1)
				}
			}
			x.w.idle()
			c.Count("late_subscriptions_answered", 1)
		}
	}
	return nil
}

func runC16(c *core.Case) *core.Result {
	if c.Index%150 == 149 {
		return c16Shutdown(c) // a request that arrives while the server process shuts down
	}
	w, err := newSvcWorld(c, "colA")
	if err != nil {
		return c.Inconclusive("test bed did not start: %v", err)
	}
	defer w.close()
	r := c.Rng
	x := &c16world{w: w, nm: map[int32]string{}}
	x.k0, x.k9, x.kb = fmt.Sprintf("k0-%d", c.Index), fmt.Sprintf("k9-%d", c.Index), fmt.Sprintf("kb-%d", c.Index)
	if err := w.b.CreateCollection("colB"); err != nil {
		return c.Inconclusive("CreateCollection: %v", err)
	}
	x.nm[w.b.CollectionNum("colA")] = "colA"
	x.nm[w.b.CollectionNum("colB")] = "colB"
	typ := crdt.Types[c.Index%4]
	// correct clients in all states
	mk := func(col, alias string) *bed.Client {
		cl := w.b.NewClient(col, alias)
		w.cls = append(w.cls, cl)
		return cl
	}
	c0 := mk("colA", "c0")
	d0 := c0.Open(x.k0, typ, bed.Create)
	c0.Register()
	x.canary = mk("colA", "canary")
	x.cz9 = x.canary.Open(x.k9, "counter", bed.Create)
	x.canary.Register()
	x.foreign = mk("colB", "b0")
	fb := x.foreign.Open(x.kb, typ, bed.Create)
	x.foreign.Register()
	for _, cl := range []*bed.Client{c0, x.canary, x.foreign} {
		if _, sig, msg := w.sync(cl); sig != "" {
			return verdict(c, "setup:", sig, msg)
		}
		w.idle()
	}
	_ = fb
	x.typ = typ
	x.cz0 = x.canary.Open(x.k0, typ, bed.Subscribe)
	if _, sig, msg := w.sync(x.canary); sig != "" {
		return verdict(c, "setup:", sig, msg)
	}
	w.idle()
	c1 := mk("colA", "c1")
	d1 := c1.Open(x.k0, typ, bed.Subscribe)
	c1.Register()
	if r.Intn(2) == 0 {
		w.sync(c1)
		w.idle()
	}
	c2 := mk("colA", "c2") // stays due-to-create on a new key, maybe with operations
	d2 := c2.Open("k2", typ, bed.SubscribeOrCreate)
	c2.Register()
	x.att = []*bed.Client{c0, c1, c2}
	for j := 0; j < 3; j++ {
		w.localOp(d0)
	}
	w.sync(c0)
	w.idle()
	_, _ = d1, d2
	nHostile := tierN(c.Tier, 4, 6)
	for h := 0; h < nHostile; h++ {
		kind := r.Intn(12)
		switch {
		case kind == 11:
			// the encoding echo service (exposed over grpc and REST like the others) with
			// well-formed but unexpected messages
			variant := r.Intn(8)
			em := &model.EncodingMessage{Type: model.TypeOfDatatype_COUNTER}
			switch variant {
			case 5: // a snapshot for a datatype type that does not exist
				em.Op = &model.Operation{ID: &model.OperationID{CUID: randUID(r)}, OpType: model.TypeOfOperation_COUNTER_SNAPSHOT, Body: []byte(`{"Counter":1}`)}
				em.Type = model.TypeOfDatatype(9 + r.Intn(50))
			case 6: // a document snapshot whose content is not a document snapshot
				em.Op = &model.Operation{ID: &model.OperationID{CUID: randUID(r)}, OpType: model.TypeOfOperation_DOC_SNAPSHOT, Body: []byte(`{"nm":[{"t":77,"c":"x"}],"rt":"zz","size":3}`)}
				em.Type = model.TypeOfDatatype_DOCUMENT
			case 7: // a list snapshot for a map
				em.Op = &model.Operation{ID: &model.OperationID{CUID: randUID(r)}, OpType: model.TypeOfOperation_LIST_SNAPSHOT, Body: []byte(`{"Nodes":[{"O":null,"V":1}],"Size":1}`)}
				em.Type = model.TypeOfDatatype_MAP
			case 0: // no operation at all
			case 1:
				em.Op = &model.Operation{OpType: model.TypeOfOperation(9999), Body: []byte(`{}`)}
			case 2:
				em.Op = &model.Operation{ID: &model.OperationID{CUID: randUID(r)}, OpType: model.TypeOfOperation_MAP_PUT, Body: []byte(`not json`)}
			case 3:
				em.Op = &model.Operation{OpType: model.TypeOfOperation_COUNTER_SNAPSHOT, Body: []byte(`{"unexpected":[1,2]}`)}
				em.Type = model.TypeOfDatatype_DOCUMENT
			default:
				em.Op = &model.Operation{OpType: model.TypeOfOperation_LIST_INSERT} // no id, no body
			}
			c.Step("hostile encoding message variant %d", variant)
			before := x.snap()
			answered := false
			out := bed.Guard(10e9, func(ctx context.Context) error {
				resp, err := w.b.Svc.TestEncodingOperation(ctx, em)
				answered = resp != nil
				return err
			})
			if res := x.emptyAnswer("TestEncodingOperation", out, answered); res != nil {
				return res
			}
			if res := x.judge(fmt.Sprintf("TestEncodingOperation(variant %d)", variant), out, out.Err != nil, before); res != nil {
				return res
			}
		case kind == 10:
			// a fault INSIDE the handler: a correct request of a subscribed client panics between
			// lock acquisition and commit (injected at the hook point pp.before-commit, in the
			// handler's own goroutine - what an unexpected nil in a stored document would do)
			w.localOp(d0)
			req := c0.BuildRequest(d0)
			var armed int32 = 1
			w.b.OnHook(func(point string, args ...interface{}) {
				if point == "pp.before-commit" && atomic.CompareAndSwapInt32(&armed, 1, 0) {
					panic("injected fault inside the push-pull handler")
				}
			})
			c.Step("correct push-pull from c0 with a panic injected inside its handler (before commit)")
			before := x.snap()
			ex := c0.Send(req)
			fired := atomic.LoadInt32(&armed) == 0
			atomic.StoreInt32(&armed, 0)
			refused := ex.Out.Err != nil
			if ex.Resp != nil {
				for _, p := range ex.Resp.PushPullPacks {
					if bed.IsErrorPack(p) {
						refused = true
						x.errPacks = append(x.errPacks, p)
					}
				}
			}
			if res := x.judge("ProcessPushPull(handler-fault)", ex.Out, refused, before); res != nil {
				return res
			}
			if fired {
				c.Count("handler_faults_injected", 1)
				if !refused {
					c.Count("diagnostic_handler_fault_answered_without_error", 1)
				}
				// the recovery path must have released the key: the next correct request on k0 is served
				x.w.localOp(x.cz0)
				cex := x.canary.Send(x.canary.BuildRequest(x.cz0))
				if cex.Out.TimedOut && cex.Out.Hang {
					return c.Violation("no-answer:after-handler-fault", "after a panic inside a handler of key k0 the next request on that key is never answered\n%s", clipDump(cex.Out.Dump))
				}
				if cex.Out.TimedOut {
					return c.Inconclusive("canary watchdog after handler fault")
				}
				if cex.Out.Err != nil || cex.Refused() {
					return c.Violation("key-blocked-after-handler-fault", "after a panic inside a handler of key k0 the next correct request on that key is refused (rpc error %v): the recovery path did not release the key", cex.Out.Err)
				}
				x.canary.Apply(cex.Resp)
				w.idle()
			}
			if r.Intn(2) == 0 {
				if res := x.multiPackHandlerFault(); res != nil {
					return res
				}
			}
		case kind < 7:
			cl := x.att[r.Intn(len(x.att))]
			for _, d := range cl.DTs {
				if r.Intn(2) == 0 {
					w.localOp(d)
				}
			}
			req := cl.BuildRequest()
			desc := x.mutate(req)
			c.Step("hostile push-pull from %s: %s", cl.Alias, desc)
			before := x.snap()
			ex := cl.Send(req)
			refused := ex.Out.Err != nil
			if ex.Resp != nil {
				all := len(ex.Resp.PushPullPacks) > 0
				for _, p := range ex.Resp.PushPullPacks {
					if bed.IsErrorPack(p) {
						x.errPacks = append(x.errPacks, p)
					} else {
						all = false
					}
				}
				if all {
					refused = true
				}
			}
			if res := x.judge("ProcessPushPull("+desc+")", ex.Out, refused, before); res != nil {
				return res
			}
		case kind == 7:
			msg := model.NewClientMessage(proto.Clone(c1.Model).(*model.Client))
			variant := r.Intn(6)
			switch variant {
			case 5:
				msg.ClientAlias = c16WideName + "の別名"
			case 0:
				msg.Collection = "nocol"
			case 1:
				msg.Cuid = "!@#$OrdaPatchAPI"
			case 2:
				msg.Cuid = ""
			case 3:
				msg.Collection = "colB" // registered in colA
			default:
				msg.ClientAlias = strings.Repeat("a", 5000)
			}
			c.Step("hostile client message variant %d", variant)
			before := x.snap()
			answered := false
			out := bed.Guard(10e9, func(ctx context.Context) error {
				resp, err := w.b.Svc.ProcessClient(ctx, msg)
				answered = resp != nil
				return err
			})
			if res := x.emptyAnswer("ProcessClient", out, answered); res != nil {
				return res
			}
			if res := x.judge(fmt.Sprintf("ProcessClient(variant %d)", variant), out, out.Err != nil, before); res != nil {
				return res
			}
		case kind == 8:
			pm := &model.PatchMessage{Collection: "colA", Key: x.k0, Json: `{"a":1}`}
			variant := r.Intn(7)
			switch variant {
			case 6:
				pm.Key = c16WideName + randUID(r)[:4] // a new document under a name outside ASCII
			case 0:
				pm.Json = "{"
			case 1:
				pm.Json = "[1,2]"
			case 2:
				pm.Json = `"str"`
			case 3:
				pm.Collection = "nocol"
			case 4:
				pm.Key = x.k9 // a counter
			default:
				pm.Key = ""
			}
			c.Step("hostile patch message variant %d (k0 is a %s)", variant, typ)
			before := x.snap()
			answered := false
			out := bed.Guard(15e9, func(ctx context.Context) error {
				resp, err := w.b.Svc.PatchDocument(ctx, pm)
				answered = resp != nil
				return err
			})
			if res := x.emptyAnswer("PatchDocument", out, answered); res != nil {
				return res
			}
			if res := x.judge(fmt.Sprintf("PatchDocument(variant %d, k0:%s)", variant, typ), out, out.Err != nil, before); res != nil {
				return res
			}
		default:
			name := []string{"", "col/with/slash", "colA", strings.Repeat("c", 300), c16WideName + "コレクション"}[r.Intn(5)]
			c.Step("hostile collection message %q", clip(name, 30))
			before := x.snap()
			answered := false
			out := bed.Guard(10e9, func(ctx context.Context) error {
				resp, err := w.b.Svc.CreateCollection(ctx, &model.CollectionMessage{Collection: name})
				answered = resp != nil
				return err
			})
			if res := x.emptyAnswer("CreateCollection", out, answered); res != nil {
				return res
			}
			if res := x.judge("CreateCollection", out, out.Err != nil, before); res != nil {
				return res
			}
		}
		c.Count("hostile_requests", 1)
		if res := x.canaryCheck(); res != nil {
			return res
		}
	}
	// ---- client half
	victim := mk("colA", "victim")
	vd := victim.Open(x.k9, "counter", bed.Subscribe)
	vo := victim.Open("kv", "counter", bed.Create)
	victim.Register()
	if _, sig, msg := w.sync(victim); sig != "" {
		return verdict(c, "client-half:", sig, msg)
	}
	w.idle()
	packs := append([]*model.PushPullPack{}, x.errPacks...)
	for _, code := range []errors.ErrorCode{errors.PushPullAbortionOfServer, errors.PushPullAbortionOfClient, errors.PushPullDuplicateKey, errors.PushPullMissingOps, errors.PushPullNoDatatypeToSubscribe} {
		p := vd.W.CreatePushPullPack().GetResponsePushPullPack()
		p.Option = uint32(model.PushPullBitError)
		p.Operations = []*model.Operation{operations.NewErrorOperationWithCodeAndMsg(code, "synthesised").ToModelOperation()}
		packs = append(packs, p)
	}
	for _, p := range packs {
		q := proto.Clone(p).(*model.PushPullPack)
		q.Key, q.DUID = vd.Key, vd.W.GetDUID()
		errsBefore, _, _ := vd.Handler()
		c.Step("victim applies an error pack")
		if pm := safely(func() { vd.W.ApplyPushPullPack(q) }); pm != "" {
			return c.Violation("client-panic-on-error-pack", "ApplyPushPullPack panicked on an error pack (%v): %s", q.Operations, pm)
		}
		w.idle()
		errsAfter, _, _ := vd.Handler()
		if len(errsAfter) <= len(errsBefore) {
			return c.Violation("error-not-reported", "an error pack was applied but the error handler was not called (pack %v)", q.Operations)
		}
		c.Count("error_packs_applied_to_client", 1)
	}
	// a refused push: the server answers the victim's push of new operations with an error
	// pack built the way finalize builds it (the response pack starts as a copy of the
	// request's, checkpoint included); afterwards the same operations must still reach the
	// server with the next sync.
	for _, code := range []errors.ErrorCode{errors.PushPullAbortionOfServer, errors.PushPullMissingOps} {
		crdt.Apply(vd.DT, crdt.Op{Kind: "inc", N: 1})
		crdt.Apply(vd.DT, crdt.Op{Kind: "inc", N: 1})
		req := victim.BuildRequest(vd)
		rp := req.PushPullPacks[0].GetResponsePushPullPack()
		rp.Option = uint32(model.PushPullBitError)
		rp.Operations = []*model.Operation{operations.NewErrorOperationWithCodeAndMsg(code, "refused push").ToModelOperation()}
		c.Step("victim's push of 2 operations is refused with code %d", code)
		if pm := safely(func() { vd.W.ApplyPushPullPack(rp) }); pm != "" {
			return c.Violation("client-panic-on-error-pack", "ApplyPushPullPack panicked on a refused push: %s", pm)
		}
		w.idle()
		issued := vd.W.CreatePushPullPack().CheckPoint.Cseq
		if ex, pm := victim.Sync(vd); pm != "" || ex.Out.Err != nil || ex.Out.Panic != "" || ex.Out.TimedOut || ex.Refused() {
			return c.Violation("client-unusable-after-errors", "after a refused push the client's next sync of the same datatype fails (rpc err %v, client panic %q, refused %v)", ex.Out.Err, pm, ex.Refused())
		}
		w.idle()
		dd := w.b.Datatype(w.colNum, vd.Key)
		stored := uint64(0)
		if dd != nil {
			for _, o := range w.b.Ops(dd.DUID) {
				if o.OpID.CUID == victim.Model.CUID {
					stored++
				}
			}
		}
		if stored != issued {
			return c.Violation("refused-operations-never-resent", "after a refused push and a successful sync the client has issued operations up to seq %d but %d of them are stored: the refused operations were not sent again", issued, stored)
		}
		c.Count("refused_pushes_recovered", 1)
	}
	crdt.Apply(vo.DT, crdt.Op{Kind: "inc", N: 1})
	ex, pm := victim.Sync(vo)
	if pm != "" || ex.Out.Err != nil || ex.Out.Panic != "" || ex.Out.TimedOut || ex.Refused() {
		return c.Violation("client-unusable-after-errors", "after receiving error packs the client cannot complete a normal sync of another datatype (rpc err %v, client panic %q)", ex.Out.Err, pm)
	}
	if c.Index%5 == 1 {
		if res := c16BigMessage(c, w); res != nil {
			return res
		}
	}
	if c.Index%3 == 0 {
		if res := c16SDKHalf(c, w); res != nil {
			return res
		}
	}
	c.NonTrivial()
	return c.Held()
}

// c16BigMessage: a perfectly valid request that is unusual only in size - ONE message of a
// correct client with 17-60 packs (one datatype each), twice: first the creations, then a
// push on every one of them. Both must be answered with a pack per datatype, every datatype
// ends SUBSCRIBED with nothing left to push, and a canary sync is served afterwards.
func c16BigMessage(c *core.Case, w *svcWorld) *core.Result {
	r := c.Rng
	n := 17 + r.Intn(44)
	cl := w.b.NewClient("colA", "big")
	var dts []*bed.DT
	for i := 0; i < n; i++ {
		d := cl.Open(fmt.Sprintf("big%d-%d", c.Index, i), "counter", bed.Create)
		if d == nil {
			return c.Inconclusive("open")
		}
		dts = append(dts, d)
	}
	if err := cl.Register(); err != nil {
		return c.Inconclusive("register: %v", err)
	}
	for round := 0; round < 2; round++ {
		c.Step("one message with %d packs (round %d)", n, round)
		req := cl.BuildRequest()
		ex := cl.Send(req)
		if ex.Out.Panic != "" {
			return c.Violation("server-panic:big-message", "a message with %d packs panicked: %s", n, ex.Out.Panic)
		}
		if ex.Out.TimedOut {
			if ex.Out.Hang {
				return c.Violation("no-answer:big-message", "a valid message with %d packs is never answered\n%s", n, clipDump(ex.Out.Dump))
			}
			if w.b.Idle(3*time.Second) && !(ex.Out.Returned != nil && ex.Out.Returned()) {
				// nothing runs for it any more - no database command open, no announced background
				// work - and the call has still not returned
				return c.Violation("no-answer:big-message", "a valid message with %d packs was not answered within the request watchdog and the server side does nothing any more", n)
			}
			return c.Inconclusive("a message with %d packs was not answered within the request watchdog; the server side is still busy", n)
		}
		if ex.Out.Err != nil {
			return c.Violation("refused:big-message", "a valid message with %d packs was refused: %v", n, ex.Out.Err)
		}
		if len(ex.Resp.PushPullPacks) != n {
			return c.Violation("packs-missing:big-message", "a message with %d packs was answered with %d packs", n, len(ex.Resp.PushPullPacks))
		}
		if pm := cl.Apply(ex.Resp); pm != "" {
			return c.Violation("client-panic:big-message", "applying the answer panicked: %s", pm)
		}
		if !w.idle() {
			return c.Inconclusive("idle")
		}
		for _, d := range dts {
			if d.DT.GetState() != model.StateOfDatatype_SUBSCRIBED || len(d.W.CreatePushPullPack().Operations) > 0 {
				return c.Violation("big-message-not-served", "after a message with %d packs datatype %s is in state %v with %d operations still pending", n, d.Key, d.DT.GetState(), len(d.W.CreatePushPullPack().Operations))
			}
			crdt.Apply(d.DT, crdt.Op{Kind: "inc", N: 1 + r.Intn(5)})
		}
	}
	c.Count("big_messages_served", 2)
	// the same valid request many times over: registrations of one client, creation of a
	// collection that exists
	for i := 0; i < 40; i++ {
		if err := cl.Register(); err != nil && strings.Contains(err.Error(), "timed out") {
			return c.Inconclusive("registration watchdog")
		} else if err != nil {
			return c.Violation("refused:repeated-registration", "registration %d of the same client was refused: %v", i+2, err)
		}
	}
	for i := 0; i < 20; i++ {
		out := bed.Guard(10e9, func(ctx context.Context) error {
			_, err := w.b.Svc.CreateCollection(ctx, &model.CollectionMessage{Collection: "colA"})
			return err
		})
		if out.TimedOut && out.Panic == "" {
			return c.Inconclusive("CreateCollection watchdog")
		}
		if out.Panic != "" || out.Err != nil {
			return c.Violation("refused:repeated-create-collection", "creating a collection that exists, call %d: panic %q, timed out %v, error %v", i+1, out.Panic, out.TimedOut, out.Err)
		}
	}
	c.Count("repeated_valid_requests", 60)
	return nil
}

// c16SDKHalf: the client half through the SDK's own sync path (Client.Sync() over real grpc
// to the front of the bed). The client meets, one after the other, a lost response, a
// request refused at the RPC level (a database read of the service fails before any handler
// runs) and an error pack for one of its two datatypes (a read inside that handler fails);
// after each of them the next Sync() must return (not wait forever for something the failed
// sync still holds) and succeed, the error pack must reach the error handler of the datatype
// it belongs to, and in the end every issued operation is stored exactly once.
func c16SDKHalf(c *core.Case, w *svcWorld) *core.Result {
	front, err := w.b.Front()
	if err != nil {
		return c.Inconclusive("grpc front: %v", err)
	}
	defer front.SetFaults(nil, nil)
	defer w.b.DB.SetPlan(nil)
	cl, err := w.b.NewSDKBedClient("colA", "sdkvictim")
	if err != nil {
		return c.Inconclusive("SDK client Connect: %v", err)
	}
	w.cls = append(w.cls, cl) // closed with the world
	key1, key2 := fmt.Sprintf("s1-%d", c.Index), fmt.Sprintf("s2-%d", c.Index)
	d1 := cl.Open(key1, "counter", bed.Create)
	d2 := cl.Open(key2, "counter", bed.Create)
	if d1 == nil || d2 == nil {
		return c.Inconclusive("SDK client cannot open datatypes")
	}
	syncOnce := func(what string, wantErr bool) (*core.Result, bool) {
		c.Step("sdkvictim Sync() %s", what)
		out := cl.SyncSDKWithin(10 * time.Second)
		if out.Panic != "" {
			return c.Violation("client-panic", "Client.Sync() panicked %s: %s", what, out.Panic), false
		}
		if out.TimedOut {
			if out.Hang && bed.ClientSyncStuck(out.Dump) {
				return c.Violation("client-sync-hang", "Client.Sync() %s never returned: it waits for the client's sync semaphore while no sync of this process is under way that could release it\n%s", what, clipDump(out.Dump)), false
			}
			if out.Hang {
				return c.Violation("request-hang", "Client.Sync() %s never returned\n%s", what, clipDump(out.Dump)), false
			}
			return c.Inconclusive("Client.Sync() %s did not return within the watchdog", what), false
		}
		if !w.idle() {
			return c.Inconclusive("idle"), false
		}
		if wantErr && out.Err == nil {
			c.Count("sdk_fault_without_error_return", 1)
		}
		return nil, out.Err == nil
	}
	if res, ok := syncOnce("(first, fault-free)", false); res != nil {
		return res
	} else if !ok {
		return c.Inconclusive("the fault-free first sync of the SDK client failed")
	}
	r := c.Rng
	faults := []string{"response-lost", "rpc-refused", "error-pack"}
	r.Shuffle(len(faults), func(i, j int) { faults[i], faults[j] = faults[j], faults[i] })
	for _, f := range faults {
		crdt.Apply(d1.DT, crdt.Op{Kind: "inc", N: 1})
		crdt.Apply(d2.DT, crdt.Op{Kind: "inc", N: 2})
		errs1, _, _ := d1.Handler()
		errs2, _, _ := d2.Handler()
		var mu sync.Mutex
		hit := false
		once := func() bool {
			mu.Lock()
			defer mu.Unlock()
			if hit {
				return false
			}
			hit = true
			return true
		}
		switch f {
		case "response-lost":
			front.SetFaults(func(req *model.PushPullMessage) bool { return req.Cuid == d1.W.GetCUID() && once() }, nil)
		case "rpc-refused":
			w.b.DB.SetPlan(func(cmd *fakemongo.Cmd) fakemongo.Action {
				if cmd.Name == "find" && cmd.Coll == "-_-Clients" && once() {
					return fakemongo.Action{Fail: true}
				}
				return fakemongo.Action{}
			})
		case "error-pack":
			w.b.DB.SetPlan(func(cmd *fakemongo.Cmd) fakemongo.Action {
				if cmd.Name == "find" && cmd.Coll == "-_-Datatypes" && once() {
					return fakemongo.Action{Fail: true}
				}
				return fakemongo.Action{}
			})
		}
		res, _ := syncOnce("with fault "+f, f != "error-pack")
		front.SetFaults(nil, nil)
		w.b.DB.SetPlan(nil)
		if res != nil {
			return res
		}
		mu.Lock()
		wasHit := hit
		mu.Unlock()
		if !wasHit {
			c.Count("sdk_fault_not_reached_"+f, 1)
		} else {
			c.Count("sdk_faults_"+f, 1)
		}
		if f == "error-pack" && wasHit {
			a1, _, _ := d1.Handler()
			a2, _, _ := d2.Handler()
			if len(a1)+len(a2) <= len(errs1)+len(errs2) {
				return c.Violation("error-not-reported", "the server answered one of the SDK client's packs with an error pack (a database read of its handler failed) but no error handler was called")
			}
		}
		// the client stays usable: the next Sync() returns and succeeds
		if res, ok := syncOnce("after fault "+f, false); res != nil {
			return res
		} else if !ok {
			return c.Violation("client-unusable-after-errors", "after %s the SDK client's next fault-free Sync() returned an error", f)
		}
	}
	// everything issued is stored exactly once
	for _, d := range []*bed.DT{d1, d2} {
		dd := w.b.Datatype(w.colNum, d.Key)
		if dd == nil {
			return c.Violation("sdk-datatype-not-stored", "the SDK client's datatype %q is not stored after fault-free syncs", d.Key)
		}
		if sig, msg := w.b.CheckLog(nil, dd.DUID); sig != "" {
			return c.Violation("sdk:"+sig, "%s", msg)
		}
		p := d.W.CreatePushPullPack()
		issued := p.CheckPoint.Cseq
		if len(p.Operations) > 0 {
			return c.Violation("sdk-operations-left", "after the final fault-free Sync() the SDK client still holds %d unpushed operations of %q", len(p.Operations), d.Key)
		}
		stored := uint64(0)
		for _, o := range w.b.Ops(dd.DUID) {
			if o.OpID.CUID == d.W.GetCUID() {
				stored++
			}
		}
		if stored != issued {
			return c.Violation("sdk-issued-vs-stored", "the SDK client issued operations of %q up to seq %d, %d are stored", d.Key, issued, stored)
		}
	}
	c.Count("sdk_client_halves", 1)
	if c.Rng.Intn(2) == 0 {
		// the server forgets its clients (the collection is reset): the client's next sync is
		// refused, it registers again with Connect() - the only way the SDK offers - and must be
		// usable afterwards: a datatype it creates now is accepted and stored
		c.Step("the collection is reset; sdkvictim syncs (refused), connects again and creates a new datatype")
		out := bed.Guard(15e9, func(ctx context.Context) error {
			_, err := w.b.Svc.ResetCollection(ctx, &model.CollectionMessage{Collection: "colA"})
			return err
		})
		if out.Err != nil || out.TimedOut || out.Panic != "" {
			c.Count("diag_reset_before_reregistration_failed", 1)
			return nil
		}
		w.idle()
		if res, _ := syncOnce("of a client the server has forgotten", true); res != nil {
			return res
		}
		out = bed.Guard(10e9, func(ctx context.Context) error { return cl.Cli.Connect() })
		if out.Panic != "" {
			return c.Violation("client-panic", "a second Connect() of a connected client panicked: %s", out.Panic)
		}
		if out.Err != nil || out.TimedOut {
			c.Count("diag_second_connect_failed", 1)
			return nil
		}
		w.idle()
		d3 := cl.Open(fmt.Sprintf("s3-%d", c.Index), "counter", bed.Create)
		if d3 == nil {
			return c.Inconclusive("SDK client cannot open a datatype after registering again")
		}
		crdt.Apply(d3.DT, crdt.Op{Kind: "inc", N: 1})
		for try := 0; try < 3 && d3.DT.GetState() != model.StateOfDatatype_SUBSCRIBED; try++ {
			if res, _ := syncOnce("after registering again", false); res != nil {
				return res
			}
		}
		if d3.DT.GetState() != model.StateOfDatatype_SUBSCRIBED {
			return c.Violation("client-unusable-after-registering-again", "the server had forgotten the client (collection reset), its sync was refused, it called Connect() again without error, and a datatype it then created was not accepted in three syncs (state %v)", d3.DT.GetState())
		}
		c.Count("sdk_clients_registered_again_after_a_reset", 1)
	}
	return nil
}

// multiPackHandlerFault: ONE message of a correct client carries two packs (keys k0 and k9);
// the handler of k0 panics between lock acquisition and commit. The message must still be
// answered with both packs (the handlers' exit from their critical sections is observed at
// the hook pp.cs-exit: once both have left, only the reply is outstanding - a call that has
// not returned by then will never return), and both keys must be served again afterwards.
func (x *c16world) multiPackHandlerFault() *core.Result {
	w, c := x.w, x.w.c
	w.localOp(x.cz0)
	w.localOp(x.cz9)
	req := x.canary.BuildRequest(x.cz0, x.cz9)
	var armed int32 = 1
	var exits int32
	cuid := x.canary.Model.CUID
	w.b.OnHook(func(point string, args ...interface{}) {
		if len(args) < 5 || args[4] != cuid {
			return
		}
		switch point {
		case "pp.before-commit":
			if args[3] == x.k0 && atomic.CompareAndSwapInt32(&armed, 1, 0) {
				panic("injected fault inside one handler of a two-pack message")
			}
		case "pp.cs-exit":
			atomic.AddInt32(&exits, 1)
		}
	})
	c.Step("correct two-pack push-pull from the canary (k0, k9) with a panic injected inside the handler of k0")
	ex := x.canary.Send(req)
	fired := atomic.LoadInt32(&armed) == 0
	atomic.StoreInt32(&armed, 0)
	if ex.Out.Panic != "" {
		return c.Violation("server-panic:multi-pack-handler-fault", "ProcessPushPull panicked: %s", ex.Out.Panic)
	}
	if ex.Out.TimedOut {
		if ex.Out.Hang || atomic.LoadInt32(&exits) >= 2 {
			return c.Violation("no-answer:multi-pack-handler-fault", "a two-pack message one of whose handlers panicked was never answered although both handlers have left their critical sections (pp.cs-exit seen %d times)\n%s", atomic.LoadInt32(&exits), clipDump(ex.Out.Dump))
		}
		return c.Inconclusive("watchdog on a two-pack message with a handler fault")
	}
	if !w.idle() {
		return c.Inconclusive("idle")
	}
	if !fired {
		return nil
	}
	c.Count("multi_pack_handler_faults_injected", 1)
	if ex.Out.Err == nil && ex.Resp != nil {
		if n := len(ex.Resp.PushPullPacks); n != 2 {
			return c.Violation("packs-lost:multi-pack-handler-fault", "a two-pack message one of whose handlers panicked was answered with %d packs", n)
		}
		if p := ex.PackOf(x.k9); p != nil && bed.IsErrorPack(p) {
			c.Count("diagnostic_sibling_pack_of_faulted_handler_refused", 1)
		}
		x.canary.Apply(ex.Resp)
		w.idle()
	}
	// both keys are served again
	w.localOp(x.cz0)
	w.localOp(x.cz9)
	for try := 0; try < 2; try++ {
		cex := x.canary.Send(x.canary.BuildRequest(x.cz0, x.cz9))
		if cex.Out.TimedOut && cex.Out.Hang {
			return c.Violation("no-answer:after-multi-pack-handler-fault", "after a handler fault in a two-pack message the next request on those keys is never answered\n%s", clipDump(cex.Out.Dump))
		}
		if cex.Out.TimedOut {
			return c.Inconclusive("canary watchdog after a multi-pack handler fault")
		}
		if cex.Out.Err != nil {
			return c.Violation("key-blocked-after-handler-fault", "after a handler fault in a two-pack message the next correct request is refused with an RPC error: %v", cex.Out.Err)
		}
		refused := false
		for _, p := range cex.Resp.PushPullPacks {
			if bed.IsErrorPack(p) {
				refused = true
			}
		}
		x.canary.Apply(cex.Resp)
		w.idle()
		if !refused {
			return nil
		}
		if try == 1 {
			return c.Violation("key-blocked-after-handler-fault", "after a handler fault in a two-pack message correct requests on keys k0 / k9 keep being refused: a key was not released")
		}
	}
	return nil
}

// emptyAnswer: a call that returned neither a response nor an error has not answered its
// caller (over gRPC the client would see an internal marshalling error instead of the
// refusal and its reason).
func (x *c16world) emptyAnswer(rpc string, out bed.CallOutcome, answered bool) *core.Result {
	if out.Panic == "" && !out.TimedOut && out.Err == nil && !answered {
		return x.w.c.Violation("empty-answer:"+rpc, "%s returned neither a response nor an error", rpc)
	}
	return nil
}
