package props

import (
	"fmt"
	"github.com/orda-io/orda/client/pkg/orda"
	"math/rand"

	"vh/core"
	"vh/crdt"
)

var errAbort = fmt.Errorf("abort")

func tierN(tier string, quick, thorough int) int {
	if tier == "thorough" {
		return thorough
	}
	return quick
}

// histShape draws the common shape of a multi-replica history.
type histShape struct {
	typ    string
	nrep   int
	steps  int
	idle   int // idle operation pairs issued first (advances clocks past 10/100/1000)
	idleOn int
	clock  uint64 // non-zero: the idle replica starts at this (large) clock value
	// boundary > 0 (lists and documents): replica 0 opens the history with ONE operation that
	// creates 11-25 elements (delimiters 10.. at clock 1) and then issues `boundary` more
	// operations on that sequence before anything is delivered to it, so that its clock walks
	// through 10..45 - the (clock, delimiter) pairs whose decimal renderings meet
	boundary int
}

func drawShape(c *core.Case, maxSteps int) histShape {
	r := c.Rng
	s := histShape{typ: crdt.Types[c.Index%4], nrep: 2 + r.Intn(3), steps: maxSteps/2 + r.Intn(maxSteps/2+1)}
	switch r.Intn(8) {
	case 0, 1:
		s.idle = 5 + r.Intn(3)
	case 2:
		s.idle = 50 + r.Intn(5)
	case 3:
		if c.Tier == "thorough" || r.Intn(4) == 0 {
			s.idle = 500 + r.Intn(5)
		}
	}
	s.idleOn = r.Intn(s.nrep)
	if (s.typ == "list" || s.typ == "doc") && r.Intn(6) == 0 {
		s.boundary = 10 + r.Intn(35)
		s.idle, s.clock = 0, 0
		return s
	}
	if r.Intn(10) == 0 {
		clocks := []uint64{1<<31 - 3, 1<<32 - 3, 1<<53 - 3, 1<<62 - 100000}
		s.clock = clocks[r.Intn(len(clocks))]
	}
	return s
}

func runIdle(h *crdt.Hist, s histShape) (string, string) {
	if s.clock != 0 {
		h.S.Step("r%d starts at clock %d", s.idleOn, s.clock)
		crdt.InstallClock(h.Reps[s.idleOn], s.clock)
	}
	if s.boundary > 0 {
		return runBoundary(h, s)
	}
	if s.idle == 0 {
		return "", ""
	}
	rep := h.Reps[s.idleOn]
	h.S.Step("r%d idle x%d (clock advance)", rep.Idx, s.idle)
	for i := 0; i < s.idle; i++ {
		for _, op := range h.G.Idle(h.Typ) {
			if _, err := crdt.Apply(rep.DT, op); err != nil {
				return "idle-op-error", fmt.Sprintf("idle operation %s failed: %v", op, err)
			}
		}
	}
	return "", ""
}

// runBoundary: see histShape.boundary.
func runBoundary(h *crdt.Hist, s histShape) (string, string) {
	rep := h.Reps[0]
	g := h.G
	n := 11 + g.R.Intn(15)
	var vs []interface{}
	for i := 0; i < n; i++ {
		vs = append(vs, g.Prim())
	}
	var path []interface{}
	first := crdt.Op{Kind: "ins", Pos: 0, Vals: vs}
	if s.typ == "doc" {
		first = crdt.Op{Kind: "put", Key: "k0", Val: vs}
		path = []interface{}{"k0"}
	}
	h.S.Step("r0 boundary prefix: %d elements in one operation, then %d operations on that sequence", n, s.boundary)
	if _, err, sig, msg := h.Local(rep, first); sig != "" || err != nil {
		if sig == "" {
			sig, msg = "boundary-op-error", fmt.Sprintf("%s failed: %v", first, err)
		}
		return sig, msg
	}
	size := n
	ub := g.UpdBias
	g.UpdBias = 0.4
	defer func() { g.UpdBias = ub }()
	for i := 0; i < s.boundary; i++ {
		op := g.SeqOp(size, path)
		if s.typ == "list" {
			op = g.SeqOp(size, nil)
		}
		if _, err, sig, msg := h.Local(rep, op); sig != "" {
			return sig, msg
		} else if err == nil {
			switch op.Kind {
			case "ins":
				size += len(op.Vals)
			case "del":
				size -= op.N
			}
		}
	}
	h.S.Count("boundary_prefix_histories", 1)
	return "", ""
}

// randomPhase runs `steps` random steps; quiescent points are forced with probability pq.
func randomPhase(c *core.Case, h *crdt.Hist, steps int, quiescent *int) (string, string) {
	r := c.Rng
	for s := 0; s < steps; s++ {
		rep := h.Reps[r.Intn(len(h.Reps))]
		switch k := r.Intn(22); {
		case k >= 20:
			// a user transaction: committed (pushed as one unit) or aborted by its body (the
			// replica rolls back and replays what it had applied since its last rollback point)
			var body []crdt.Op
			for i, n := 0, 1+r.Intn(3); i < n; i++ {
				body = append(body, h.G.Op(rep))
			}
			var fail error
			if r.Intn(2) == 0 {
				fail = errAbort
			}
			h.S.Step("r%d transaction %s abort=%v", rep.Idx, crdt.JS(body), fail != nil)
			var err error
			var executed int
			if pm := safely(func() { err, executed = runTx(rep, body, fail, false) }); pm != "" {
				return "panic:transaction", fmt.Sprintf("r%d: transaction panicked: %s", rep.Idx, pm)
			}
			if fail == nil && err == nil {
				h.LocalOK += executed
				h.S.Count("transactions_committed", 1)
			} else if fail != nil {
				h.S.Count("transactions_aborted", 1)
			}
			if sig, msg := h.After(rep); sig != "" {
				return sig, msg
			}
		case k < 12:
			op := h.G.Op(rep)
			if _, _, sig, msg := h.Local(rep, op); sig != "" {
				return sig, msg
			}
		case k < 17:
			upto := rep.Recvd + r.Intn(len(h.Log.Entries)-rep.Recvd+2)
			if sig, msg := h.Sync(rep, upto); sig != "" {
				return sig, msg
			}
		case k < 19:
			upto := rep.Recvd + r.Intn(len(h.Log.Entries)-rep.Recvd+1)
			if sig, msg := h.DeliverOnly(rep, upto); sig != "" {
				return sig, msg
			}
		default:
			if *quiescent < 3 {
				*quiescent++
				if sig, msg := h.Quiesce(); sig != "" {
					return sig, msg
				}
				if sig, msg := h.CompareAll(); sig != "" {
					return sig, msg
				}
				if r.Intn(2) == 0 {
					// equal-clock burst: every replica issues one operation at the same place right
					// after the quiescent point (all clocks are equal: the client-id tie-break alone
					// orders them); pushes and deliveries follow in the random steps
					ops := h.G.Burst(h.Reps)
					h.S.Step("burst at equal clocks: %s", crdt.JS(ops))
					for i, op := range ops {
						if _, _, sig, msg := h.Local(h.Reps[i], op); sig != "" {
							return sig, msg
						}
					}
					h.S.Count("equal_clock_bursts", 1)
				}
			}
		}
	}
	return "", ""
}

// arrayContainerPhase: see runC01.
func arrayContainerPhase(c *core.Case, h *crdt.Hist, steps int) (string, string) {
	r := c.Rng
	for s := 0; s < steps; s++ {
		rep := h.Reps[r.Intn(len(h.Reps))]
		switch k := r.Intn(12); {
		case k < 5:
			ch, err := rep.DT.(orda.Document).GetFromObject("a")
			if err != nil || ch == nil {
				continue
			}
			arr, _ := ch.GetValue().([]interface{})
			if _, _, sig, msg := h.Local(rep, h.G.SeqOp(len(arr), []interface{}{"a"})); sig != "" {
				return sig, msg
			}
		case k < 8:
			if _, _, sig, msg := h.Local(rep, h.G.Op(rep)); sig != "" { // somewhere in the tree, often below an element
				return sig, msg
			}
		case k < 11:
			upto := rep.Recvd + r.Intn(len(h.Log.Entries)-rep.Recvd+2)
			if sig, msg := h.Sync(rep, upto); sig != "" {
				return sig, msg
			}
		default:
			upto := rep.Recvd + r.Intn(len(h.Log.Entries)-rep.Recvd+1)
			if sig, msg := h.DeliverOnly(rep, upto); sig != "" {
				return sig, msg
			}
		}
	}
	return "", ""
}

func init() {
	core.Register(&core.Prop{
		ID:    "C01",
		Level: "exploration",
		Rule: "seeded random histories of 2-4 replicas of one datatype over the log-order mini-server (local calls incl. batches>=11 and nested values, push, partial delivery, forced quiescent points, continuation after quiescence); " +
			"non-trivial = at least one foreign entry was delivered to a replica that held operations not ordered before it (real concurrency) and the history has >=8 successful local calls; distinct = hash of the step script",
		Assumptions: []string{
			"delivery contract of the server (one total order per datatype, foreign operations in log order) is reproduced by the harness log; that the real server provides it is decided by C05/C06",
			"replica views are compared in canonical JSON (marshal -> unmarshal -> marshal)",
		},
		Cases: func(t string) int { return tierN(t, 4000, 80000) },
		Floor: func(t string) int { return tierN(t, 1000, 20000) },
		Run:   runC01,
	})
}

func runC01(c *core.Case) *core.Result {
	maxSteps := tierN(c.Tier, 60, 150)
	sh := drawShape(c, maxSteps)
	// Identity assignment that depends on Go map iteration order is random per execution,
	// not per input: document cases are repeated in-process.
	reps := 1
	if sh.typ == "doc" {
		reps = 3
	}
	seed := c.Rng.Int63()
	for rep := 0; rep < reps; rep++ {
		c.Rng.Seed(seed)
		if rep > 0 {
			c.Step("--- repetition %d of the same script (map-iteration randomness)", rep)
		}
		g := crdt.NewGen(c.Rng)
		if sh.typ != "counter" && c.Index%8 >= 4 {
			g.Exotic = 0.15 // Go-native values: typed numerics, pointers, structs, typed containers
			g.HostileKeys = 0.15
		}
		h := crdt.NewHist(c, g, sh.typ, sh.nrep)
		AttachIDMonitor(c, h)
		if rep == 0 {
			c.Step("type=%s replicas=%d steps=%d idle=%d", sh.typ, sh.nrep, sh.steps, sh.idle)
		}
		if sig, msg := runIdle(h, sh); sig != "" {
			return c.Violation(sig, "%s", msg)
		}
		q := 0
		if sh.typ == "doc" && (c.Index/4)%3 == 0 {
			// array-of-containers phase: one array under key "a" whose elements are objects,
			// arrays and primitives, known to every replica; then dense multi-value updates /
			// deletes / inserts of such values from all replicas, mixed with writes below the
			// elements (an update that replaces a container another replica is writing into, a
			// delete that meets a multi-value update carrying containers, ...)
			var init []interface{}
			for i := 0; i < 4+c.Rng.Intn(3); i++ {
				switch c.Rng.Intn(3) {
				case 0:
					init = append(init, map[string]interface{}{"x": g.Tag(), "y": []interface{}{g.Tag()}})
				case 1:
					init = append(init, []interface{}{g.Tag(), map[string]interface{}{"z": g.Tag()}})
				default:
					init = append(init, g.Tag())
				}
			}
			if _, err, sig, msg := h.Local(h.Reps[0], crdt.Op{Kind: "put", Key: "a", Val: init}); sig != "" || err != nil {
				return c.Violation("doc:setup", "cannot create the array of containers: %v %s %s", err, sig, msg)
			}
			if sig, msg := h.Quiesce(); sig != "" {
				return c.Violation("doc:"+sig, "%s", msg)
			}
			ub := g.UpdBias
			g.UpdBias = 0.45
			sig, msg := arrayContainerPhase(c, h, sh.steps)
			g.UpdBias = ub
			if sig != "" {
				return c.Violation("doc:"+sig, "%s", msg)
			}
			if rep == 0 {
				c.Count("array_of_containers_histories", 1)
			}
		}
		if sig, msg := randomPhase(c, h, sh.steps, &q); sig != "" {
			return c.Violation(sh.typ+":"+sig, "%s", msg)
		}
		if sig, msg := h.Quiesce(); sig != "" {
			return c.Violation(sh.typ+":"+sig, "%s", msg)
		}
		if sig, msg := h.CompareAll(); sig != "" {
			return c.Violation(sh.typ+":"+sig, "%s", msg)
		}
		// the history continues and must keep converging
		if sig, msg := randomPhase(c, h, sh.steps/3, &q); sig != "" {
			return c.Violation(sh.typ+":"+sig, "%s", msg)
		}
		if sig, msg := h.Quiesce(); sig != "" {
			return c.Violation(sh.typ+":"+sig, "%s", msg)
		}
		if sig, msg := h.CompareAll(); sig != "" {
			return c.Violation(sh.typ+":"+sig+"-after-continuation", "%s", msg)
		}
		if sig, msg := FinishIDMonitor(c, h); sig != "" {
			return c.Violation(sh.typ+":"+sig, "%s", msg)
		}
		c.Count("quiescent_comparisons", int64(q+2))
		c.Count("concurrent_deliveries", int64(h.ConcurrentDeliveries))
		c.Count("local_calls_ok", int64(h.LocalOK))
		c.Count("local_calls_err", int64(h.LocalErr))
		c.Count("histories_"+sh.typ, 1)
		if h.ConcurrentDeliveries > 0 && h.LocalOK >= 8 {
			c.NonTrivial()
		}
	}
	return c.Held()
}

// newRand returns a PRNG for goroutine-local use.
func newRand(seed int64) *rand.Rand { return rand.New(rand.NewSource(seed)) }
