package props

import (
	"context"
	"fmt"
	"github.com/orda-io/orda/server/schema"
	"sort"
	"sync"
	"time"

	"github.com/orda-io/orda/client/pkg/model"
	"github.com/orda-io/orda/client/pkg/vhook"
	"go.mongodb.org/mongo-driver/bson"
	"go.mongodb.org/mongo-driver/bson/primitive"
	"vh/bed"
	"vh/core"
	"vh/crdt"
	"vh/fakemongo"
)

func init() {
	core.Register(&core.Prop{
		ID:       "C11",
		MaxBatch: 300,
		Level:    "exploration",
		Workers:  16,
		Rule: "seeded push histories of 2-3 clients on each of the four types over the real service; the background snapshot update of a chosen push is held at one of its database commands (find -_-Snapshots, find -_-Operations, insert -_-Snapshots, update <user collection>) while later pushes commit and start their own updates, or all updates run freely back to back with random delays, or the whole background goroutine of one push is held back and starts only after the update of a later push has completed (out-of-order updates); monitors over the store and the command log: every -_-Snapshots document (duid, v) restored into a fresh datatype equals the replay of stored operations 1..v; every write to the user collection carries _orda_ver_ = v and (after the BSON round trip the server performs) the JSON view of replay(1..v); per key the written versions never decrease (also when the document itself has a user key named _orda_ver_); snapshot.Manager.GetLatestDatatype() equals the full replay for every position of the latest snapshot (newer snapshot documents are removed step by step); " +
			"non-trivial = at least one snapshot update overlapped a later committed push (its held command was released after a later push had committed) or >= 3 updates ran back to back; distinct = hash of the step script",
		Assumptions: []string{
			"MongoDB is the in-memory stand-in; keys avoid NUL, '$' and '.' (MongoDB restrictions the stand-in does not model)",
			"overlap is produced by holding replies of the stand-in, i.e. at real suspension points of the server code",
		},
		Trusted: []string{"fakemongo (gates, command log)", "fakemqtt", "harness transport (direct mode)"},
		Cases:   func(t string) int { return tierN(t, 400, 5000) },
		Floor:   func(t string) int { return tierN(t, 120, 1500) },
		Run:     runC11,
	})
}

func vhookPending() int64 { return vhook.Pending() }

// plainBSON converts BSON values to plain JSON-able values.
func plainBSON(v interface{}) interface{} {
	switch x := v.(type) {
	case bson.D:
		m := map[string]interface{}{}
		for _, e := range x {
			m[e.Key] = plainBSON(e.Value)
		}
		return m
	case bson.M:
		m := map[string]interface{}{}
		for k, e := range x {
			m[k] = plainBSON(e)
		}
		return m
	case bson.A:
		a := make([]interface{}, 0, len(x))
		for _, e := range x {
			a = append(a, plainBSON(e))
		}
		return a
	case primitive.DateTime:
		return int64(x)
	case int32:
		return float64(x)
	case int64:
		return float64(x)
	}
	return v
}

// viaBSON pushes a JSON view through the BSON round trip InsertRealSnapshot performs.
func viaBSON(view interface{}) (string, error) {
	b, err := bson.Marshal(view)
	if err != nil {
		return "", err
	}
	var m bson.M
	if err := bson.Unmarshal(b, &m); err != nil {
		return "", err
	}
	return crdt.Canon(plainBSON(m)), nil
}

// replayJSON returns ToJSON() of the replay of operations 1..v.
func replayJSON(w *svcWorld, typ, duid string, v uint64) (interface{}, string, error) {
	rep := crdt.NewRep(-1, typ)
	var sel []*model.Operation
	for _, o := range w.b.Ops(duid) {
		if o.Sseq <= v {
			sel = append(sel, o.GetOperation())
		}
	}
	var err error
	if pm := safely(func() {
		if _, e := rep.W.ReceiveRemoteModelOperations(sel, false); e != nil {
			err = e
		}
	}); pm != "" {
		return nil, "", fmt.Errorf("replay panicked: %s", pm)
	}
	view := rep.View()
	if c, ok := rep.DT.(interface{ Get() int32 }); ok {
		view = crdt.Canon(c.Get())
	}
	return rep.DT.ToJSON(), view, err
}

func runC11(c *core.Case) *core.Result {
	w, err := newSvcWorld(c, "colA")
	if err != nil {
		return c.Inconclusive("test bed did not start: %v", err)
	}
	defer w.close()
	r := c.Rng
	typ := crdt.Types[c.Index%4]
	key := "k"
	ncli := 2 + r.Intn(2)
	var dts []*bed.DT
	for i := 0; i < ncli; i++ {
		cl := w.b.NewClient("colA", fmt.Sprintf("c%d", i))
		w.cls = append(w.cls, cl)
		mode := bed.Subscribe
		if i == 0 {
			mode = bed.Create
		}
		d := cl.Open(key, typ, mode)
		cl.Register()
		if _, sig, msg := w.sync(cl); sig != "" {
			return verdict(c, "setup:", sig, msg)
		}
		w.idle()
		dts = append(dts, d)
	}
	mode := (c.Index / 4) % 4 // 0,1: gate one update at a database command; 2: free-running back to back; 3: one update starts late (out of order)
	// gate points are named by kind (read / write) and collection, not by the command a
	// particular version of the repository layer uses there
	gi := r.Intn(4)
	gateAt := []string{"read -_-Snapshots", "read -_-Operations", "write -_-Snapshots", "write colA"}[gi]
	gateColl := []string{"-_-Snapshots", "-_-Operations", "-_-Snapshots", "colA"}[gi]
	gateWrite := gi >= 2
	var gmu sync.Mutex
	var gate chan struct{}
	gated := false
	inUpdate := false
	gateActive := false
	reached := make(chan struct{}, 1)
	npush := 4 + r.Intn(5)
	gatePush := 1 + r.Intn(npush-2)
	overlap := false
	c.Step("type=%s clients=%d pushes=%d mode=%d gate=%q at push %d", typ, ncli, npush, mode, gateAt, gatePush)
	currentPush := 0
	delayRng := newRand(r.Int63())
	w.b.DB.SetPlan(func(cmd *fakemongo.Cmd) fakemongo.Action {
		gmu.Lock()
		defer gmu.Unlock()
		if mode == 3 {
			return fakemongo.Action{}
		}
		if mode != 2 {
			if currentPush == gatePush && cmd.Coll == "-_-Snapshots" && cmd.IsData() && !isWrite(cmd.Name) {
				inUpdate = true // only the background snapshot update reads -_-Snapshots
			}
			if !gated && currentPush == gatePush && cmd.IsData() && cmd.Coll == gateColl && isWrite(cmd.Name) == gateWrite && inUpdate {
				gated = true
				gate = make(chan struct{})
				return fakemongo.Action{GateBefore: gate, OnReached: func() {
					select {
					case reached <- struct{}{}:
					default:
					}
				}}
			}
			return fakemongo.Action{}
		}
		if cmd.Coll == "-_-Snapshots" || cmd.Coll == "colA" {
			return fakemongo.Action{Delay: time.Duration(delayRng.Intn(3)) * time.Millisecond} // own PRNG: this callback runs on the stand-in's connection goroutines (serialised by gmu)
		}
		return fakemongo.Action{}
	})
	// mode 3: the background goroutine of push `gatePush` is held before it does anything and
	// released only after the update of a later push has completed (out-of-order updates)
	lateHold := make(chan struct{})
	var lateOnce, lateRelease sync.Once
	lateHeld := make(chan struct{}, 1)
	if mode == 3 {
		w.b.OnHook(func(point string, args ...interface{}) {
			if point != "pp.post.start" {
				return
			}
			gmu.Lock()
			hold := currentPush == gatePush
			gmu.Unlock()
			if hold {
				held := false
				lateOnce.Do(func() { held = true })
				if held {
					lateHeld <- struct{}{}
					<-lateHold
				}
			}
		})
	}
	defer lateRelease.Do(func() { close(lateHold) })
	released := false
	release := func() {
		gmu.Lock()
		if gate != nil && !released {
			close(gate)
			released = true
		}
		gmu.Unlock()
	}
	defer release()
	for p := 1; p <= npush; p++ {
		gmu.Lock()
		currentPush = p
		gmu.Unlock()
		i := r.Intn(ncli)
		d := dts[i]
		for j := 0; j < 1+r.Intn(3); j++ {
			w.localOp(d)
		}
		if typ == "doc" && c.Index%3 == 0 && p == 2 {
			// a legal user key that happens to be the name of the version field of the stored
			// document: the recorded version must still be the log position
			op := crdt.Op{Kind: "put", Key: "_orda_ver_", Val: r.Intn(3)}
			c.Step("%s/%s local %s", d.C.Alias, d.Key, op)
			crdt.Apply(d.DT, op)
			c.Count("documents_with_user_key_named_like_the_version_field", 1)
		}
		if _, sig, msg := w.sync(w.cls[i]); sig != "" {
			return verdict(c, "", sig, msg)
		}
		if mode == 3 {
			switch {
			case p == gatePush:
				select {
				case <-lateHeld:
				case <-time.After(3 * time.Second):
					c.Count("late_goroutine_not_started", 1)
				}
			case p == gatePush+1:
				// wait until this later push's own update is done, then let the old one start
				for t := 0; t < 400; t++ {
					if vhookPending() <= 1 && w.b.DB.OpenCommands() == 0 {
						time.Sleep(2 * time.Millisecond)
						if vhookPending() <= 1 && w.b.DB.OpenCommands() == 0 {
							break
						}
					}
					time.Sleep(5 * time.Millisecond)
				}
				overlap = true
				c.Step("the background goroutine of push %d starts only now, after the update of push %d completed", gatePush, p)
				lateRelease.Do(func() { close(lateHold) })
				if !w.idle() {
					return c.Inconclusive("idle")
				}
			case p != gatePush:
				gmu.Lock()
				gmu.Unlock()
				if p < gatePush || p > gatePush+1 {
					if !w.idle() {
						return c.Inconclusive("idle")
					}
				}
			}
		} else if mode != 2 {
			switch {
			case p < gatePush:
				if !w.idle() {
					return c.Inconclusive("idle")
				}
			case p == gatePush:
				// wait until the background update of this push has reached the gate
				got := false
				for t := 0; t < 160 && !got; t++ {
					select {
					case <-reached:
						got = true
					case <-time.After(50 * time.Millisecond):
						if w.b.Idle(5 * time.Millisecond) {
							t = 1000 // the push started no snapshot update (refused, or nothing stored)
						}
					}
				}
				if !got {
					select {
					case <-reached:
						got = true
					default:
					}
				}
				gateActive = got
				if !got {
					c.Count("gate_not_reached", 1)
					release()
				}
			default:
				gmu.Lock()
				rel := released
				gmu.Unlock()
				if !gateActive {
					if !w.idle() {
						return c.Inconclusive("idle")
					}
				} else if !rel && (p >= gatePush+1+r.Intn(2) || p == npush) {
					// later pushes have committed while the older update is held: let it go now
					time.Sleep(time.Duration(r.Intn(4)) * time.Millisecond)
					overlap = true
					c.Step("release the held snapshot update of push %d after push %d committed", gatePush, p)
					release()
				}
				if rel {
					if !w.idle() {
						return c.Inconclusive("idle")
					}
				}
			}
		}
	}
	release()
	lateRelease.Do(func() { close(lateHold) })
	if !w.b.Idle(30 * time.Second) {
		return c.Inconclusive("background snapshot updates did not finish")
	}
	w.b.DB.SetPlan(nil)
	if typ == "doc" && c.Index%3 != 0 {
		// REST patches belong to the log too: the server rebuilds the document from its latest
		// snapshot plus the later operations, pushes the patch under its own client id, and the
		// snapshot update that follows must again equal the replay. In half of these cases the
		// rebuild is held at its read of the operation log while a client's push commits.
		race := c.Index%3 == 2
		for _, cl := range w.cls { // everybody is up to date first: the racing push then carries clocks as high as the patch's own
			if _, sig, msg := w.sync(cl); sig != "" {
				return verdict(c, "before-patch:", sig, msg)
			}
		}
		if !w.b.Idle(30 * time.Second) {
			return c.Inconclusive("idle")
		}
		pgate := make(chan struct{})
		preached := make(chan struct{}, 1)
		var pmu sync.Mutex
		pgated := false
		if race {
			w.b.DB.SetPlan(func(cmd *fakemongo.Cmd) fakemongo.Action {
				pmu.Lock()
				defer pmu.Unlock()
				if !pgated && cmd.IsData() && cmd.Coll == "-_-Operations" && !isWrite(cmd.Name) {
					pgated = true
					// the read is executed and its reply held: what the rebuild has read is then stale
					return fakemongo.Action{GateAfter: pgate, OnReached: func() { preached <- struct{}{} }}
				}
				return fakemongo.Action{}
			})
		}
		target := crdt.JS(map[string]interface{}{"patched": w.g.Tag(), "n": float64(r.Intn(100)), "list": []interface{}{w.g.Tag(), w.g.Tag()}})
		c.Step("REST patch of %s to %s (rebuild held while a client pushes: %v)", key, target, race)
		pdone := make(chan bed.CallOutcome, 1)
		go func() {
			pdone <- bed.Guard(30e9, func(ctx context.Context) error {
				_, err := w.b.Svc.PatchDocument(ctx, &model.PatchMessage{Collection: "colA", Key: key, Json: target})
				return err
			})
		}()
		if race {
			select {
			case <-preached:
				d := dts[r.Intn(len(dts))]
				for j := 0; j < 2+r.Intn(3); j++ {
					w.localOp(d)
				}
				if _, sig, msg := w.sync(d.C); sig != "" {
					close(pgate)
					<-pdone
					return verdict(c, "patch-race:", sig, msg)
				}
				overlap = true
				c.Count("client_pushes_committed_inside_a_rest_patch", 1)
			case <-time.After(3 * time.Second):
				c.Count("patch_rebuild_read_not_seen", 1)
			}
			close(pgate)
		}
		pout := <-pdone
		w.b.DB.SetPlan(nil)
		if pout.Panic != "" {
			return c.Violation("server-panic", "PatchDocument panicked: %s", pout.Panic)
		}
		if pout.TimedOut {
			return c.Inconclusive("PatchDocument watchdog")
		}
		c.Count("rest_patches_in_history", 1)
		if !w.b.Idle(30 * time.Second) {
			return c.Inconclusive("background snapshot updates did not finish")
		}
		// everybody pulls the patch
		for _, cl := range w.cls {
			if _, sig, msg := w.sync(cl); sig != "" {
				return verdict(c, "after-patch:", sig, msg)
			}
		}
		if !w.b.Idle(30 * time.Second) {
			return c.Inconclusive("idle")
		}
	}
	dd := w.b.Datatype(w.colNum, key)
	if dd == nil {
		return c.Violation("no-datatype-doc", "datatype document missing")
	}
	// ---- every stored snapshot equals the replay up to its version
	snaps := w.b.Snapshots(dd.DUID)
	for _, s := range snaps {
		if s.ID != fmt.Sprintf("%s:%d", dd.DUID, s.Sseq) || s.CollectionNum != w.colNum {
			return c.Violation("snapshot-doc-fields", "snapshot document %q has sseq %d colNum %d", s.ID, s.Sseq, s.CollectionNum)
		}
		rep := crdt.NewRep(-1, typ)
		var ierr error
		if pm := safely(func() {
			if e := rep.W.SetMetaAndSnapshot([]byte(s.Meta), s.Snapshot); e != nil {
				ierr = e
			}
		}); pm != "" {
			return c.Violation("snapshot-unrestorable", "stored snapshot v%d cannot be restored: %s", s.Sseq, pm)
		}
		if ierr != nil {
			return c.Violation("snapshot-unrestorable", "stored snapshot v%d cannot be restored: %v", s.Sseq, ierr)
		}
		got := rep.View()
		if cn, ok := rep.DT.(interface{ Get() int32 }); ok {
			got = crdt.Canon(cn.Get())
		}
		_, want, err := replayJSON(w, typ, dd.DUID, s.Sseq)
		if err != nil {
			return c.Violation("replay-error", "%v", err)
		}
		if got != want {
			return c.Violation("snapshot-differs-from-replay", "the snapshot stored for version %d restores to %s, replaying operations 1..%d gives %s", s.Sseq, clip(got, 500), s.Sseq, clip(want, 500))
		}
		c.Count("snapshots_checked", 1)
	}
	if len(snaps) == 0 {
		return c.Violation("no-snapshot", "%d pushes with operations were committed and the server is idle, but no snapshot document is stored", npush)
	}
	// ---- user collection writes: version recorded, content = replay(v), versions never decrease
	lastVer := int64(-1)
	writes := 0
	// in the order the writes were EXECUTED (a write that a plan delayed or gated executes after
	// writes that arrived later; what the store goes through is the execution order)
	cmdLog := w.b.DB.LogFrom(0)
	sort.SliceStable(cmdLog, func(i, j int) bool { return cmdLog[i].Exec < cmdLog[j].Exec })
	for _, cmd := range cmdLog {
		if cmd.Coll != "colA" || cmd.Failed || len(cmd.Post) == 0 { // any kind of write command
			continue
		}
		// judged by what the write leaves stored (the post-image the stand-in records), not by the
		// form of the update statement: a replacement and an equivalent $set / $unset are the same
		for _, doc := range cmd.Post {
			if id, _ := doc.Map()["_id"].(string); id != key {
				continue
			}
			ver := fakemongo.Num(doc.Map()["_orda_ver_"])
			if _, ok := doc.Map()["_orda_ver_"]; !ok {
				return c.Violation("user-doc-without-version", "a write to the user collection carries no _orda_ver_")
			}
			if ver < lastVer {
				return c.Violation("user-doc-version-decreased", "the user document of key %q was written with version %d after version %d", key, ver, lastVer)
			}
			lastVer = ver
			writes++
			var body bson.D
			for _, e := range doc {
				if e.Key != "_orda_ver_" && e.Key != "_id" {
					body = append(body, e)
				}
			}
			tj, _, err := replayJSON(w, typ, dd.DUID, uint64(ver))
			if err != nil {
				return c.Violation("replay-error", "%v", err)
			}
			if m, ok := tj.(map[string]interface{}); ok {
				if _, has := m["_orda_ver_"]; has {
					// the version field of the stored document takes precedence over a user key of that name
					cp := map[string]interface{}{}
					for k, v := range m {
						if k != "_orda_ver_" {
							cp[k] = v
						}
					}
					tj = cp
				}
			}
			want, err := viaBSON(tj)
			if err != nil {
				return c.Violation("harness-bson", "%v", err)
			}
			if got := crdt.Canon(plainBSON(body)); got != want {
				return c.Violation("user-doc-differs-from-replay", "the user document written with version %d is %s, the JSON view of replaying operations 1..%d is %s", ver, clip(got, 500), ver, clip(want, 500))
			}
		}
	}
	c.Count("user_doc_writes_checked", int64(writes))
	// the stored user document is the last write
	for _, d := range w.b.DB.Coll(bed.DBName + ".colA") {
		if id, _ := d.Map()["_id"].(string); id == key {
			if fakemongo.Num(d.Map()["_orda_ver_"]) != lastVer {
				return c.Violation("user-doc-stored-version", "stored user document has version %d, last write %d", fakemongo.Num(d.Map()["_orda_ver_"]), lastVer)
			}
		}
	}
	// ---- latest snapshot + tail == full replay, for every position of the latest snapshot
	_, full, err := replayJSON(w, typ, dd.DUID, dd.Sseq.End)
	if err != nil {
		return c.Violation("replay-error", "%v", err)
	}
	versions := []uint64{}
	for _, s := range snaps {
		versions = append(versions, s.Sseq)
	}
	sort.Slice(versions, func(i, j int) bool { return versions[i] > versions[j] })
	for step := 0; ; step++ {
		sv, _, err := w.serverView(dd)
		if err != nil {
			return c.Violation("server-rebuild-error", "GetLatestDatatype failed with the latest snapshot at position %d of %d: %v", step, len(versions), err)
		}
		if sv != full {
			pos := "none"
			if step < len(versions) {
				pos = fmt.Sprint(versions[step])
			}
			return c.Violation("rebuild-differs-from-replay", "rebuilding from the latest snapshot (version %s) plus the later operations gives %s, replaying the whole log gives %s", pos, clip(sv, 500), clip(full, 500))
		}
		c.Count("rebuild_positions_checked", 1)
		if step >= len(versions) {
			break
		}
		v := versions[step]
		w.b.DB.DeleteWhere(bed.NSSnapshots, func(d bson.D) bool {
			return fakemongo.Num(d.Map()["sseq"]) == int64(v) && d.Map()["duid"] == dd.DUID
		})
	}
	// clients still converge with it all
	if ok, sig, msg := w.settle(6); sig != "" {
		return verdict(c, "", sig, msg)
	} else if ok {
		if sig, msg := w.finalAgreement(); sig != "" {
			return c.Violation(sig, "%s", msg)
		}
	}
	if overlap || (mode == 2 && npush >= 3) {
		c.NonTrivial()
	}
	return c.Held()
}

// userDocCurrent: the document kept under key in the user collection records version `end` and
// is the JSON view of the replay of operations 1..end ("" = yes).
func userDocCurrent(w *svcWorld, typ, col, key string, dd *schema.DatatypeDoc) (string, string) {
	for _, d := range w.b.DB.Coll(bed.DBName + "." + col) {
		if id, _ := d.Map()["_id"].(string); id != key {
			continue
		}
		ver := fakemongo.Num(d.Map()["_orda_ver_"])
		if uint64(ver) != dd.Sseq.End {
			return "user-doc-stale", fmt.Sprintf("the user document of key %q records version %d, the log ends at %d and no snapshot update is in progress", key, ver, dd.Sseq.End)
		}
		var body bson.D
		for _, e := range d {
			if e.Key != "_orda_ver_" && e.Key != "_id" {
				body = append(body, e)
			}
		}
		tj, _, err := replayJSON(w, typ, dd.DUID, uint64(ver))
		if err != nil {
			return "replay-error", err.Error()
		}
		if m, ok := tj.(map[string]interface{}); ok {
			if _, has := m["_orda_ver_"]; has {
				cp := map[string]interface{}{}
				for k, v := range m {
					if k != "_orda_ver_" {
						cp[k] = v
					}
				}
				tj = cp
			}
		}
		want, err := viaBSON(tj)
		if err != nil {
			return "harness-bson", err.Error()
		}
		if got := crdt.Canon(plainBSON(body)); got != want {
			return "user-doc-differs-from-replay", fmt.Sprintf("the user document with version %d is %s, the JSON view of replaying operations 1..%d is %s", ver, clip(got, 500), ver, clip(want, 500))
		}
		return "", ""
	}
	return "user-doc-missing", fmt.Sprintf("no document is kept under key %q in the user collection %s", key, col)
}
