package props

import (
	"fmt"

	"github.com/orda-io/orda/client/pkg/model"
	"google.golang.org/protobuf/proto"
	"vh/bed"
	"vh/core"
	"vh/crdt"
)

// C14 service stage (one case in eight): "also after ... storage in MongoDB" taken literally.
// A client of the real service issues operations from generator V (Go-native values, big
// batches, strings of several KiB, transactions) and pushes them; every stored operation
// document is read back from the stand-in and compared with what the client sent (same
// identifier and type, JSON-equivalent body); a second client that subscribes afterwards
// (served from the stored log / snapshots) and the server's own rebuild must read what the
// issuing client reads.
func c14Service(c *core.Case) *core.Result {
	typ := crdt.Types[(c.Index/8)%4]
	w, err := newSvcWorld(c, "colA")
	if err != nil {
		return c.Inconclusive("test bed did not start: %v", err)
	}
	defer w.close()
	g := w.g
	g.Exotic, g.BigBatch, g.Long = 0.4, 0.15, 0.12
	c.Step("service stage: type=%s", typ)
	a := w.b.NewClient("colA", "a")
	ad := a.Open("k", typ, bed.Create)
	if ad == nil || a.Register() != nil {
		return c.Inconclusive("setup")
	}
	w.cls = append(w.cls, a)
	r := c.Rng
	long := false
	for round := 0; round < 3; round++ {
		for i, n := 0, 3+r.Intn(8); i < n; i++ {
			if r.Intn(6) == 0 {
				var body []crdt.Op
				for k := 0; k < 1+r.Intn(3); k++ {
					body = append(body, g.Op(wrapRep(ad)))
				}
				c.Step("transaction %s", clip(crdt.JS(body), 300))
				if pm := safely(func() { runTx(wrapRep(ad), body, nil, false) }); pm != "" {
					return c.Violation(typ+":panic:tx", "transaction panicked: %s", pm)
				}
				continue
			}
			op := g.Op(wrapRep(ad))
			c.Step("call %s", clip(op.String(), 300))
			if pm := safely(func() { crdt.Apply(ad.DT, op) }); pm != "" {
				return c.Violation(typ+":panic:local", "local call %s panicked: %s", clip(op.String(), 300), pm)
			}
		}
		var sent []*model.Operation
		for _, o := range ad.W.CreatePushPullPack().Operations {
			sent = append(sent, proto.Clone(o).(*model.Operation))
			if len(o.Body) > 1024 {
				long = true
				c.Count("bodies_over_1KiB_sent", 1)
			}
		}
		if _, sig, msg := w.sync(a); sig != "" {
			return verdict(c, "svc:", sig, msg)
		}
		if !w.idle() {
			return c.Inconclusive("idle")
		}
		if ad.DT.GetState() != model.StateOfDatatype_SUBSCRIBED {
			return c.Inconclusive("creator not subscribed")
		}
		for try := 0; try < 4 && len(ad.W.CreatePushPullPack().Operations) > 0; try++ {
			// whatever is still pending may go in further messages (nothing says one message takes all)
			if _, sig, msg := w.sync(a); sig != "" {
				return verdict(c, "svc:", sig, msg)
			}
			if !w.idle() {
				return c.Inconclusive("idle")
			}
		}
		if left := len(ad.W.CreatePushPullPack().Operations); left > 0 {
			errs, _, _ := ad.Handler()
			return c.Violation(typ+":svc:push-refused", "the server did not take %d of the %d operations the client pushed (errors %v)", left, len(sent), errs)
		}
		dd := w.b.Datatype(w.colNum, "k")
		if dd == nil {
			return c.Violation(typ+":svc:no-datatype-doc", "no datatype document after an accepted push")
		}
		stored := map[string]*model.Operation{}
		for _, od := range w.b.Ops(dd.DUID) {
			so := od.GetOperation()
			stored[fmt.Sprintf("%s:%d", so.ID.CUID, so.ID.Seq)] = so
		}
		for _, in := range sent {
			out := stored[fmt.Sprintf("%s:%d", in.ID.CUID, in.ID.Seq)]
			if out == nil {
				return c.Violation(typ+":svc:not-stored", "operation %v was acknowledged but is not in the stored log", in.ID)
			}
			if !sameID(in.ID, out.ID) || in.OpType != out.OpType {
				return c.Violation(typ+":svc:id-or-type-changed", "sent %v/%v, stored %v/%v", in.ID, in.OpType, out.ID, out.OpType)
			}
			if in.OpType%10 == 0 && in.OpType >= 10 {
				if canonSnapshot(typ, in.Body) != canonSnapshot(typ, out.Body) {
					return c.Violation(typ+":svc:snapshot-body-changed", "sent snapshot body %s, stored %s", clip(string(in.Body), 300), clip(string(out.Body), 300))
				}
			} else if !jsonEquivalent(in.Body, out.Body) {
				return c.Violation(typ+":svc:body-changed", "operation %v: sent body (%d bytes) %s, stored body (%d bytes) %s", in.ID, len(in.Body), clip(string(in.Body), 300), len(out.Body), clip(string(out.Body), 300))
			}
			c.Count("stored_operations_compared", 1)
		}
	}
	b := w.b.NewClient("colA", "b")
	bd := b.Open("k", typ, bed.Subscribe)
	if bd == nil || b.Register() != nil {
		return c.Inconclusive("setup")
	}
	w.cls = append(w.cls, b)
	ok, sig, msg := w.settle(4)
	if sig != "" {
		return verdict(c, "svc:", sig, msg)
	}
	if !ok {
		return c.Violation(typ+":svc:no-quiescence", "the subscriber does not reach the end of the log")
	}
	if sig, msg := w.finalAgreement(); sig != "" {
		return c.Violation(typ+":svc:"+sig, "%s", msg)
	}
	if ra, rb := crdt.Reads(wrapRep(ad), g.Keys), crdt.Reads(wrapRep(bd), g.Keys); ra != rb {
		return c.Violation(typ+":svc:effect-differs", "element reads of the issuing client %s, of a client served from the store %s", clip(ra, 400), clip(rb, 400))
	}
	c.Count("service_stage_histories", 1)
	if long {
		c.NonTrivial()
	}
	return c.Held()
}
