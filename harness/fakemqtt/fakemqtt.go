// Package fakemqtt: MQTT 3.1.1 broker stand-in (CONNECT, SUBSCRIBE, PUBLISH QoS 0/1,
// PINGREQ, DISCONNECT) that records every publish and delivers through per-subscriber
// queues the harness can delay or hold. Part of the trusted base (DESIGN.md §2.3).
package fakemqtt

import (
	"bufio"
	"io"
	"net"
	"sync"
	"sync/atomic"
	"syscall"
	"time"
	"unsafe"
)

// Pub is one recorded publish.
type Pub struct {
	Seq       int
	Topic     string
	Payload   []byte
	Publisher string // MQTT client id of the publisher
}

// Broker is the stand-in.
type Broker struct {
	mu     sync.Mutex
	l      net.Listener
	subs   map[string][]*conn
	pubs   []Pub
	queued int
	// Delay decides how long a delivery to subscriber (client id) waits; nil = none.
	delay func(subscriber, topic string) time.Duration
	hold  chan struct{} // non-nil: deliveries wait until it is closed
	conns map[*conn]bool
	// subDelay decides how long the broker takes to process a SUBSCRIBE of a client (the
	// subscription becomes active, and is acknowledged, only afterwards); nil = no delay.
	subDelay func(clientID, topic string) time.Duration
	// refused client ids: their connection is cut and every new CONNECT under that id is dropped
	refused map[string]bool
}

type conn struct {
	c     net.Conn
	busy  int32 // a packet has been taken off the wire and is being processed
	wm    sync.Mutex
	id    string
	queue chan []byte
	topic chan string
	quit  chan struct{} // closed when the connection ends
}

// New starts a broker on a loopback port.
func New() *Broker {
	var l net.Listener
	var err error
	for i := 0; i < 50; i++ {
		if l, err = net.Listen("tcp", "127.0.0.1:0"); err == nil {
			break
		}
		time.Sleep(100 * time.Millisecond)
	}
	if err != nil {
		panic(err)
	}
	b := &Broker{l: l, subs: map[string][]*conn{}, conns: map[*conn]bool{}}
	go func() {
		for {
			c, err := l.Accept()
			if err != nil {
				return
			}
			cn := &conn{c: c, queue: make(chan []byte, 4096), topic: make(chan string, 4096), quit: make(chan struct{})}
			b.mu.Lock()
			b.conns[cn] = true
			b.mu.Unlock()
			go b.deliverLoop(cn)
			go b.serve(cn)
		}
	}()
	return b
}

// Addr returns the broker URL for paho.
func (b *Broker) Addr() string { return "tcp://" + b.l.Addr().String() }

// Close stops the broker.
func (b *Broker) Close() {
	b.l.Close()
	b.mu.Lock()
	for c := range b.conns {
		c.c.Close()
	}
	b.mu.Unlock()
}

// Reset clears the publish log, delay function and hold.
func (b *Broker) Reset() {
	b.Release()
	b.mu.Lock()
	b.pubs = nil
	b.delay = nil
	b.subDelay = nil
	b.refused = nil
	b.mu.Unlock()
}

// SetSubscribeDelay makes the broker slow in processing SUBSCRIBE packets: the subscription is
// registered and acknowledged only after f(client id, topic).
func (b *Broker) SetSubscribeDelay(f func(clientID, topic string) time.Duration) {
	b.mu.Lock()
	b.subDelay = f
	b.mu.Unlock()
}

// ClientIDs returns the MQTT client ids of the open connections.
func (b *Broker) ClientIDs() []string {
	b.mu.Lock()
	defer b.mu.Unlock()
	var ids []string
	for c := range b.conns {
		if c.id != "" {
			ids = append(ids, c.id)
		}
	}
	return ids
}

// Refuse cuts the connection of the client with this id and drops every later connection
// attempt under the same id (the broker is unreachable for that client from now on).
func (b *Broker) Refuse(id string) {
	b.mu.Lock()
	if b.refused == nil {
		b.refused = map[string]bool{}
	}
	b.refused[id] = true
	var cut []*conn
	for c := range b.conns {
		if c.id == id {
			cut = append(cut, c)
		}
	}
	b.mu.Unlock()
	for _, c := range cut {
		c.c.Close()
	}
}

// Pubs returns a copy of the publish log.
func (b *Broker) Pubs() []Pub {
	b.mu.Lock()
	defer b.mu.Unlock()
	return append([]Pub{}, b.pubs...)
}

// NumPubs returns the number of publishes so far.
func (b *Broker) NumPubs() int {
	b.mu.Lock()
	defer b.mu.Unlock()
	return len(b.pubs)
}

// Queued returns the number of deliveries accepted but not yet written to a subscriber.
func (b *Broker) Queued() int {
	b.mu.Lock()
	defer b.mu.Unlock()
	return b.queued
}

// Unread reports whether something sent to the broker has not been processed yet: a packet
// being handled, bytes buffered by a connection's reader, or bytes waiting in the kernel's
// receive buffer of a connection (FIONREAD). Together with "the publisher has returned from
// Publish" (paho completes a QoS 0 token after the write) this makes "every notification that
// was sent has been recorded" a logical condition instead of a matter of waiting long enough.
func (b *Broker) Unread() int {
	b.mu.Lock()
	var cs []*conn
	for c := range b.conns {
		cs = append(cs, c)
	}
	b.mu.Unlock()
	n := 0
	for _, c := range cs {
		// order matters: first the kernel buffer, then the flag - the reader raises the flag
		// BEFORE it takes bytes out of the kernel buffer (wireReader), so bytes that were in the
		// buffer when this function started are seen in one of the two places
		if tc, ok := c.c.(*net.TCPConn); ok {
			if rc, err := tc.SyscallConn(); err == nil {
				rc.Control(func(fd uintptr) {
					var pending int32
					if _, _, e := syscall.Syscall(syscall.SYS_IOCTL, fd, 0x541B, uintptr(unsafe.Pointer(&pending))); e == 0 && pending > 0 {
						n++
					}
				})
			}
		}
		if atomic.LoadInt32(&c.busy) != 0 {
			n++
		}
	}
	return n
}

// wireReader reads a connection's bytes with the busy flag raised before anything is taken
// out of the kernel's receive buffer.
type wireReader struct{ c *conn }

func (w *wireReader) Read(p []byte) (int, error) {
	tc, ok := w.c.c.(*net.TCPConn)
	if !ok {
		atomic.StoreInt32(&w.c.busy, 1)
		return w.c.c.Read(p)
	}
	rc, err := tc.SyscallConn()
	if err != nil {
		return 0, err
	}
	var n int
	var rerr error
	err = rc.Read(func(fd uintptr) bool {
		atomic.StoreInt32(&w.c.busy, 1)
		n, rerr = syscall.Read(int(fd), p)
		if rerr == syscall.EAGAIN {
			atomic.StoreInt32(&w.c.busy, 0)
			return false // not readable yet: park until it is
		}
		return true
	})
	if err != nil {
		return 0, err
	}
	if rerr != nil {
		return 0, rerr
	}
	if n == 0 {
		return 0, io.EOF
	}
	return n, nil
}

// Inject delivers a message to the subscribers of a topic as if some client had published
// it (it is not added to the publish log).
func (b *Broker) Inject(topic string, payload []byte) {
	tl := len(topic)
	vb := append([]byte{byte(tl >> 8), byte(tl)}, []byte(topic)...)
	vb = append(vb, payload...)
	pkt := append([]byte{0x30}, encLen(len(vb))...)
	pkt = append(pkt, vb...)
	b.mu.Lock()
	targets := append([]*conn{}, b.subs[topic]...)
	b.queued += len(targets)
	b.mu.Unlock()
	for _, t := range targets {
		b.enqueue(t, topic, pkt)
	}
}

// enqueue hands a packet to a subscriber's deliver loop (or drops it if that connection has ended).
func (b *Broker) enqueue(t *conn, topic string, pkt []byte) {
	select {
	case t.topic <- topic:
		select {
		case t.queue <- pkt:
			return
		case <-t.quit:
		}
	case <-t.quit:
	}
	b.mu.Lock()
	b.queued--
	b.mu.Unlock()
}

// SetDelay installs the delivery delay function.
func (b *Broker) SetDelay(f func(subscriber, topic string) time.Duration) {
	b.mu.Lock()
	b.delay = f
	b.mu.Unlock()
}

// Hold makes all deliveries wait until Release is called.
func (b *Broker) Hold() {
	b.mu.Lock()
	if b.hold == nil {
		b.hold = make(chan struct{})
	}
	b.mu.Unlock()
}

// Release lets held deliveries go.
func (b *Broker) Release() {
	b.mu.Lock()
	if b.hold != nil {
		close(b.hold)
		b.hold = nil
	}
	b.mu.Unlock()
}

// Subscribers returns the number of subscriptions of a topic.
func (b *Broker) Subscribers(topic string) int {
	b.mu.Lock()
	defer b.mu.Unlock()
	return len(b.subs[topic])
}

func readLen(r *bufio.Reader) (int, error) {
	n, mult := 0, 1
	for {
		x, err := r.ReadByte()
		if err != nil {
			return 0, err
		}
		n += int(x&127) * mult
		if x&128 == 0 {
			return n, nil
		}
		mult *= 128
	}
}

func encLen(n int) []byte {
	var out []byte
	for {
		d := byte(n % 128)
		n /= 128
		if n > 0 {
			d |= 128
		}
		out = append(out, d)
		if n == 0 {
			return out
		}
	}
}

func (c *conn) send(p []byte) {
	c.wm.Lock()
	c.c.Write(p)
	c.wm.Unlock()
}

func (b *Broker) deliverLoop(c *conn) {
	defer func() {
		// deliveries still queued for a connection that has ended will never be written
		n := 0
		for {
			select {
			case <-c.queue:
				n++
				continue
			default:
			}
			break
		}
		for {
			select {
			case <-c.topic:
				continue
			default:
			}
			break
		}
		b.mu.Lock()
		b.queued -= n
		if b.queued < 0 {
			b.queued = 0
		}
		b.mu.Unlock()
	}()
	for {
		var pkt []byte
		var topic string
		select {
		case topic = <-c.topic:
			select {
			case pkt = <-c.queue:
			case <-c.quit:
				return
			}
		case <-c.quit:
			return
		}
		b.mu.Lock()
		d := time.Duration(0)
		if b.delay != nil {
			d = b.delay(c.id, topic)
		}
		hold := b.hold
		b.mu.Unlock()
		if hold != nil {
			<-hold
		}
		if d > 0 {
			time.Sleep(d)
		}
		c.send(pkt)
		b.mu.Lock()
		b.queued--
		b.mu.Unlock()
	}
}

func (b *Broker) serve(c *conn) {
	defer func() {
		c.c.Close()
		close(c.quit) // ends this connection's deliver loop
		b.mu.Lock()
		delete(b.conns, c)
		for t, l := range b.subs {
			var keep []*conn
			for _, x := range l {
				if x != c {
					keep = append(keep, x)
				}
			}
			b.subs[t] = keep
		}
		b.mu.Unlock()
	}()
	r := bufio.NewReader(&wireReader{c: c})
	for {
		if r.Buffered() == 0 {
			atomic.StoreInt32(&c.busy, 0) // nothing taken off the wire is left unprocessed
		}
		h, err := r.ReadByte()
		if err != nil {
			return
		}
		n, err := readLen(r)
		if err != nil {
			return
		}
		body := make([]byte, n)
		if _, err := io.ReadFull(r, body); err != nil {
			return
		}
		switch h >> 4 {
		case 1: // CONNECT: protocol name, level, flags, keepalive, client id
			if len(body) >= 2 {
				pl := int(body[0])<<8 | int(body[1])
				off := 2 + pl + 1 + 1 + 2
				if len(body) >= off+2 {
					il := int(body[off])<<8 | int(body[off+1])
					if len(body) >= off+2+il {
						id := string(body[off+2 : off+2+il])
						b.mu.Lock()
						c.id = id
						no := b.refused[id]
						b.mu.Unlock()
						if no {
							return
						}
					}
				}
			}
			c.send([]byte{0x20, 2, 0, 0})
		case 3: // PUBLISH
			tl := int(body[0])<<8 | int(body[1])
			topic := string(body[2 : 2+tl])
			rest := body[2+tl:]
			qos := (h >> 1) & 3
			if qos > 0 {
				pid := rest[:2]
				rest = rest[2:]
				c.send([]byte{0x40, 2, pid[0], pid[1]})
			}
			pkt := []byte{0x30}
			vb := append([]byte{byte(tl >> 8), byte(tl)}, []byte(topic)...)
			vb = append(vb, rest...)
			pkt = append(pkt, encLen(len(vb))...)
			pkt = append(pkt, vb...)
			b.mu.Lock()
			b.pubs = append(b.pubs, Pub{Seq: len(b.pubs), Topic: topic, Payload: append([]byte{}, rest...), Publisher: c.id})
			targets := append([]*conn{}, b.subs[topic]...)
			b.queued += len(targets)
			b.mu.Unlock()
			for _, t := range targets {
				b.enqueue(t, topic, pkt)
			}
		case 8: // SUBSCRIBE
			pid := body[:2]
			p := body[2:]
			var codes []byte
			for len(p) > 0 {
				tl := int(p[0])<<8 | int(p[1])
				topic := string(p[2 : 2+tl])
				p = p[2+tl+1:]
				b.mu.Lock()
				sd := b.subDelay
				b.mu.Unlock()
				if sd != nil {
					if d := sd(c.id, topic); d > 0 {
						time.Sleep(d)
					}
				}
				b.mu.Lock()
				dup := false
				for _, x := range b.subs[topic] {
					if x == c {
						dup = true
					}
				}
				if !dup {
					b.subs[topic] = append(b.subs[topic], c)
				}
				b.mu.Unlock()
				codes = append(codes, 0)
			}
			out := append([]byte{0x90}, encLen(2+len(codes))...)
			out = append(out, pid...)
			out = append(out, codes...)
			c.send(out)
		case 12: // PINGREQ
			c.send([]byte{0xD0, 0})
		case 14: // DISCONNECT
			return
		}
	}
}
