// Package fq: throw-away prototype of an MQTT 3.1.1 broker subset.
package fakemqtt

import (
	"bufio"
	"io"
	"net"
	"sync"
)

type Pub struct {
	Topic   string
	Payload []byte
}

type Broker struct {
	mu   sync.Mutex
	l    net.Listener
	subs map[string][]*conn
	Pubs []Pub
}

type conn struct {
	c  net.Conn
	wm sync.Mutex
}

func New() *Broker {
	l, err := net.Listen("tcp", "127.0.0.1:0")
	if err != nil {
		panic(err)
	}
	b := &Broker{l: l, subs: map[string][]*conn{}}
	go func() {
		for {
			c, err := l.Accept()
			if err != nil {
				return
			}
			go b.serve(&conn{c: c})
		}
	}()
	return b
}

func (b *Broker) Addr() string { return "tcp://" + b.l.Addr().String() }

func readLen(r *bufio.Reader) (int, error) {
	n, mult := 0, 1
	for {
		x, err := r.ReadByte()
		if err != nil {
			return 0, err
		}
		n += int(x&127) * mult
		if x&128 == 0 {
			return n, nil
		}
		mult *= 128
	}
}

func encLen(n int) []byte {
	var out []byte
	for {
		d := byte(n % 128)
		n /= 128
		if n > 0 {
			d |= 128
		}
		out = append(out, d)
		if n == 0 {
			return out
		}
	}
}

func (c *conn) send(p []byte) {
	c.wm.Lock()
	c.c.Write(p)
	c.wm.Unlock()
}

func (b *Broker) serve(c *conn) {
	defer c.c.Close()
	r := bufio.NewReader(c.c)
	for {
		h, err := r.ReadByte()
		if err != nil {
			return
		}
		n, err := readLen(r)
		if err != nil {
			return
		}
		body := make([]byte, n)
		if _, err := io.ReadFull(r, body); err != nil {
			return
		}
		switch h >> 4 {
		case 1: // CONNECT
			c.send([]byte{0x20, 2, 0, 0})
		case 3: // PUBLISH
			tl := int(body[0])<<8 | int(body[1])
			topic := string(body[2 : 2+tl])
			rest := body[2+tl:]
			qos := (h >> 1) & 3
			if qos > 0 {
				pid := rest[:2]
				rest = rest[2:]
				c.send([]byte{0x40, 2, pid[0], pid[1]})
			}
			b.mu.Lock()
			b.Pubs = append(b.Pubs, Pub{topic, append([]byte{}, rest...)})
			targets := append([]*conn{}, b.subs[topic]...)
			b.mu.Unlock()
			pkt := []byte{0x30}
			vb := append([]byte{byte(tl >> 8), byte(tl)}, []byte(topic)...)
			vb = append(vb, rest...)
			pkt = append(pkt, encLen(len(vb))...)
			pkt = append(pkt, vb...)
			for _, t := range targets {
				t.send(pkt)
			}
		case 8: // SUBSCRIBE
			pid := body[:2]
			p := body[2:]
			var codes []byte
			for len(p) > 0 {
				tl := int(p[0])<<8 | int(p[1])
				topic := string(p[2 : 2+tl])
				p = p[2+tl+1:]
				b.mu.Lock()
				b.subs[topic] = append(b.subs[topic], c)
				b.mu.Unlock()
				codes = append(codes, 0)
			}
			out := append([]byte{0x90}, encLen(2+len(codes))...)
			out = append(out, pid...)
			out = append(out, codes...)
			c.send(out)
		case 12: // PINGREQ
			c.send([]byte{0xD0, 0})
		case 14: // DISCONNECT
			return
		}
	}
}
