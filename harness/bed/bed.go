// Package bed: the E-svc test bed (DESIGN.md §2) — the real server/service, mongodb,
// snapshot, notification and lock code built by managers.New from a config that points
// at the in-memory MongoDB and MQTT stand-ins; clients are real SDK clients whose
// push-pull exchanges the harness transports itself ("direct mode") or real grpc.
package bed

import (
	"context"
	"fmt"
	"io"
	"os"
	"runtime"
	"strings"
	"sync"
	"sync/atomic"
	"time"

	octx "github.com/orda-io/orda/client/pkg/context"
	"github.com/orda-io/orda/client/pkg/log"
	"github.com/orda-io/orda/client/pkg/model"
	"github.com/orda-io/orda/client/pkg/vhook"
	"github.com/orda-io/orda/server/managers"
	"github.com/orda-io/orda/server/mongodb"
	"github.com/orda-io/orda/server/service"
	"vh/fakemongo"
	"vh/fakemqtt"
)

// RealStderr is the process's stderr before logging was silenced.
var RealStderr = os.Stderr

var silenceOnce sync.Once

// Silence redirects orda's loggers (which capture os.Stderr when created) to /dev/null.
// Runtime panics and goroutine dumps still reach the real stderr (fd 2).
func Silence() {
	silenceOnce.Do(func() {
		if os.Getenv("VERIF_VERBOSE") != "" {
			return
		}
		null, err := os.OpenFile("/dev/null", os.O_WRONLY, 0)
		if err == nil {
			os.Stderr = null
		}
		log.Logger.Logger.Out = io.Discard
	})
}

// DBName is the orda database name used by the bed.
const DBName = "orda"

// Collection names of the store.
const (
	NSCollections = DBName + ".-_-Collections"
	NSColNum      = DBName + ".-_-ColNumGenerator"
	NSClients     = DBName + ".-_-Clients"
	NSDatatypes   = DBName + ".-_-Datatypes"
	NSOperations  = DBName + ".-_-Operations"
	NSSnapshots   = DBName + ".-_-Snapshots"
)

// Bed is one store (fakemongo + fakemqtt) with the current server incarnation.
type Bed struct {
	DB  *fakemongo.Server
	MQ  *fakemqtt.Broker
	Mgr *managers.Managers
	Svc *service.OrdaService
	App string
	inc int
	clk int64
	// hook listeners
	hmu   sync.Mutex
	hooks []func(point string, args ...interface{})

	tainted  bool
	rpc      *RPC
	nClients uint32 // direct-mode clients created in the current case
}

var current atomic.Value // *Bed receiving vhook events

func init() {
	vhook.SetHandler(func(point string, args ...interface{}) {
		if b, ok := current.Load().(*Bed); ok && b != nil {
			b.hmu.Lock()
			hs := append([]func(string, ...interface{}){}, b.hooks...)
			b.hmu.Unlock()
			for _, h := range hs {
				h(point, args...)
			}
		}
	})
}

var shared *Bed

// Fresh returns the worker's bed with an empty store: the stand-ins and the server
// incarnation are reused across cases (connection churn would otherwise exhaust the
// loopback ports), all documents, logs, plans and hook listeners are wiped.
func Fresh() (*Bed, error) {
	if shared == nil || shared.tainted {
		if shared != nil {
			shared.reallyClose()
		}
		b, err := New()
		if err != nil {
			return nil, err
		}
		shared = b
		return b, nil
	}
	b := shared
	if !b.Idle(10 * time.Second) {
		b.reallyClose()
		shared = nil
		return Fresh()
	}
	b.DB.Reset()
	b.MQ.Reset()
	b.ClearHooks()
	atomic.StoreUint32(&b.nClients, 0)
	if b.rpc != nil {
		b.rpc.SetTaps(nil, nil)
		b.rpc.SetFaults(nil, nil)
		b.rpc.SetBackend(nil)
	}
	return b, nil
}

// Taint marks the bed as not reusable (a case left it in an unknown state: restarted
// incarnations, leaked locks, held gates).
func (b *Bed) Taint() { b.tainted = true }

// New creates a fresh store and starts the first server incarnation.
func New() (*Bed, error) {
	Silence()
	b := &Bed{DB: fakemongo.New(), MQ: fakemqtt.New()}
	current.Store(b)
	var err error
	for try := 0; try < 4; try++ { // a loaded machine may miss the 500 ms server-selection window
		if err = b.Restart(); err == nil {
			return b, nil
		}
	}
	return nil, err
}

// OnHook registers a vhook listener (called synchronously at hook points).
func (b *Bed) OnHook(f func(point string, args ...interface{})) {
	b.hmu.Lock()
	b.hooks = append(b.hooks, f)
	b.hmu.Unlock()
}

// ClearHooks removes all listeners.
func (b *Bed) ClearHooks() {
	b.hmu.Lock()
	b.hooks = nil
	b.hmu.Unlock()
}

// Restart starts a new server incarnation on the same store; the previous service
// object is abandoned (as after a process restart).
func (b *Bed) Restart() error {
	// "server selection timeout" means the stand-in did not complete the driver's handshake
	// within the 500 ms window - a matter of machine load, not of the store the incarnation
	// starts on: such a start is repeated.
	var err error
	for try := 0; try < 5; try++ {
		if err = b.restartOnce(); err == nil || !strings.Contains(err.Error(), "server selection") {
			return err
		}
	}
	return err
}

func (b *Bed) restartOnce() error {
	b.inc++
	b.App = fmt.Sprintf("inc%d", b.inc)
	ctx := octx.NewOrdaContext(context.TODO(), "bed")
	mgr, err := managers.New(ctx, &managers.OrdaServerConfig{
		Notification: b.MQ.Addr(),
		Mongo: &mongodb.Config{Host: b.DB.Addr(), OrdaDB: DBName, User: "u", Password: "p",
			Options: "authMechanism=PLAIN&authSource=$external&appName=" + b.App + "&serverSelectionTimeoutMS=500&connectTimeoutMS=500"},
	})
	if err != nil {
		return fmt.Errorf("managers.New: %v", err)
	}
	b.Mgr = mgr
	b.Svc = service.NewOrdaService(mgr)
	return nil
}

// Close ends a case's use of the bed; a shared bed stays up for the next case.
func (b *Bed) Close() {
	if b == shared && !b.tainted {
		return
	}
	b.reallyClose()
	if b == shared {
		shared = nil
	}
}

func (b *Bed) reallyClose() {
	if b.Mgr != nil && b.Mgr.Mongo != nil {
		func() {
			defer func() { recover() }()
			b.Mgr.Mongo.Close(octx.NewOrdaContext(context.TODO(), "bed"))
		}()
	}
	if b.rpc != nil {
		b.rpc.Stop()
	}
	b.DB.Close()
	b.MQ.Close()
}

// Tick returns the next value of the bed's monotonic history clock.
func (b *Bed) Tick() int64 { return atomic.AddInt64(&b.clk, 1) }

// CreateCollection creates a collection through the service.
func (b *Bed) CreateCollection(name string) error {
	_, err := b.Svc.CreateCollection(context.TODO(), &model.CollectionMessage{Collection: name})
	return err
}

// Idle waits for logical quiescence of the server side: no announced background goroutine,
// no database command in progress, no queued notification delivery, nothing sent to the broker
// that it has not yet recorded (kernel receive buffers included) — stable over three
// consecutive polls. Returns false if that is not reached within the watchdog.
func (b *Bed) Idle(watchdog time.Duration) bool {
	deadline := time.Now().Add(watchdog)
	stable := 0
	for time.Now().Before(deadline) {
		if vhook.Pending() == 0 && b.DB.OpenCommands() == 0 && b.MQ.Queued() == 0 && b.MQ.Unread() == 0 {
			stable++
			if stable >= 3 {
				return true
			}
			runtime.Gosched()
			time.Sleep(200 * time.Microsecond)
			continue
		}
		stable = 0
		time.Sleep(500 * time.Microsecond)
	}
	return false
}

// Stacks returns a dump of all goroutines.
func Stacks() string {
	buf := make([]byte, 4<<20)
	n := runtime.Stack(buf, true)
	return string(buf[:n])
}

// HandlerAlive reports whether some push-pull handler goroutine exists in a dump.
func HandlerAlive(dump string) bool {
	return strings.Contains(dump, "(*PushPullHandler).process")
}

// ClientSyncStuck reports a dump in which an SDK client's Sync() waits for the client's sync
// semaphore while no goroutine of the process is inside a sync that could release it.
func ClientSyncStuck(dump string) bool {
	waiting, holder := false, false
	for _, g := range strings.Split(dump, "\n\n") {
		if strings.Contains(g, "managers.(*DatatypeManager).SyncAll") && strings.Contains(g, "semaphore.(*Weighted).Acquire") {
			waiting = true
			continue
		}
		if strings.Contains(g, "managers.(*DatatypeManager).syncPushPullPacks") || strings.Contains(g, "managers.(*SyncManager).Sync") ||
			strings.Contains(g, "managers.(*DatatypeManager).syncIfNeedPull") || strings.Contains(g, "managers.(*DatatypeManager).DeliverTransaction") {
			holder = true
		}
	}
	return waiting && !holder
}

// callWaitsForHandlers reports a dump in which the goroutine serving ProcessPushPull is
// blocked waiting for its handlers' replies (in a select or a channel receive, whatever the
// fan-in is built from).
func callWaitsForHandlers(dump string) bool {
	for _, g := range strings.Split(dump, "\n\n") {
		if !strings.Contains(g, "service.(*OrdaService).ProcessPushPull") {
			continue
		}
		head := g
		if i := strings.Index(g, "\n"); i > 0 {
			head = g[:i]
		}
		if strings.Contains(head, "[select") || strings.Contains(head, "[chan receive") {
			return true
		}
	}
	return false
}

// CallOutcome of a service call under the watchdog.
type CallOutcome struct {
	Err      error
	Panic    string
	TimedOut bool
	Hang     bool // timed out and the awaited party provably cannot make progress
	Dump     string
	// Returned (set when TimedOut) tells whether the call has come back meanwhile - after the
	// watchdog cancelled its context a merely slow call ends soon, a stuck one never does.
	Returned func() bool
}

// Guard runs f (a service call) with a per-call context cancelled when the call returns
// (as gRPC does) under the watchdog classification of DESIGN.md §3.
func Guard(watchdog time.Duration, f func(ctx context.Context) error) CallOutcome {
	ctx, cancel := context.WithCancel(context.Background())
	type res struct {
		err error
		pm  string
	}
	ch := make(chan res, 1)
	go func() {
		var r res
		defer func() {
			if p := recover(); p != nil {
				r.pm = fmt.Sprint(p)
			}
			ch <- r
		}()
		r.err = f(ctx)
	}()
	select {
	case r := <-ch:
		cancel()
		return CallOutcome{Err: r.err, Panic: r.pm}
	case <-time.After(watchdog):
	}
	// classify: three dumps 1 s apart; the call is stuck in the fan-in select while no
	// handler goroutine exists => nobody will ever answer.
	out := CallOutcome{TimedOut: true}
	stuck := 0
	for i := 0; i < 3; i++ {
		d := Stacks()
		out.Dump = d
		if callWaitsForHandlers(d) && !HandlerAlive(d) {
			stuck++
		} else if patchWaitsForNobody(d) {
			stuck++
		} else if ClientSyncStuck(d) {
			stuck++
		} else if blockedOnNilChannel(d) {
			stuck++
		}
		select {
		case r := <-ch:
			cancel()
			return CallOutcome{Err: r.err, Panic: r.pm}
		case <-time.After(time.Second):
		}
	}
	out.Hang = stuck == 3
	cancel()
	var rmu sync.Mutex
	back := false
	out.Returned = func() bool {
		rmu.Lock()
		defer rmu.Unlock()
		if !back {
			select {
			case <-ch:
				back = true
			default:
			}
		}
		return back
	}
	return out
}

// AwaitPubs waits until the broker stand-in has recorded at least n publishes (or d has passed).
// Server-side quiescence does not cover work a server hands to goroutines the hooks do not know
// (e.g. a publish moved off the request path): an announcement that is DUE is therefore awaited
// for a bounded time before its absence is reported.
func (b *Bed) AwaitPubs(n int, d time.Duration) bool {
	deadline := time.Now().Add(d)
	for b.MQ.NumPubs() < n {
		if time.Now().After(deadline) {
			return false
		}
		time.Sleep(5 * time.Millisecond)
	}
	return true
}

// Environmental reports whether a start-up error speaks of time or transport (a window that
// closed on a loaded machine, a connection that was not there yet) rather than of the store the
// server starts on. Such a failure is no verdict about the tree: the caller ends inconclusive.
func Environmental(err error) bool {
	if err == nil {
		return false
	}
	s := strings.ToLower(err.Error())
	for _, m := range []string{"server selection", "timeout", "timed out", "deadline exceeded", "connection refused", "connection reset", "broken pipe", "did not become ready", "address already in use", "eof"} {
		if strings.Contains(s, m) {
			return true
		}
	}
	return false
}

// blockedOnNilChannel: some goroutine running orda code waits on a nil channel - the Go runtime
// itself marks such a goroutine "(nil chan)"; it can never be woken, so whoever waits for it
// (the call under the watchdog) waits for good.
func blockedOnNilChannel(dump string) bool {
	for _, g := range strings.Split(dump, "\n\n") {
		nl := strings.IndexByte(g, '\n')
		if nl < 0 {
			continue
		}
		if strings.Contains(g[:nl], "(nil chan)") && strings.Contains(g[nl:], "github.com/orda-io/orda/") {
			return true
		}
	}
	return false
}

// patchWaitsForNobody: the goroutine of a PatchDocument call waits on a channel for the answer
// of its push-pull handler while no handler goroutine exists (both facts about the SAME dump;
// the first one about ONE goroutine).
func patchWaitsForNobody(dump string) bool {
	if HandlerAlive(dump) {
		return false
	}
	for _, g := range strings.Split(dump, "\n\n") {
		nl := strings.IndexByte(g, '\n')
		if nl < 0 {
			continue
		}
		if strings.Contains(g[:nl], "chan receive") && strings.Contains(g[nl:], "service.(*OrdaService).PatchDocument") {
			return true
		}
	}
	return false
}
