package bed

import (
	"fmt"
	"sort"
	"strings"
	"sync"

	"github.com/orda-io/orda/client/pkg/model"
	"github.com/orda-io/orda/server/schema"
	"go.mongodb.org/mongo-driver/bson"
	"vh/core"
	"vh/crdt"
)

// StoredOp is an operation document of the store.
type StoredOp struct {
	schema.OperationDoc
}

// Datatypes decodes all datatype documents.
func (b *Bed) Datatypes() []*schema.DatatypeDoc {
	var out []*schema.DatatypeDoc
	for _, d := range b.DB.Coll(NSDatatypes) {
		raw, _ := bson.Marshal(d)
		var doc schema.DatatypeDoc
		if bson.Unmarshal(raw, &doc) == nil {
			out = append(out, &doc)
		}
	}
	return out
}

// Datatype finds the datatype document of (collection number, key); nil if absent.
func (b *Bed) Datatype(colNum int32, key string) *schema.DatatypeDoc {
	for _, d := range b.Datatypes() {
		if d.CollectionNum == colNum && d.Key == key {
			return d
		}
	}
	return nil
}

// Ops decodes the stored operations of a datatype, sorted by sseq.
func (b *Bed) Ops(duid string) []*schema.OperationDoc {
	var out []*schema.OperationDoc
	for _, d := range b.DB.Coll(NSOperations) {
		raw, _ := bson.Marshal(d)
		var doc schema.OperationDoc
		if bson.Unmarshal(raw, &doc) == nil && doc.DUID == duid {
			out = append(out, &doc)
		}
	}
	sort.SliceStable(out, func(i, j int) bool { return out[i].Sseq < out[j].Sseq })
	return out
}

// ModelOps converts stored operations to model operations (log order).
func ModelOps(docs []*schema.OperationDoc) []*model.Operation {
	var out []*model.Operation
	for _, d := range docs {
		out = append(out, d.GetOperation())
	}
	return out
}

// Snapshots decodes the stored snapshots of a datatype, sorted by sseq.
func (b *Bed) Snapshots(duid string) []*schema.SnapshotDoc {
	var out []*schema.SnapshotDoc
	for _, d := range b.DB.Coll(NSSnapshots) {
		raw, _ := bson.Marshal(d)
		var doc schema.SnapshotDoc
		if bson.Unmarshal(raw, &doc) == nil && doc.DUID == duid {
			out = append(out, &doc)
		}
	}
	sort.SliceStable(out, func(i, j int) bool { return out[i].Sseq < out[j].Sseq })
	return out
}

// CollectionNum returns the number of a collection (0 if absent).
func (b *Bed) CollectionNum(name string) int32 {
	for _, d := range b.DB.Coll(NSCollections) {
		if id, _ := d.Map()["_id"].(string); id == name {
			switch n := d.Map()["num"].(type) {
			case int32:
				return n
			case int64:
				return int32(n)
			}
		}
	}
	return 0
}

// Ledger records, at the client boundary, every operation a correct client offered.
type Ledger struct {
	// SkipKeys: datatype keys whose stored operations need not have been offered by a
	// client (e.g. documents that also receive REST patches).
	SkipKeys map[string]bool
	mu       sync.Mutex
	offered  map[string]bool // duid-independent: cuid|seq|lamport|type|bodyhash
	// Truncated describes the first request pack seen at the boundary that carried an
	// incomplete transaction unit (a header announcing more operations than follow it in the
	// same pack): a committed transaction is pushed as one contiguous unit.
	Truncated string
}

// NewLedger creates an empty ledger.
func NewLedger() *Ledger { return &Ledger{offered: map[string]bool{}, SkipKeys: map[string]bool{}} }

func opKey(cuid string, seq, lamport uint64, typ string, body []byte) string {
	return fmt.Sprintf("%s|%d|%d|%s|%s", cuid, seq, lamport, typ, core.Hash(string(body)))
}

// Offer records the operations of a request.
func (l *Ledger) Offer(req *model.PushPullMessage) {
	l.mu.Lock()
	defer l.mu.Unlock()
	for _, p := range req.PushPullPacks {
		for i, o := range p.Operations {
			if o.ID == nil {
				continue
			}
			l.offered[opKey(o.ID.CUID, o.ID.Seq, o.ID.Lamport, o.OpType.String(), o.Body)] = true
			if o.OpType == model.TypeOfOperation_TRANSACTION && l.Truncated == "" {
				if d, err := crdt.Decode(o); err == nil && d.N > int64(len(p.Operations)-i) {
					l.Truncated = fmt.Sprintf("a request of client %s for key %q carries a transaction header (seq %d) announcing %d operations, but only %d operations follow it in the pack", req.Cuid, p.Key, o.ID.Seq, d.N, len(p.Operations)-i)
				}
			}
		}
	}
}

// CheckLog checks the store invariants of C06 for every datatype (or only `only` if
// non-empty): sseq = 1..n without gaps or repeats, _id = duid:sseq, n = recorded end of log,
// per client the stored seqs are 1,2,3,... in sseq order, every stored operation was offered
// by a client (ledger, if given), every recorded checkpoint is covered by what is stored.
func (b *Bed) CheckLog(l *Ledger, only string) (sig, msg string) {
	if l != nil {
		l.mu.Lock()
		tr := l.Truncated
		l.mu.Unlock()
		if tr != "" {
			return "request:truncated-unit", tr
		}
	}
	for _, dt := range b.Datatypes() {
		if only != "" && dt.DUID != only {
			continue
		}
		ops := b.Ops(dt.DUID)
		n := uint64(len(ops))
		perClient := map[string]uint64{}
		for i, o := range ops {
			want := uint64(i + 1)
			if o.Sseq != want {
				var ss []string
				for _, x := range ops {
					ss = append(ss, fmt.Sprint(x.Sseq))
				}
				return "log:not-gapless", fmt.Sprintf("datatype %s(%s): stored server sequence numbers are %s (expected 1..%d)", dt.Key, dt.DUID, strings.Join(ss, ","), n)
			}
			if o.ID != fmt.Sprintf("%s:%d", dt.DUID, o.Sseq) {
				return "log:bad-id", fmt.Sprintf("operation document _id %q for sseq %d of %s", o.ID, o.Sseq, dt.DUID)
			}
			if o.CollectionNum != dt.CollectionNum {
				return "log:foreign-collection", fmt.Sprintf("operation %s stored under collection %d, its datatype belongs to %d", o.ID, o.CollectionNum, dt.CollectionNum)
			}
			prev := perClient[o.OpID.CUID]
			_, isSubscriber := dt.RWClients[o.OpID.CUID]
			if !isSubscriber {
				// operations appended by the server's REST patch path (administrative, volatile
				// client): no per-client sequence contract
				perClient[o.OpID.CUID] = o.OpID.Seq
				continue
			}
			if o.OpID.Seq != prev+1 {
				return "log:client-order", fmt.Sprintf("datatype %s(%s): client %s's operations are stored with seq ...%d then %d at sseq %d (not its issue order / not exactly once)", dt.Key, dt.DUID, o.OpID.CUID, prev, o.OpID.Seq, o.Sseq)
			}
			perClient[o.OpID.CUID] = o.OpID.Seq
			if l != nil && !l.SkipKeys[dt.Key] && !l.offered[opKey(o.OpID.CUID, o.OpID.Seq, o.OpID.Lamport, o.OpType, o.Body)] {
				return "log:unoffered-op", fmt.Sprintf("datatype %s(%s): stored operation sseq %d (%s seq %d) was never offered by a client", dt.Key, dt.DUID, o.Sseq, o.OpID.CUID, o.OpID.Seq)
			}
		}
		if dt.Sseq.End != n {
			var cps []string
			for cu, sc := range dt.RWClients {
				if sc != nil && sc.CP != nil {
					cps = append(cps, fmt.Sprintf("%s=(%d,%d)", cu[:4], sc.CP.Sseq, sc.CP.Cseq))
				}
			}
			sort.Strings(cps)
			return "log:end-mismatch", fmt.Sprintf("datatype %s(%s): recorded end of log is %d but %d operations are stored (client checkpoints %v)", dt.Key, dt.DUID, dt.Sseq.End, n, cps)
		}
		for cuid, sc := range dt.RWClients {
			if sc == nil || sc.CP == nil {
				continue
			}
			if sc.CP.Sseq > n {
				return "log:checkpoint-beyond-log", fmt.Sprintf("datatype %s(%s): client %s has checkpoint sseq %d, only %d operations are stored", dt.Key, dt.DUID, cuid, sc.CP.Sseq, n)
			}
			if sc.CP.Cseq > perClient[cuid] {
				return "log:ack-of-unstored-op", fmt.Sprintf("datatype %s(%s): client %s is acknowledged up to seq %d but only its operations up to seq %d are stored", dt.Key, dt.DUID, cuid, sc.CP.Cseq, perClient[cuid])
			}
		}
		for cuid, sc := range dt.ROClients {
			if sc == nil || sc.CP == nil {
				continue
			}
			if sc.CP.Sseq > n {
				return "log:checkpoint-beyond-log", fmt.Sprintf("datatype %s(%s): read-only client %s has checkpoint sseq %d, only %d operations are stored", dt.Key, dt.DUID, cuid, sc.CP.Sseq, n)
			}
		}
	}
	return "", ""
}
