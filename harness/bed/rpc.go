package bed

import (
	"context"
	"net"
	"sync"
	"sync/atomic"
	"time"

	"github.com/orda-io/orda/client/pkg/model"
	"github.com/orda-io/orda/client/pkg/orda"
	"google.golang.org/grpc"
	"google.golang.org/grpc/codes"
	"google.golang.org/grpc/status"
	"google.golang.org/protobuf/proto"
	"vh/crdt"
)

// RPCCall is one call seen by the grpc front of the bed.
type RPCCall struct {
	Seq     int64
	Method  string
	CUID    string
	NOps    int // operations carried by a push-pull request
	Err     bool
	Dropped bool // served, but the response was withheld (the client saw an RPC error)
}

// RPC is a real grpc listener implementing OrdaServiceServer in front of the bed's
// service ("proxy mode"): SDK clients Connect() to it.
type RPC struct {
	model.UnimplementedOrdaServiceServer
	b        *Bed
	srv      *grpc.Server
	lis      net.Listener
	inflight int64
	mu       sync.Mutex
	calls    []RPCCall
	// Drop decides whether the response of a push-pull is dropped (the client sees an RPC error).
	Drop func(req *model.PushPullMessage) bool
	// RespDelay holds the response of a served push-pull back for the returned duration.
	RespDelay func(req *model.PushPullMessage) time.Duration
	// OnRequest sees every push-pull request before it is served (boundary ledger).
	OnRequest func(req *model.PushPullMessage)
	// Mangle may reorder the packs of a response (the service collects them in completion
	// order, so any order is one the real server can produce).
	Mangle func(resp *model.PushPullMessage)
	// backend, if set, is a real server process the front forwards to instead of the in-process service
	backend func() model.OrdaServiceClient
}

// SetBackend makes the front forward to a server process (nil: the in-process service).
func (r *RPC) SetBackend(f func() model.OrdaServiceClient) {
	r.mu.Lock()
	r.backend = f
	r.mu.Unlock()
}

func (r *RPC) be() model.OrdaServiceClient {
	r.mu.Lock()
	defer r.mu.Unlock()
	if r.backend == nil {
		return nil
	}
	return r.backend()
}

// SetTaps installs the request / response taps (nil clears them).
func (r *RPC) SetTaps(onReq func(*model.PushPullMessage), mangle func(*model.PushPullMessage)) {
	r.mu.Lock()
	r.OnRequest, r.Mangle = onReq, mangle
	r.mu.Unlock()
}

// SetFaults installs the response-loss and response-delay decisions (nil clears them).
func (r *RPC) SetFaults(drop func(*model.PushPullMessage) bool, delay func(*model.PushPullMessage) time.Duration) {
	r.mu.Lock()
	r.Drop, r.RespDelay = drop, delay
	r.mu.Unlock()
}

// StartRPC starts the grpc front.
func (b *Bed) StartRPC() (*RPC, error) {
	lis, err := net.Listen("tcp", "127.0.0.1:0")
	if err != nil {
		return nil, err
	}
	r := &RPC{b: b, srv: grpc.NewServer(), lis: lis}
	model.RegisterOrdaServiceServer(r.srv, r)
	go r.srv.Serve(lis)
	return r, nil
}

// Addr returns host:port of the grpc front.
func (r *RPC) Addr() string { return r.lis.Addr().String() }

// Stop stops the grpc server.
func (r *RPC) Stop() { r.srv.Stop() }

// InFlight returns the number of RPCs being served.
func (r *RPC) InFlight() int64 { return atomic.LoadInt64(&r.inflight) }

// Calls returns a copy of the call log.
func (r *RPC) Calls() []RPCCall {
	r.mu.Lock()
	defer r.mu.Unlock()
	return append([]RPCCall{}, r.calls...)
}

func (r *RPC) record(c RPCCall) {
	r.mu.Lock()
	c.Seq = r.b.Tick()
	r.calls = append(r.calls, c)
	r.mu.Unlock()
}

// ProcessPushPull forwards to the service.
func (r *RPC) ProcessPushPull(ctx context.Context, in *model.PushPullMessage) (*model.PushPullMessage, error) {
	atomic.AddInt64(&r.inflight, 1)
	defer atomic.AddInt64(&r.inflight, -1)
	n := 0
	for _, p := range in.PushPullPacks {
		n += len(p.Operations)
	}
	r.mu.Lock()
	onReq, mangle := r.OnRequest, r.Mangle
	r.mu.Unlock()
	if onReq != nil {
		onReq(proto.Clone(in).(*model.PushPullMessage))
	}
	var out *model.PushPullMessage
	var err error
	if be := r.be(); be != nil {
		out, err = be.ProcessPushPull(ctx, proto.Clone(in).(*model.PushPullMessage))
	} else {
		out, err = r.b.Svc.ProcessPushPull(ctx, proto.Clone(in).(*model.PushPullMessage))
	}
	if err == nil && out != nil && mangle != nil {
		mangle(out)
	}
	r.mu.Lock()
	drop, delay := r.Drop, r.RespDelay
	r.mu.Unlock()
	if delay != nil {
		if d := delay(in); d > 0 {
			time.Sleep(d) // the request has been served; its response is still on the way
		}
	}
	if err == nil && drop != nil && drop(in) {
		r.record(RPCCall{Method: "ProcessPushPull", CUID: in.Cuid, NOps: n, Err: true, Dropped: true})
		return nil, status.Error(codes.Unavailable, "response lost (injected)")
	}
	r.record(RPCCall{Method: "ProcessPushPull", CUID: in.Cuid, NOps: n, Err: err != nil})
	return out, err
}

// ProcessClient forwards to the service.
func (r *RPC) ProcessClient(ctx context.Context, in *model.ClientMessage) (*model.ClientMessage, error) {
	atomic.AddInt64(&r.inflight, 1)
	defer atomic.AddInt64(&r.inflight, -1)
	var out *model.ClientMessage
	var err error
	if be := r.be(); be != nil {
		out, err = be.ProcessClient(ctx, in)
	} else {
		out, err = r.b.Svc.ProcessClient(ctx, in)
	}
	r.record(RPCCall{Method: "ProcessClient", CUID: in.Cuid, Err: err != nil})
	return out, err
}

// PatchDocument forwards to the service.
func (r *RPC) PatchDocument(ctx context.Context, in *model.PatchMessage) (*model.PatchMessage, error) {
	atomic.AddInt64(&r.inflight, 1)
	defer atomic.AddInt64(&r.inflight, -1)
	if be := r.be(); be != nil {
		return be.PatchDocument(ctx, in)
	}
	return r.b.Svc.PatchDocument(ctx, in)
}

// CreateCollection forwards to the service.
func (r *RPC) CreateCollection(ctx context.Context, in *model.CollectionMessage) (*model.CollectionMessage, error) {
	if be := r.be(); be != nil {
		return be.CreateCollection(ctx, in)
	}
	return r.b.Svc.CreateCollection(ctx, in)
}

// ResetCollection forwards to the service.
func (r *RPC) ResetCollection(ctx context.Context, in *model.CollectionMessage) (*model.CollectionMessage, error) {
	if be := r.be(); be != nil {
		return be.ResetCollection(ctx, in)
	}
	return r.b.Svc.ResetCollection(ctx, in)
}

// NewSDKClient creates a real SDK client (given sync type) that talks grpc / MQTT to the bed.
func (b *Bed) NewSDKClient(r *RPC, col, alias string, st model.SyncType) orda.Client {
	cl := orda.NewClient(&orda.ClientConfig{ServerAddr: r.Addr(), NotificationAddr: b.MQ.Addr(), CollectionName: col, SyncType: st}, alias)
	crdt.QuietClient(cl)
	return cl
}

// Front returns the bed's grpc front, starting it on first use (kept for the bed's lifetime).
func (b *Bed) Front() (*RPC, error) {
	if b.rpc != nil {
		return b.rpc, nil
	}
	r, err := b.StartRPC()
	if err != nil {
		return nil, err
	}
	b.rpc = r
	return r, nil
}

// NewSDKBedClient creates a MANUALLY-syncing SDK client that is connected through the grpc
// front: its Sync() runs the SDK's own path (DatatypeManager.SyncAll -> SyncManager.Sync ->
// ApplyPushPullPack by key) instead of the harness transport.
func (b *Bed) NewSDKBedClient(col, alias string) (*Client, error) {
	r, err := b.Front()
	if err != nil {
		return nil, err
	}
	cli := b.NewSDKClient(r, col, alias, model.SyncType_MANUALLY)
	if err := cli.Connect(); err != nil {
		return nil, err
	}
	return &Client{B: b, Col: col, Alias: alias, Cli: cli, SDK: true}, nil
}

// SyncSDK calls the SDK client's Sync() under the watchdog.
func (c *Client) SyncSDK() CallOutcome {
	return Guard(20*time.Second, func(ctx context.Context) error { return c.Cli.Sync() })
}

// SyncSDKWithin is SyncSDK with a caller-chosen watchdog.
func (c *Client) SyncSDKWithin(d time.Duration) CallOutcome {
	return Guard(d, func(ctx context.Context) error { return c.Cli.Sync() })
}

// CloseSDK closes the SDK client's connections.
func (c *Client) CloseSDK() {
	if c.SDK {
		defer func() { recover() }()
		c.Cli.Close()
	}
}
