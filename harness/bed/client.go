package bed

import (
	"context"
	"fmt"
	"sync"
	"sync/atomic"
	"time"

	octx "github.com/orda-io/orda/client/pkg/context"
	"github.com/orda-io/orda/client/pkg/errors"
	"github.com/orda-io/orda/client/pkg/iface"
	"github.com/orda-io/orda/client/pkg/model"
	"github.com/orda-io/orda/client/pkg/orda"
	"google.golang.org/protobuf/proto"
	"vh/crdt"
)

// Entry modes.
const (
	Create            = "create"
	Subscribe         = "subscribe"
	SubscribeOrCreate = "subscribe-or-create"
)

// Client is a real SDK client (MANUALLY sync mode) whose exchanges the harness transports.
type Client struct {
	B     *Bed
	Col   string
	Alias string
	Cli   orda.Client
	Model *model.Client
	DTs   []*DT
	req   uint32
	SDK   bool // connected through the grpc front; synced with Cli.Sync()
	// SyncType is what this client's ClientMessage tells the server (direct mode: the harness
	// transports the packs itself, so the SDK object stays MANUALLY whatever is announced).
	SyncType model.SyncType
}

// ClientMessage is the registration message of this client.
func (c *Client) ClientMessage() *model.ClientMessage {
	m := proto.Clone(model.NewClientMessage(c.Model)).(*model.ClientMessage)
	if !c.SDK {
		m.SyncType = c.SyncType
	}
	return m
}

// Transition is a state change reported to the state-change handler.
type Transition struct{ Old, New model.StateOfDatatype }

// DT is one datatype of a client with everything its handlers reported.
type DT struct {
	C    *Client
	Key  string
	Typ  string
	Mode string
	DT   orda.Datatype
	W    iface.Datatype

	mu          sync.Mutex
	Errs        []errors.OrdaError
	Transitions []Transition
	Remote      [][]interface{} // operation lists handed to the remote-operation handler, per pack
}

// NewClient creates a client of a collection (not yet registered with the server).
func (b *Bed) NewClient(col, alias string) *Client {
	cli := orda.NewClient(&orda.ClientConfig{CollectionName: col, SyncType: model.SyncType_MANUALLY}, alias)
	crdt.QuietClient(cli)
	st := model.SyncType_MANUALLY
	sum := uint32(0)
	for i := 0; i < len(alias); i++ {
		sum += uint32(alias[i])
	}
	if (sum+atomic.AddUint32(&b.nClients, 1))%3 == 0 {
		st = model.SyncType_REALTIME // about every third direct-mode client registers as a realtime one (a function of the case alone)
	}
	return &Client{B: b, Col: col, Alias: alias, Cli: cli, SyncType: st}
}

// Register performs the client request/response exchange (ProcessClient).
func (c *Client) Register() error {
	if c.Model == nil {
		return fmt.Errorf("client has no datatype yet (its model is reached through a datatype)")
	}
	out := Guard(10*time.Second, func(ctx context.Context) error {
		_, err := c.B.Svc.ProcessClient(ctx, c.ClientMessage())
		return err
	})
	if out.Panic != "" {
		return fmt.Errorf("ProcessClient panicked: %s", out.Panic)
	}
	if out.TimedOut {
		return fmt.Errorf("ProcessClient timed out")
	}
	return out.Err
}

// Open creates a datatype through the public API with handlers that record everything.
func (c *Client) Open(key, typ, mode string) *DT {
	d := &DT{C: c, Key: key, Typ: typ, Mode: mode}
	onState := func(dt orda.Datatype, old, new model.StateOfDatatype) {
		d.mu.Lock()
		d.Transitions = append(d.Transitions, Transition{old, new})
		d.mu.Unlock()
	}
	onRemote := func(dt orda.Datatype, opList []interface{}) {
		d.mu.Lock()
		d.Remote = append(d.Remote, opList)
		d.mu.Unlock()
	}
	onErr := func(dt orda.Datatype, errs ...errors.OrdaError) {
		d.mu.Lock()
		d.Errs = append(d.Errs, errs...)
		d.mu.Unlock()
	}
	var h *orda.Handlers
	if (len(key)+len(c.Alias)+len(c.DTs))%3 == 0 {
		// the other public way to the same three handlers: installed one after the other
		// (SetHandlers leaves a handler alone where it is given none)
		h = orda.NewHandlers(nil, nil, nil)
		h.SetHandlers(onState, nil, onErr)
		h.SetHandlers(nil, onRemote, nil)
	} else {
		h = orda.NewHandlers(onState, onRemote, onErr)
	}
	dt := OpenRaw(c.Cli, key, typ, mode, h)
	if dt == nil || isNilDatatype(dt) {
		return nil
	}
	d.DT = dt
	d.W = dt.(iface.Datatype)
	d.W.SetLogger(crdt.Quiet)
	if c.Model == nil {
		c.Model = d.W.GetCtx().(*octx.DatatypeContext).ClientContext.Client
	}
	c.DTs = append(c.DTs, d)
	return d
}

// OpenRaw opens a datatype through the public client API with the given handlers.
func OpenRaw(cli orda.Client, key, typ, mode string, h *orda.Handlers) orda.Datatype {
	var dt orda.Datatype
	switch typ + "/" + mode {
	case "counter/" + Create:
		dt = cli.CreateCounter(key, h)
	case "counter/" + Subscribe:
		dt = cli.SubscribeCounter(key, h)
	case "counter/" + SubscribeOrCreate:
		dt = cli.SubscribeOrCreateCounter(key, h)
	case "map/" + Create:
		dt = cli.CreateMap(key, h)
	case "map/" + Subscribe:
		dt = cli.SubscribeMap(key, h)
	case "map/" + SubscribeOrCreate:
		dt = cli.SubscribeOrCreateMap(key, h)
	case "list/" + Create:
		dt = cli.CreateList(key, h)
	case "list/" + Subscribe:
		dt = cli.SubscribeList(key, h)
	case "list/" + SubscribeOrCreate:
		dt = cli.SubscribeOrCreateList(key, h)
	case "doc/" + Create:
		dt = cli.CreateDocument(key, h)
	case "doc/" + Subscribe:
		dt = cli.SubscribeDocument(key, h)
	case "doc/" + SubscribeOrCreate:
		dt = cli.SubscribeOrCreateDocument(key, h)
	default:
		panic("bad type/mode " + typ + "/" + mode)
	}
	return dt
}

// IsNilDatatype reports a nil datatype behind the interface value.
func IsNilDatatype(dt orda.Datatype) bool { return dt == nil || isNilDatatype(dt) }

func isNilDatatype(dt orda.Datatype) bool {
	defer func() { recover() }()
	_ = dt.GetKey()
	return false
}

// Snapshot of handler records.
func (d *DT) Handler() (errs []errors.OrdaError, tr []Transition, remote [][]interface{}) {
	d.mu.Lock()
	defer d.mu.Unlock()
	return append([]errors.OrdaError{}, d.Errs...), append([]Transition{}, d.Transitions...), append([][]interface{}{}, d.Remote...)
}

// View is the canonical JSON view of the datatype.
func (d *DT) View() string {
	if c, ok := d.DT.(orda.Counter); ok {
		return crdt.Canon(c.Get())
	}
	return crdt.Canon(d.DT.ToJSON())
}

// Exchange is one push-pull exchange as seen at the boundary.
type Exchange struct {
	Client   *Client
	Req      *model.PushPullMessage
	Resp     *model.PushPullMessage
	Out      CallOutcome
	Call     int64
	Return   int64
	Returned bool
}

// BuildRequest creates the PushPullMessage for the given datatypes exactly as
// SyncManager.Sync does (model.NewPushPullMessage over the datatypes' packs).
func (c *Client) BuildRequest(dts ...*DT) *model.PushPullMessage {
	if len(dts) == 0 {
		dts = c.DTs
	}
	var packs []*model.PushPullPack
	for _, d := range dts {
		packs = append(packs, d.W.CreatePushPullPack())
	}
	c.req++
	msg := model.NewPushPullMessage(c.req, c.Model, packs...)
	return wireMsg(msg)
}

func wireMsg(m *model.PushPullMessage) *model.PushPullMessage {
	b, err := proto.Marshal(m)
	if err != nil {
		panic(err)
	}
	var out model.PushPullMessage
	if err := proto.Unmarshal(b, &out); err != nil {
		panic(err)
	}
	return &out
}

// Send delivers a request to the service (per-call context, watchdog); the response is
// not applied.
func (c *Client) Send(req *model.PushPullMessage) *Exchange {
	ex := &Exchange{Client: c, Req: req, Call: c.B.Tick()}
	svc := c.B.Svc
	ex.Out = Guard(10*time.Second, func(ctx context.Context) error {
		resp, err := svc.ProcessPushPull(ctx, wireMsg(req))
		if err == nil && resp != nil {
			ex.Resp = wireMsg(resp)
		}
		return err
	})
	ex.Return = c.B.Tick()
	ex.Returned = !ex.Out.TimedOut
	return ex
}

// Apply hands the packs of a response to the matching datatypes (as
// DatatypeManager.syncPushPullPacks does). Returns a panic message if the client panics.
func (c *Client) Apply(resp *model.PushPullMessage) (panicked string) {
	if resp == nil {
		return ""
	}
	defer func() {
		if r := recover(); r != nil {
			panicked = fmt.Sprint(r)
		}
	}()
	for _, p := range resp.PushPullPacks {
		for _, d := range c.DTs {
			if d.Key == p.GetKey() {
				d.W.ApplyPushPullPack(proto.Clone(p).(*model.PushPullPack))
				break
			}
		}
	}
	return ""
}

// Sync = BuildRequest + Send + Apply for the given datatypes (all if none given).
func (c *Client) Sync(dts ...*DT) (*Exchange, string) {
	ex := c.Send(c.BuildRequest(dts...))
	if ex.Out.Err != nil || ex.Out.Panic != "" || ex.Out.TimedOut {
		return ex, ""
	}
	pm := c.Apply(ex.Resp)
	return ex, pm
}

// PackOf returns the response pack for a key.
func (ex *Exchange) PackOf(key string) *model.PushPullPack {
	if ex.Resp == nil {
		return nil
	}
	for _, p := range ex.Resp.PushPullPacks {
		if p.GetKey() == key {
			return p
		}
	}
	return nil
}

// IsErrorPack reports whether a pack carries the error bit.
func IsErrorPack(p *model.PushPullPack) bool {
	return p != nil && p.Option&uint32(model.PushPullBitError) != 0
}

// Refused reports an RPC error or an error pack for every pack of the response.
func (ex *Exchange) Refused() bool {
	if ex.Out.Err != nil {
		return true
	}
	if ex.Resp == nil {
		return false
	}
	for _, p := range ex.Resp.PushPullPacks {
		if IsErrorPack(p) {
			return true
		}
	}
	return false
}

// TransitionFault checks what the state-change handler was told against the states the
// datatype really went through: the first report starts at the state the entry mode begins
// in, every report starts where the previous one ended, none reports a change to the same
// state, and the last one ends at the state the datatype is in now. "" = consistent.
func (d *DT) TransitionFault() string {
	if d == nil || d.DT == nil {
		return ""
	}
	d.mu.Lock()
	trs := append([]Transition{}, d.Transitions...)
	d.mu.Unlock()
	cur := model.StateOfDatatype_DUE_TO_SUBSCRIBE_CREATE
	switch d.Mode {
	case Create:
		cur = model.StateOfDatatype_DUE_TO_CREATE
	case Subscribe:
		cur = model.StateOfDatatype_DUE_TO_SUBSCRIBE
	}
	for i, t := range trs {
		if t.Old != cur {
			return fmt.Sprintf("report %d of %d says %v -> %v, but the datatype was in state %v before (reports so far: %v)", i+1, len(trs), t.Old, t.New, cur, trs)
		}
		if t.Old == t.New {
			return fmt.Sprintf("report %d of %d says %v -> %v: no change", i+1, len(trs), t.Old, t.New)
		}
		cur = t.New
	}
	if now := d.DT.GetState(); now != cur {
		return fmt.Sprintf("the state-change handler's reports end in %v (reports: %v), the datatype is in state %v", cur, trs, now)
	}
	return ""
}
