package bed

// E-proc: the orda server as a REAL child process (the repository's own main package, built
// with the verif tag by ./check into <bin>/orda-server) talking to the in-memory MongoDB and
// MQTT stand-ins of the parent. The parent can SIGKILL it at a chosen database command and
// start a new one on the same store. SDK clients reach it through the bed's grpc front
// (stable address across restarts, boundary taps and faults as in proxy mode); the REST
// gateway of the child is reached over HTTP.

import (
	"context"
	"encoding/json"
	"fmt"
	"net"
	"os"
	"os/exec"
	"path/filepath"
	"strings"
	"sync"
	"syscall"
	"time"

	"github.com/orda-io/orda/client/pkg/model"
	"google.golang.org/grpc"
	"google.golang.org/grpc/credentials/insecure"
)

// Proc is one child server process.
type Proc struct {
	b        *Bed
	cmd      *exec.Cmd
	RPCPort  int
	RESTPort int
	Log      string // file holding the child's stdout / stderr
	conn     *grpc.ClientConn
	mu       sync.Mutex
	done     chan struct{}
	state    *os.ProcessState
	killed   bool
	App      string // application name of the child's database connections (fakemongo incarnation)
}

// ServerBinary returns the path of the child server binary built by ./check.
func ServerBinary() string {
	dir := os.Getenv("VERIF_BIN_DIR")
	if dir == "" {
		dir = filepath.Join(os.Getenv("VERIF_DIR"), "bin")
	}
	return filepath.Join(dir, "orda-server")
}

func freePort() (int, error) {
	l, err := net.Listen("tcp", "127.0.0.1:0")
	if err != nil {
		return 0, err
	}
	defer l.Close()
	return l.Addr().(*net.TCPAddr).Port, nil
}

var procSeq int

// StartProc starts a child server on the bed's store. rpcPort / restPort 0 = pick free ports
// (a restarted server reuses the ports of its predecessor).
func (b *Bed) StartProc(workDir string, rpcPort, restPort int) (*Proc, error) {
	// A port picked as free (or inherited from the killed predecessor) can be taken by an
	// unrelated socket of this machine before the child binds it - the ports lie in the range
	// the kernel hands out for outgoing connections. That is no property of the store the
	// child starts on: such a start is repeated with fresh ports (clients reach the child
	// through the front, so its own ports need not be stable).
	var p *Proc
	var err error
	for try := 0; try < 4; try++ {
		if p, err = b.startProcOnce(workDir, rpcPort, restPort); err == nil || !(strings.Contains(err.Error(), "address already in use") || strings.Contains(err.Error(), "server selection")) {
			return p, err
		}
		if strings.Contains(err.Error(), "address already in use") {
			rpcPort, restPort = 0, 0
		}
	}
	return p, err
}

func (b *Bed) startProcOnce(workDir string, rpcPort, restPort int) (*Proc, error) {
	bin := ServerBinary()
	if _, err := os.Stat(bin); err != nil {
		return nil, fmt.Errorf("child server binary missing (%s): %v", bin, err)
	}
	var err error
	if rpcPort == 0 {
		if rpcPort, err = freePort(); err != nil {
			return nil, err
		}
	}
	if restPort == 0 {
		if restPort, err = freePort(); err != nil {
			return nil, err
		}
	}
	procSeq++
	b.inc++
	app := fmt.Sprintf("proc%d-%d", os.Getpid(), b.inc)
	conf := map[string]interface{}{
		"RPCServerPort": rpcPort,
		"RestfulPort":   restPort,
		"SwaggerJSON":   "/repo/resources/orda.grpc.swagger.json",
		"Notification":  b.MQ.Addr(),
		"Mongo": map[string]interface{}{
			"MongoHost": b.DB.Addr(), "OrdaDB": DBName, "User": "u", "Password": "p",
			"Options": "authMechanism=PLAIN&authSource=$external&appName=" + app + "&serverSelectionTimeoutMS=500&connectTimeoutMS=500",
		},
	}
	os.MkdirAll(workDir, 0o755)
	confPath := filepath.Join(workDir, fmt.Sprintf("conf-%d-%d.json", os.Getpid(), procSeq))
	cb, _ := json.Marshal(conf)
	if err := os.WriteFile(confPath, cb, 0o644); err != nil {
		return nil, err
	}
	logPath := filepath.Join(workDir, fmt.Sprintf("server-%d-%d.log", os.Getpid(), procSeq))
	lf, err := os.Create(logPath)
	if err != nil {
		return nil, err
	}
	cmd := exec.Command(bin, "--conf", confPath)
	cmd.Stdout, cmd.Stderr = lf, lf
	cmd.SysProcAttr = &syscall.SysProcAttr{Pdeathsig: syscall.SIGKILL}
	if err := cmd.Start(); err != nil {
		lf.Close()
		return nil, err
	}
	lf.Close()
	p := &Proc{b: b, cmd: cmd, RPCPort: rpcPort, RESTPort: restPort, Log: logPath, done: make(chan struct{})}
	p.App = app
	go func() {
		cmd.Wait()
		p.mu.Lock()
		p.state = cmd.ProcessState
		p.mu.Unlock()
		close(p.done)
	}()
	// ready when the grpc port answers a cheap call
	conn, err := grpc.Dial(fmt.Sprintf("127.0.0.1:%d", rpcPort), grpc.WithTransportCredentials(insecure.NewCredentials()))
	if err != nil {
		p.Kill()
		return nil, err
	}
	p.conn = conn
	cli := model.NewOrdaServiceClient(conn)
	deadline := time.Now().Add(15 * time.Second)
	for {
		select {
		case <-p.done:
			why := ""
			if lb, _ := os.ReadFile(p.Log); strings.Contains(string(lb), "address already in use") {
				why = " [bind: address already in use]"
			}
			return nil, fmt.Errorf("child server exited during start-up (%s)%s: %s", p.ExitDescription(), why, p.LogTail(1500))
		default:
		}
		ctx, cancel := context.WithTimeout(context.Background(), 500*time.Millisecond)
		// a cheap call any server answers: an encoding message without an operation is refused
		// with InvalidArgument (before fix 81e9a8b it crashed the server: defect D26)
		_, err := cli.TestEncodingOperation(ctx, &model.EncodingMessage{})
		cancel()
		if err == nil || !isUnavailable(err) {
			break
		}
		if time.Now().After(deadline) {
			p.Kill()
			return nil, fmt.Errorf("child server did not become ready: %v", err)
		}
		time.Sleep(20 * time.Millisecond)
	}
	return p, nil
}

func isUnavailable(err error) bool {
	s := err.Error()
	return contains(s, "Unavailable") || contains(s, "DeadlineExceeded") || contains(s, "connection refused")
}

func contains(s, sub string) bool {
	for i := 0; i+len(sub) <= len(s); i++ {
		if s[i:i+len(sub)] == sub {
			return true
		}
	}
	return false
}

// Client returns a grpc client of the child.
func (p *Proc) Client() model.OrdaServiceClient { return model.NewOrdaServiceClient(p.conn) }

// Kill sends SIGKILL and waits for the process to be gone.
func (p *Proc) Kill() {
	p.mu.Lock()
	p.killed = true
	p.mu.Unlock()
	if p.cmd.Process != nil {
		p.cmd.Process.Signal(syscall.SIGKILL)
	}
	select {
	case <-p.done:
	case <-time.After(10 * time.Second):
	}
	if p.conn != nil {
		p.conn.Close()
	}
}

// Signal sends a signal to the child; from then on its end counts as caused by the harness.
func (p *Proc) Signal(sig syscall.Signal) {
	p.mu.Lock()
	p.killed = true
	p.mu.Unlock()
	if p.cmd.Process != nil {
		p.cmd.Process.Signal(sig)
	}
}

// Done is closed when the process has ended.
func (p *Proc) Done() <-chan struct{} { return p.done }

// Exited reports whether the process has ended and whether it was the harness that killed it.
func (p *Proc) Exited() (exited, byHarness bool) {
	select {
	case <-p.done:
		p.mu.Lock()
		defer p.mu.Unlock()
		return true, p.killed
	default:
		return false, false
	}
}

// ExitDescription describes how the process ended.
func (p *Proc) ExitDescription() string {
	p.mu.Lock()
	defer p.mu.Unlock()
	if p.state == nil {
		return "running"
	}
	return p.state.String()
}

// LogTail returns the end of the child's output.
func (p *Proc) LogTail(n int) string {
	b, err := os.ReadFile(p.Log)
	if err != nil {
		return ""
	}
	if len(b) > n {
		b = b[len(b)-n:]
	}
	return string(b)
}
