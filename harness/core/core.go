// Package core: the check driver / worker protocol, seeds, evidence, replay files and
// known-findings handling shared by all property checks (DESIGN.md §3).
package core

import (
	"bufio"
	"bytes"
	"encoding/json"
	"fmt"
	"hash/fnv"
	"io"
	"math/rand"
	"os"
	"os/exec"
	"path/filepath"
	"runtime"
	"sort"
	"strconv"
	"strings"
	"sync"
	"time"
)

// VerifDir is the root of the verification tree (evidence, replays, known findings).
var VerifDir = func() string {
	if d := os.Getenv("VERIF_DIR"); d != "" {
		return d
	}
	return "/verif"
}()

// OutDir is where evidence, replay files and work files of a run are written (default:
// VerifDir). Runs against seeded changes set VERIF_OUT_DIR so that the committed evidence
// is written only by runs against /repo's real tree.
var OutDir = func() string {
	if d := os.Getenv("VERIF_OUT_DIR"); d != "" {
		return d
	}
	return VerifDir
}()

// realStderr is file descriptor 2 itself: the test bed points the os.Stderr VARIABLE at
// /dev/null to silence orda's loggers, but watchdog dumps must reach the driver.
var realStderr = os.NewFile(2, "/dev/stderr")

// Verdicts
const (
	Held         = "held"
	Violated     = "violated"
	Inconclusive = "inconclusive"
)

// Result is what a worker reports for one case.
type Result struct {
	Index      int              `json:"i"`
	Verdict    string           `json:"v"`
	NonTrivial bool             `json:"nt"`
	FP         string           `json:"fp,omitempty"`  // fingerprint of the case (distinctness)
	Sig        string           `json:"sig,omitempty"` // violation signature (known-findings key)
	Msg        string           `json:"msg,omitempty"`
	Script     []string         `json:"script,omitempty"`
	Counters   map[string]int64 `json:"cnt,omitempty"`
	Sample     interface{}      `json:"sample,omitempty"`
	Extra      interface{}      `json:"extra,omitempty"`
	Fatal      bool             `json:"fatal,omitempty"` // the worker must not run further cases (e.g. a goroutine is left spinning)
}

// Case is handed to a property's Run function inside a worker process.
type Case struct {
	Prop   string
	Tier   string
	Seed   uint64
	Index  int
	Rng    *rand.Rand
	res    *Result
	steps  *os.File
	closed bool       // the case has returned its result
	mu     sync.Mutex // Step and Count are also called from monitors running in other goroutines (fault plans, hook listeners, concurrent clients)
}

// Step records a step of the case script *before* it is executed (crash witness).
func (c *Case) Step(format string, a ...interface{}) {
	s := fmt.Sprintf(format, a...)
	c.mu.Lock()
	defer c.mu.Unlock()
	if c.closed {
		return
	}
	c.res.Script = append(c.res.Script, s)
	if c.steps != nil {
		c.steps.WriteString(s + "\n")
	}
}

// Count adds to a named observed-event counter.
func (c *Case) Count(name string, n int64) {
	c.mu.Lock()
	defer c.mu.Unlock()
	if c.closed {
		return
	}
	if c.res.Counters == nil {
		c.res.Counters = map[string]int64{}
	}
	c.res.Counters[name] += n
}

// NonTrivial marks the case as satisfying the property's non-triviality rule.
func (c *Case) NonTrivial() { c.res.NonTrivial = true }

// Fingerprint sets the distinctness fingerprint (default: hash of the script).
func (c *Case) Fingerprint(s string) { c.res.FP = s }

// Sample attaches a written-out case sample for the evidence file.
func (c *Case) Sample(v interface{}) { c.res.Sample = v }

// Extra attaches property-specific data for the driver-side Post hook.
func (c *Case) Extra(v interface{}) { c.res.Extra = v }

// Violation ends the case with a violation. sig identifies the violation class for the
// known-findings file; msg is the human readable witness.
func (c *Case) Violation(sig, format string, a ...interface{}) *Result {
	c.res.Verdict = Violated
	c.res.Sig = sig
	c.res.Msg = fmt.Sprintf(format, a...)
	return c.res
}

// Inconclusive ends the case as inconclusive.
func (c *Case) Inconclusive(format string, a ...interface{}) *Result {
	c.res.Verdict = Inconclusive
	c.res.Msg = fmt.Sprintf(format, a...)
	return c.res
}

// Poisoned marks the worker process as unusable after this case (it exits after
// reporting; the driver respawns a worker for the remaining cases).
func (c *Case) Poisoned() { c.res.Fatal = true }

// Held ends the case as held.
func (c *Case) Held() *Result {
	c.res.Verdict = Held
	return c.res
}

// Script returns the steps logged so far.
func (c *Case) Script() []string { return c.res.Script }

// Prop describes one property check.
type Prop struct {
	ID           string
	Level        string // exploration | fault_enumeration
	Rule         string
	Assumptions  []string
	Trusted      []string
	Cases        func(tier string) int
	Floor        func(tier string) int // minimum distinct non-trivial cases for a "held" verdict
	Workers      int                   // 0 => NumCPU
	Race         bool                  // needs the -race binary and race-log post-processing
	RaceAdvisory bool                  // race reports are counted in the evidence but are not verdicts of this property
	CaseTimeout  time.Duration         // wall-clock watchdog per case (inconclusive), default 120s
	MaxBatch     int                   // at most this many cases per worker process (0 = no limit)
	Run          func(c *Case) *Result
	// Post runs in the driver after all cases; it may add violations / counters.
	Post func(a *Agg)
	// Exhaustive reports whether the tier enumerates a finite space completely.
	Exhaustive func(tier string) bool
	// KeepSampleEvery controls how many samples are kept (first N scripts).
}

var registry = map[string]*Prop{}

// Register adds a property check.
func Register(p *Prop) { registry[p.ID] = p }

// Lookup finds a property check.
func Lookup(id string) *Prop { return registry[id] }

// IDs lists registered ids.
func IDs() []string {
	var out []string
	for k := range registry {
		out = append(out, k)
	}
	sort.Strings(out)
	return out
}

// ---------------------------------------------------------------- seeds

func splitmix(x uint64) uint64 {
	x += 0x9e3779b97f4a7c15
	z := x
	z = (z ^ (z >> 30)) * 0xbf58476d1ce4e5b9
	z = (z ^ (z >> 27)) * 0x94d049bb133111eb
	return z ^ (z >> 31)
}

// CaseSeed derives the PRNG seed of case i of property prop from the run seed.
func CaseSeed(seed uint64, prop string, i int) int64 {
	h := fnv.New64a()
	h.Write([]byte(prop))
	return int64(splitmix(seed^splitmix(h.Sum64()+uint64(i)*0x2545F4914F6CDD1D)) >> 1)
}

// Hash returns a short stable hash of strings (fingerprints).
func Hash(parts ...string) string {
	h := fnv.New64a()
	for _, p := range parts {
		h.Write([]byte(p))
		h.Write([]byte{0})
	}
	return strconv.FormatUint(h.Sum64(), 36)
}

// EnvSeed reads VERIF_SEED (default 1).
func EnvSeed() uint64 {
	if s := os.Getenv("VERIF_SEED"); s != "" {
		if v, err := strconv.ParseUint(s, 10, 64); err == nil {
			return v
		}
		if v, err := strconv.ParseInt(s, 10, 64); err == nil {
			return uint64(v)
		}
	}
	return 1
}

// ---------------------------------------------------------------- worker

// WorkerMain runs cases [idx...] of a property in this process, writing one JSON line per
// event to stdout: {"start":i} before a case, the Result after it.
func WorkerMain(propID, tier string, seed uint64, idx []int, stepsPath string) int {
	p := Lookup(propID)
	if p == nil {
		fmt.Fprintln(os.Stderr, "unknown property", propID)
		return 2
	}
	out := bufio.NewWriter(os.Stdout)
	emit := func(v interface{}) {
		b, err := json.Marshal(v)
		if err != nil {
			b, _ = json.Marshal(map[string]string{"marshal_error": err.Error()})
		}
		out.Write(b)
		out.WriteByte('\n')
		out.Flush()
	}
	go memoryWatchdog()
	for _, i := range idx {
		emit(map[string]int{"start": i})
		res := RunCase(p, tier, seed, i, stepsPath)
		emit(res)
		if res.Fatal || res.Verdict == Inconclusive && strings.HasPrefix(res.Msg, "case watchdog") {
			return 0
		}
	}
	return 0
}

// memoryWatchdog ends the worker when its resident set exceeds the limit (a runaway loop
// in the code under test must not take the machine down); the driver reports the case in
// progress as crashed with the goroutine dump as witness.
func memoryWatchdog() {
	limitPages := int64(3<<30) / int64(os.Getpagesize())
	if v := os.Getenv("VERIF_WORKER_MEM_GB"); v != "" {
		if g, err := strconv.Atoi(v); err == nil && g > 0 {
			limitPages = int64(g<<30) / int64(os.Getpagesize())
		}
	}
	for {
		time.Sleep(100 * time.Millisecond)
		b, err := os.ReadFile("/proc/self/statm")
		if err != nil {
			return
		}
		f := strings.Fields(string(b))
		if len(f) < 2 {
			return
		}
		rss, _ := strconv.ParseInt(f[1], 10, 64)
		if rss > limitPages {
			buf := make([]byte, 256<<10)
			n := runtime.Stack(buf, true)
			fmt.Fprintf(realStderr, "fatal error: MEMORY-WATCHDOG resident set above limit (runaway allocation in the case in progress)\n%s\n", buf[:n])
			os.Exit(3)
		}
	}
}

// RunCase executes one case with the per-case watchdog.
func RunCase(p *Prop, tier string, seed uint64, i int, stepsPath string) *Result {
	c := &Case{Prop: p.ID, Tier: tier, Seed: seed, Index: i,
		Rng: rand.New(rand.NewSource(CaseSeed(seed, p.ID, i))),
		res: &Result{Index: i, Verdict: Held}}
	if stepsPath != "" {
		f, err := os.OpenFile(stepsPath, os.O_CREATE|os.O_TRUNC|os.O_WRONLY, 0o644)
		if err == nil {
			c.steps = f
			fmt.Fprintf(f, "# property=%s tier=%s seed=%d case=%d\n", p.ID, tier, seed, i)
			defer f.Close()
		}
	}
	to := p.CaseTimeout
	if to == 0 {
		to = 120 * time.Second
	}
	done := make(chan *Result, 1)
	go func() { done <- p.Run(c) }()
	select {
	case r := <-done:
		if r == nil {
			r = c.res
		}
		// the case is over: a goroutine it has left behind must not touch the result while the
		// worker encodes it (later Step / Count calls are dropped); hand out a private copy
		c.mu.Lock()
		c.closed = true
		cp := *r
		cp.Script = append([]string{}, r.Script...)
		if r.Counters != nil {
			cp.Counters = make(map[string]int64, len(r.Counters))
			for k, v := range r.Counters {
				cp.Counters[k] = v
			}
		}
		c.mu.Unlock()
		r = &cp
		if r.FP == "" {
			r.FP = Hash(r.Script...)
		}
		return r
	case <-time.After(to):
		// case watchdog: dump goroutines to stderr for the driver, report inconclusive
		buf := make([]byte, 1<<20)
		n := runtime.Stack(buf, true)
		fmt.Fprintf(realStderr, "CASE-WATCHDOG property=%s case=%d\n%s\n", p.ID, i, buf[:n])
		// copy what we can without racing too badly with the stuck goroutine
		c.mu.Lock()
		c.closed = true
		c.mu.Unlock()
		r := &Result{Index: i, Verdict: Inconclusive, Msg: "case watchdog fired after " + to.String()}
		return r
	}
}

// ---------------------------------------------------------------- driver

// Violation as aggregated by the driver.
type Violation struct {
	Case   int
	Sig    string
	Msg    string
	Script []string
	Stderr string
	Known  string // non-empty: matched known finding text
	Replay string
}

// Agg is the driver-side aggregate of a run.
type Agg struct {
	Prop         *Prop
	Tier         string
	Seed         uint64
	Evaluations  int
	FPs          map[string]bool
	Counters     map[string]int64
	Samples      []interface{}
	Violations   []*Violation
	Inconclusive []string
	Extras       []interface{}
	Crashes      int
	Notes        map[string]interface{}
	mu           sync.Mutex
	stopped      int32 // set when the violation cap is reached: remaining cases are skipped
	watchdogs    int   // cases ended by the per-case watchdog
	hung         bool  // the run was cut short because of them
}

// MaxViolations caps the violations collected before the run is cut short (a badly broken
// tree must not make the check run for hours; the verdict is a violation either way).
const MaxViolations = 40

// MaxWatchdogs caps the cases that may end in the per-case watchdog before the run is cut
// short: a tree on which case after case never finishes must not keep the check busy for hours
// (16 workers x 120 s per case); the verdict of such a run is withheld (exit 2), never "held".
const MaxWatchdogs = 16

func (a *Agg) shouldStop() bool {
	a.mu.Lock()
	defer a.mu.Unlock()
	if len(a.Violations) >= MaxViolations {
		a.stopped = 1
	}
	if a.watchdogs >= MaxWatchdogs {
		a.stopped = 1
		a.hung = true
	}
	return a.stopped == 1
}

// AddViolation lets Post hooks report driver-side violations.
func (a *Agg) AddViolation(v *Violation) {
	a.mu.Lock()
	a.Violations = append(a.Violations, v)
	a.mu.Unlock()
}

func (a *Agg) absorb(r *Result, stderrTail string) {
	a.mu.Lock()
	defer a.mu.Unlock()
	a.Evaluations++
	for k, v := range r.Counters {
		a.Counters[k] += v
	}
	if r.NonTrivial && r.Verdict != Inconclusive {
		a.FPs[r.FP] = true
	}
	if r.Sample != nil && len(a.Samples) < 3 {
		a.Samples = append(a.Samples, r.Sample)
	} else if len(a.Samples) < 3 && len(r.Script) > 0 && r.NonTrivial {
		s := r.Script
		if len(s) > 60 {
			s = append(append([]string{}, s[:60]...), fmt.Sprintf("... (%d more steps)", len(r.Script)-60))
		}
		a.Samples = append(a.Samples, map[string]interface{}{"case": r.Index, "script": s})
	}
	if r.Extra != nil {
		a.Extras = append(a.Extras, r.Extra)
	}
	switch r.Verdict {
	case Violated:
		a.Violations = append(a.Violations, &Violation{Case: r.Index, Sig: r.Sig, Msg: r.Msg, Script: r.Script, Stderr: stderrTail})
	case Inconclusive:
		a.Inconclusive = append(a.Inconclusive, fmt.Sprintf("case %d: %s", r.Index, r.Msg))
		if strings.HasPrefix(r.Msg, "case watchdog fired") {
			a.watchdogs++
		}
	}
}

func selfPath(race bool) string {
	exe, _ := os.Executable()
	if race && !strings.HasSuffix(exe, "-race") {
		return exe + "-race"
	}
	return exe
}

func tail(s string, n int) string {
	if len(s) > n {
		return "...\n" + s[len(s)-n:]
	}
	return s
}

// crashSignature reduces a worker's stderr to a stable signature.
func crashSignature(stderr string) string {
	lines := strings.Split(stderr, "\n")
	head := ""
	for _, l := range lines {
		if strings.HasPrefix(l, "panic: ") || strings.HasPrefix(l, "fatal error: ") {
			head = l
			break
		}
	}
	if head == "" {
		return "crash:unknown"
	}
	// strip addresses / numbers that vary
	head = strings.TrimSpace(head)
	if i := strings.Index(head, " [recovered]"); i > 0 {
		head = head[:i]
	}
	// first orda frame
	frame := ""
	for i, l := range lines {
		if strings.HasPrefix(l, "github.com/orda-io/orda/") && i > 0 {
			frame = funcName(l)
			break
		}
	}
	head = stripNumbers(head)
	if len(head) > 120 {
		head = head[:120]
	}
	return "crash:" + head + "@" + frame
}

// harnessFatal recognises a runtime abort ("fatal error: concurrent map writes" and the like,
// which no recover() can catch) whose aborting goroutine has harness code as its first frame
// outside the runtime. It returns a one-line description, or "".
func harnessFatal(stderr string) string {
	lines := strings.Split(stderr, "\n")
	for i, l := range lines {
		if !strings.HasPrefix(l, "fatal error: concurrent map") {
			continue
		}
		for j := i + 1; j < len(lines) && j < i+60; j++ {
			fl := lines[j]
			if fl == "" || strings.HasPrefix(fl, "\t") || strings.HasPrefix(fl, "goroutine ") {
				if fl == "" && j > i+2 {
					break // end of the aborting goroutine's block
				}
				continue
			}
			if strings.HasPrefix(fl, "runtime.") || strings.HasPrefix(fl, "internal/") {
				continue
			}
			if strings.HasPrefix(fl, "vh/") {
				return l + " in " + funcName(fl)
			}
			return ""
		}
	}
	return ""
}

// funcName strips the argument list from a goroutine-dump frame line.
func funcName(l string) string {
	for j := 0; j < len(l); j++ {
		if l[j] == '(' && !(j+1 < len(l) && l[j+1] == '*') {
			return l[:j]
		}
	}
	return l
}

func stripNumbers(s string) string {
	var b strings.Builder
	inNum := false
	for _, r := range s {
		if r >= '0' && r <= '9' {
			if !inNum {
				b.WriteByte('N')
				inNum = true
			}
			continue
		}
		inNum = false
		b.WriteRune(r)
	}
	return b.String()
}

// DriverMain runs all cases of a property over worker processes, writes evidence and
// replay files, and returns the process exit code.
func DriverMain(propID, tier string, seed uint64, only []int) int {
	p := Lookup(propID)
	if p == nil {
		fmt.Fprintln(os.Stderr, "unknown property", propID)
		return 2
	}
	start := time.Now()
	n := p.Cases(tier)
	var idx []int
	if only != nil {
		idx = only
	} else {
		for i := 0; i < n; i++ {
			idx = append(idx, i)
		}
	}
	workers := p.Workers
	if workers <= 0 {
		workers = runtime.NumCPU()
	}
	if workers > len(idx) {
		workers = len(idx)
	}
	if workers < 1 {
		workers = 1
	}
	agg := &Agg{Prop: p, Tier: tier, Seed: seed, FPs: map[string]bool{}, Counters: map[string]int64{}, Notes: map[string]interface{}{}}
	if only == nil {
		if old, _ := filepath.Glob(filepath.Join(OutDir, "replays", propID+"-*.json")); old != nil {
			for _, f := range old {
				os.Remove(f)
			}
		}
	}
	workDir := filepath.Join(OutDir, "work", propID)
	os.RemoveAll(workDir)
	os.MkdirAll(workDir, 0o755)
	raceDir := ""
	if p.Race {
		raceDir = filepath.Join(workDir, "race")
		os.MkdirAll(raceDir, 0o755)
	}
	var wg sync.WaitGroup
	for w := 0; w < workers; w++ {
		var mine []int
		for j := w; j < len(idx); j += workers {
			mine = append(mine, idx[j])
		}
		wg.Add(1)
		go func(w int, mine []int) {
			defer wg.Done()
			runWorker(p, tier, seed, w, mine, workDir, raceDir, agg)
		}(w, mine)
	}
	wg.Wait()
	if p.Race {
		collectRaceReports(raceDir, agg, p.RaceAdvisory)
	}
	if p.Post != nil {
		p.Post(agg)
	}
	return finish(agg, start, only != nil)
}

func runWorker(p *Prop, tier string, seed uint64, w int, mine []int, workDir, raceDir string, agg *Agg) {
	steps := filepath.Join(workDir, fmt.Sprintf("w%d.steps", w))
	for len(mine) > 0 {
		if agg.shouldStop() {
			return
		}
		// a worker process gets at most MaxBatch cases (resources of the stand-ins and of the
		// SDK clients a case leaves behind must not add up over a long run)
		batch := mine
		if p.MaxBatch > 0 && len(batch) > p.MaxBatch {
			batch = mine[:p.MaxBatch]
		}
		later := mine[len(batch):]
		var args []string
		for _, i := range batch {
			args = append(args, strconv.Itoa(i))
		}
		cmd := exec.Command(selfPath(p.Race), "worker", "-prop", p.ID, "-tier", tier, "-seed", strconv.FormatUint(seed, 10),
			"-steps", steps, "-cases", strings.Join(args, ","))
		cmd.Env = append(os.Environ(), "VERIF_WORKER=1")
		if p.Race {
			cmd.Env = append(cmd.Env, "GORACE=halt_on_error=0 exitcode=0 log_path="+filepath.Join(raceDir, fmt.Sprintf("w%d", w)))
		}
		var stderr bytes.Buffer
		cmd.Stderr = &limitedWriter{buf: &stderr, max: 4 << 20}
		stdout, err := cmd.StdoutPipe()
		if err != nil {
			agg.AddViolation(&Violation{Case: -1, Sig: "harness:pipe", Msg: err.Error()})
			return
		}
		if err := cmd.Start(); err != nil {
			agg.mu.Lock()
			agg.Inconclusive = append(agg.Inconclusive, "worker start failed: "+err.Error())
			agg.mu.Unlock()
			return
		}
		current := -1
		doneSet := map[int]bool{}
		rd := bufio.NewReaderSize(stdout, 1<<20)
		for {
			line, err := rd.ReadBytes('\n')
			if len(line) > 0 {
				var probe map[string]json.RawMessage
				if json.Unmarshal(line, &probe) == nil {
					if s, ok := probe["start"]; ok {
						json.Unmarshal(s, &current)
					} else if _, ok := probe["v"]; ok {
						var r Result
						if json.Unmarshal(line, &r) == nil {
							agg.absorb(&r, "")
							doneSet[r.Index] = true
							current = -1
							if agg.shouldStop() {
								cmd.Process.Kill()
							}
						}
					}
				}
			}
			if err != nil {
				break
			}
		}
		werr := cmd.Wait()
		if agg.shouldStop() {
			return // the worker was killed by the driver (violation cap reached)
		}
		var rest []int
		for _, i := range batch {
			if !doneSet[i] && i != current {
				rest = append(rest, i)
			}
		}
		unfinished := len(rest)
		rest = append(rest, later...)
		if current >= 0 {
			// the worker died during case `current`
			se := stderr.String()
			script := readSteps(steps)
			if f := harnessFatal(se); f != "" {
				// the Go runtime aborted the worker over the harness' OWN memory (concurrent map
				// access and the like with harness code on top of the aborting stack): a defect of
				// the check, never a verdict about the tree under test
				fmt.Fprintf(realStderr, "HARNESS-INTERNAL-ERROR worker died in harness code during case %d: %s\n", current, f)
				agg.mu.Lock()
				agg.Evaluations++
				agg.Counters["harness_internal_errors"]++
				agg.mu.Unlock()
				mine = rest
				continue
			}
			v := &Violation{Case: current, Sig: crashSignature(se), Script: script, Stderr: tail(se, 6000),
				Msg: fmt.Sprintf("worker process died during case %d (%v): %s", current, werr, firstLines(se, 3))}
			agg.mu.Lock()
			agg.Evaluations++
			agg.Crashes++
			agg.Violations = append(agg.Violations, v)
			agg.mu.Unlock()
		} else if werr != nil && unfinished > 0 {
			agg.mu.Lock()
			agg.Inconclusive = append(agg.Inconclusive, fmt.Sprintf("worker %d exited (%v) between cases: %s", w, werr, firstLines(stderr.String(), 3)))
			agg.mu.Unlock()
			// avoid endless respawn loops
			if unfinished == len(batch) {
				return
			}
		}
		mine = rest
	}
}

type limitedWriter struct {
	buf *bytes.Buffer
	max int
	mu  sync.Mutex
}

func (l *limitedWriter) Write(p []byte) (int, error) {
	l.mu.Lock()
	defer l.mu.Unlock()
	if l.buf.Len() < l.max {
		l.buf.Write(p)
	}
	return len(p), nil
}

func firstLines(s string, n int) string {
	var out []string
	for _, l := range strings.Split(s, "\n") {
		if strings.TrimSpace(l) == "" {
			continue
		}
		if strings.HasPrefix(l, "panic:") || strings.HasPrefix(l, "fatal error:") || len(out) > 0 {
			out = append(out, l)
		}
		if len(out) >= n {
			break
		}
	}
	if len(out) == 0 {
		ls := strings.Split(strings.TrimSpace(s), "\n")
		if len(ls) > n {
			ls = ls[:n]
		}
		return strings.Join(ls, " | ")
	}
	return strings.Join(out, " | ")
}

func readSteps(path string) []string {
	b, err := os.ReadFile(path)
	if err != nil {
		return nil
	}
	return strings.Split(strings.TrimSpace(string(b)), "\n")
}

// ---------------------------------------------------------------- known findings

// Finding is one entry of known_findings.json.
type Finding struct {
	Status    string `json:"status"` // known | fixed
	Property  string `json:"property"`
	Signature string `json:"signature,omitempty"`
	Commit    string `json:"commit,omitempty"`
	What      string `json:"what"`
	Entry     string `json:"entry"`
}

// LoadFindings reads the committed known-findings file (never written at run time).
func LoadFindings() []Finding {
	b, err := os.ReadFile(filepath.Join(VerifDir, "known_findings.json"))
	if err != nil {
		return nil
	}
	var f struct {
		Findings []Finding `json:"findings"`
	}
	if json.Unmarshal(b, &f) != nil {
		return nil
	}
	return f.Findings
}

// KnownSignatures lists signatures with status "known" for a property (generators may
// steer away from them).
func KnownSignatures(prop string) []string {
	var out []string
	for _, f := range LoadFindings() {
		if f.Status == "known" && f.Property == prop {
			out = append(out, f.Signature)
		}
	}
	return out
}

func matchKnown(fs []Finding, prop, sig string) *Finding {
	for i, f := range fs {
		if f.Status != "known" || f.Property != prop || f.Signature == "" {
			continue
		}
		if sig == f.Signature || strings.HasPrefix(sig, f.Signature) {
			return &fs[i]
		}
	}
	return nil
}

// ---------------------------------------------------------------- evidence / verdict

func finish(a *Agg, start time.Time, partial bool) int {
	p := a.Prop
	fs := LoadFindings()
	os.MkdirAll(filepath.Join(OutDir, "replays"), 0o755)
	os.MkdirAll(filepath.Join(OutDir, "evidence"), 0o755)
	sort.Slice(a.Violations, func(i, j int) bool { return a.Violations[i].Case < a.Violations[j].Case })
	unknown := 0
	knownSeen := map[string]int{}
	printed := 0
	for _, v := range a.Violations {
		if k := matchKnown(fs, p.ID, v.Sig); k != nil {
			v.Known = k.What
			knownSeen[k.Signature+"\x00"+k.What]++
			continue
		}
		unknown++
		path := filepath.Join(OutDir, "replays", fmt.Sprintf("%s-s%d-c%d.json", p.ID, a.Seed, v.Case))
		if v.Case < 0 {
			path = filepath.Join(OutDir, "replays", fmt.Sprintf("%s-s%d-run-%s.json", p.ID, a.Seed, Hash(v.Sig)))
		}
		rep := map[string]interface{}{
			"property": p.ID, "tier": a.Tier, "seed": a.Seed, "case": v.Case,
			"signature": v.Sig, "message": v.Msg, "script": v.Script, "stderr_tail": v.Stderr,
		}
		b, _ := json.MarshalIndent(rep, "", " ")
		os.WriteFile(path, b, 0o644)
		v.Replay = path
		if printed < 10 {
			fmt.Printf("VIOLATION property=%s replay=%s\n", p.ID, path)
			fmt.Printf("  signature: %s\n  %s\n", v.Sig, clip(v.Msg, 1500))
			printed++
		}
	}
	if unknown > 0 {
		tally := map[string]int{}
		for _, v := range a.Violations {
			if v.Known == "" {
				tally[v.Sig]++
			}
		}
		var ks []string
		for k := range tally {
			ks = append(ks, k)
		}
		sort.Strings(ks)
		for _, k := range ks {
			fmt.Printf("  signature-tally: %4d x %s\n", tally[k], k)
		}
	}
	if unknown > printed {
		fmt.Printf("  (%d more violations not printed; replay files written)\n", unknown-printed)
	}
	var knownKeys []string
	for k := range knownSeen {
		knownKeys = append(knownKeys, k)
	}
	sort.Strings(knownKeys)
	for _, k := range knownKeys {
		parts := strings.SplitN(k, "\x00", 2)
		fmt.Printf("KNOWN-FINDING: property=%s %s (signature %q, seen %d times in this run)\n", p.ID, parts[1], parts[0], knownSeen[k])
	}
	for i, s := range a.Inconclusive {
		if i < 5 {
			fmt.Printf("INCONCLUSIVE property=%s %s\n", p.ID, clip(s, 400))
		}
	}
	distinct := len(a.FPs)
	floor := 2
	if p.Floor != nil {
		floor = p.Floor(a.Tier)
	}
	if partial {
		floor = 0
	}
	samples := a.Samples
	if len(samples) == 0 {
		samples = []interface{}{"no non-trivial sample recorded"}
	}
	if p.Trusted == nil {
		p.Trusted = []string{"harness log-order mini-server and monitors (/verif/harness)", "Go runtime"}
	}
	if p.Assumptions == nil {
		p.Assumptions = []string{}
	}
	if a.stopped == 1 {
		fmt.Printf("NOTE property=%s run cut short after %d violations (%d cases evaluated)\n", p.ID, len(a.Violations), a.Evaluations)
		floor = 0
	}
	cov := map[string]interface{}{
		"evaluations":         a.Evaluations,
		"distinct_nontrivial": distinct,
		"rule":                p.Rule,
		"samples":             samples,
		"observed":            a.Counters,
		"inconclusive_cases":  len(a.Inconclusive),
		"worker_crashes":      a.Crashes,
		"nontrivial_floor":    floor,
		"trusted_base":        p.Trusted,
	}
	if p.Exhaustive != nil && p.Exhaustive(a.Tier) && !partial {
		cov["exhaustive"] = true
	}
	for k, v := range a.Notes {
		cov[k] = v
	}
	if len(knownSeen) > 0 {
		var ks []string
		for _, k := range knownKeys {
			ks = append(ks, strings.SplitN(k, "\x00", 2)[1])
		}
		cov["known_findings_observed"] = ks
	}
	ev := map[string]interface{}{
		"property_id": p.ID,
		"tier":        a.Tier,
		"seed":        int64(a.Seed),
		"level":       p.Level,
		"coverage":    cov,
		"assumptions": p.Assumptions,
		"wall_s":      time.Since(start).Seconds(),
		"violations":  unknown,
	}
	if !partial {
		b, _ := json.MarshalIndent(ev, "", " ")
		os.WriteFile(filepath.Join(OutDir, "evidence", p.ID+".json"), b, 0o644)
	}
	fmt.Printf("%s tier=%s seed=%d: evaluations=%d distinct_nontrivial=%d violations=%d known=%d inconclusive=%d wall=%.1fs\n",
		p.ID, a.Tier, a.Seed, a.Evaluations, distinct, unknown, len(a.Violations)-unknown, len(a.Inconclusive), time.Since(start).Seconds())
	if len(a.Counters) > 0 {
		var ks []string
		for k := range a.Counters {
			ks = append(ks, k)
		}
		sort.Strings(ks)
		var sb []string
		for _, k := range ks {
			sb = append(sb, fmt.Sprintf("%s=%d", k, a.Counters[k]))
		}
		fmt.Printf("  observed: %s\n", strings.Join(sb, " "))
	}
	if n := a.Counters["harness_internal_errors"]; n > 0 {
		fmt.Printf("BROKEN-CHECK property=%s %d internal errors of the harness' own stand-ins during this run: verdict withheld\n", p.ID, n)
		return 2
	}
	if unknown > 0 {
		return 1
	}
	if a.hung {
		fmt.Printf("BROKEN-CHECK property=%s %d cases did not finish within the per-case watchdog: the run was cut short, verdict withheld\n", p.ID, a.watchdogs)
		return 2
	}
	if distinct < floor {
		fmt.Printf("BROKEN-CHECK property=%s only %d distinct non-trivial cases (floor %d): verdict withheld\n", p.ID, distinct, floor)
		return 2
	}
	return 0
}

func clip(s string, n int) string {
	if len(s) > n {
		return s[:n] + "…"
	}
	return s
}

// ---------------------------------------------------------------- race reports

// RaceReport is one deduplicated race-detector report.
type RaceReport struct {
	Key    string
	Orda   bool // at least one access frame inside github.com/orda-io/orda
	Count  int
	Sample string
}

func collectRaceReports(dir string, a *Agg, advisory bool) {
	files, _ := filepath.Glob(filepath.Join(dir, "*"))
	reports := map[string]*RaceReport{}
	total := 0
	for _, f := range files {
		b, err := os.ReadFile(f)
		if err != nil {
			continue
		}
		for _, blk := range strings.Split(string(b), "==================") {
			if !strings.Contains(blk, "WARNING: DATA RACE") {
				continue
			}
			total++
			key, ordaAttr := raceKey(blk)
			r := reports[key]
			if r == nil {
				r = &RaceReport{Key: key, Orda: ordaAttr, Sample: clip(blk, 5000)}
				reports[key] = r
			}
			r.Count++
		}
	}
	a.Counters["race_reports_total"] = int64(total)
	a.Counters["race_reports_distinct"] = int64(len(reports))
	var keys []string
	for k := range reports {
		keys = append(keys, k)
	}
	sort.Strings(keys)
	for _, k := range keys {
		r := reports[k]
		if r.Orda {
			a.Counters["race_reports_orda_distinct"]++
			if advisory {
				continue
			}
			a.AddViolation(&Violation{Case: -1, Sig: "race:" + r.Key, Msg: fmt.Sprintf("data race reported %d times; first report:\n%s", r.Count, r.Sample)})
		} else {
			a.Counters["race_reports_harness_distinct"]++
			a.AddViolation(&Violation{Case: -1, Sig: "harness-race:" + r.Key, Msg: "race attributed to harness code (broken check):\n" + r.Sample})
		}
	}
}

// RaceLockMarkers: function-name fragments that show that an access was made while holding
// the lock that is supposed to protect it. When one access of a report is a READ made
// outside that lock and the other access is made inside it, the report is classified as
// "read-outside-lock:<outermost function of the code under test on the reading stack>"
// instead of by the function pair, so that the whole family shares one stable signature.
var RaceLockMarkers []string

type raceAccess struct {
	write    bool
	frames   []string
	site     string // first frame (from innermost) in the code under test or in the harness
	harness  bool
	underTst bool
	outer    string // outermost frame in the code under test
	locked   bool
}

// raceKey: each access is attributed to the first frame, walking outward from the
// innermost one, that belongs to orda or to the harness; the key is the unordered pair of
// those functions (no line numbers). A report is orda-attributed iff every attributed
// access is orda code.
func raceKey(blk string) (string, bool) {
	lines := strings.Split(blk, "\n")
	var accs []*raceAccess
	for i := 0; i < len(lines); i++ {
		l := lines[i]
		isRead := strings.HasPrefix(l, "Read at ") || strings.HasPrefix(l, "Previous read at ")
		isWrite := strings.HasPrefix(l, "Write at ") || strings.HasPrefix(l, "Previous write at ")
		isAtomic := strings.HasPrefix(l, "Atomic") || strings.HasPrefix(l, "Previous atomic")
		if !isRead && !isWrite && !isAtomic {
			continue
		}
		a := &raceAccess{write: isWrite || isAtomic}
		inner := ""
		for j := i + 1; j < len(lines) && strings.TrimSpace(lines[j]) != ""; j += 2 {
			fn := strings.TrimSpace(lines[j])
			if k := strings.LastIndex(fn, "("); k > 0 {
				fn = fn[:k]
			}
			if inner == "" {
				inner = fn
			}
			a.frames = append(a.frames, fn)
			isOrda := strings.HasPrefix(fn, "github.com/orda-io/orda/")
			isHarness := strings.HasPrefix(fn, "vh/") || strings.HasPrefix(fn, "main.")
			if a.site == "" && (isOrda || isHarness) {
				a.site, a.harness, a.underTst = fn, isHarness, isOrda
			}
			if isOrda {
				a.outer = fn
			}
			for _, m := range RaceLockMarkers {
				if strings.Contains(fn, m) {
					a.locked = true
				}
			}
		}
		if a.site == "" {
			a.site = "?" + inner
		}
		accs = append(accs, a)
	}
	nOrda, nHarness := 0, 0
	var tops []string
	for _, a := range accs {
		if a.underTst {
			nOrda++
		}
		if a.harness {
			nHarness++
		}
		tops = append(tops, a.site)
	}
	orda := nOrda > 0 && nHarness == 0
	if orda && len(accs) == 2 && len(RaceLockMarkers) > 0 {
		for k, a := range accs {
			o := accs[1-k]
			if !a.write && !a.locked && o.locked {
				short := a.outer
				if i := strings.LastIndex(short, "/"); i >= 0 {
					short = short[i+1:]
				}
				return "read-outside-lock:" + short, true
			}
		}
	}
	sort.Strings(tops)
	return strings.Join(tops, " <-> "), orda
}

// Discard is an io.Writer used to silence logs.
var Discard = io.Discard
