package fakemongo

// Semantics of the stand-in that the checks rely on, written from the MongoDB manual and
// exercised through the real mongo-go-driver (the same way the orda server talks to it).

import (
	"context"
	"testing"
	"time"

	"go.mongodb.org/mongo-driver/bson"
	"go.mongodb.org/mongo-driver/mongo"
	"go.mongodb.org/mongo-driver/mongo/options"
)

func connect(t *testing.T, s *Server) *mongo.Database {
	t.Helper()
	uri := "mongodb://u:p@" + s.Addr() + "/?authMechanism=PLAIN&authSource=$external&serverSelectionTimeoutMS=2000&connectTimeoutMS=2000"
	ctx, cancel := context.WithTimeout(context.Background(), 5*time.Second)
	defer cancel()
	cl, err := mongo.Connect(ctx, options.Client().ApplyURI(uri))
	if err != nil {
		t.Fatal(err)
	}
	t.Cleanup(func() { cl.Disconnect(context.Background()) })
	return cl.Database("db")
}

func TestStandInSemantics(t *testing.T) {
	s := New()
	defer s.Close()
	db := connect(t, s)
	ctx := context.Background()
	c := db.Collection("c")
	// ordered insert stops at the first duplicate key
	_, err := c.InsertMany(ctx, []interface{}{bson.D{{"_id", "a"}, {"n", 1}}, bson.D{{"_id", "a"}, {"n", 2}}, bson.D{{"_id", "b"}, {"n", 3}}})
	if err == nil {
		t.Fatal("duplicate key accepted")
	}
	if n, _ := c.CountDocuments(ctx, bson.D{}); n != 1 {
		t.Fatalf("ordered insert: %d documents, want 1", n)
	}
	// unordered continues
	c.InsertMany(ctx, []interface{}{bson.D{{"_id", "a"}}, bson.D{{"_id", "b"}, {"n", 3}}, bson.D{{"_id", "c"}, {"n", 5}, {"sub", bson.D{{"x", 7}}}}}, options.InsertMany().SetOrdered(false))
	if n, _ := c.CountDocuments(ctx, bson.D{}); n != 3 {
		t.Fatalf("unordered insert: %d documents, want 3", n)
	}
	if n, _ := c.EstimatedDocumentCount(ctx); n != 3 {
		t.Fatalf("estimated count %d", n)
	}
	// operators, dotted paths, sort, skip, limit, projection
	cur, err := c.Find(ctx, bson.D{{"n", bson.D{{"$in", bson.A{1, 5}}}}}, options.Find().SetSort(bson.D{{"n", -1}}).SetProjection(bson.D{{"n", 1}, {"_id", 0}}))
	if err != nil {
		t.Fatal(err)
	}
	var got []bson.M
	cur.All(ctx, &got)
	if len(got) != 2 || got[0]["n"] != int32(5) || got[1]["n"] != int32(1) || len(got[0]) != 1 {
		t.Fatalf("$in / sort / projection: %v", got)
	}
	if n, _ := c.CountDocuments(ctx, bson.D{{"sub.x", bson.D{{"$gt", 6}}}}); n != 1 {
		t.Fatalf("dotted path $gt: %d", n)
	}
	if n, _ := c.CountDocuments(ctx, bson.D{{"$or", bson.A{bson.D{{"_id", "a"}}, bson.D{{"n", bson.D{{"$ne", 3}}}}}}}); n != 2 {
		t.Fatalf("$or/$ne: %d", n)
	}
	cur, _ = c.Find(ctx, bson.D{}, options.Find().SetSort(bson.D{{"n", 1}}).SetSkip(1).SetLimit(1))
	got = nil
	cur.All(ctx, &got)
	if len(got) != 1 || got[0]["_id"] != "b" {
		t.Fatalf("skip/limit: %v", got)
	}
	// nModified is 0 when the update leaves the document identical
	r, _ := c.UpdateOne(ctx, bson.D{{"_id", "a"}}, bson.D{{"$set", bson.D{{"n", 1}}}})
	if r.MatchedCount != 1 || r.ModifiedCount != 0 {
		t.Fatalf("identical update: matched %d modified %d", r.MatchedCount, r.ModifiedCount)
	}
	r, _ = c.UpdateOne(ctx, bson.D{{"_id", "a"}}, bson.D{{"$inc", bson.D{{"n", 2}}}, {"$unset", bson.D{{"gone", ""}}}, {"$set", bson.D{{"sub.y", "z"}}}})
	if r.ModifiedCount != 1 {
		t.Fatalf("$inc: %+v", r)
	}
	var doc bson.M
	c.FindOne(ctx, bson.D{{"_id", "a"}}).Decode(&doc)
	if doc["n"] != int32(3) || doc["sub"].(bson.M)["y"] != "z" {
		t.Fatalf("after $inc/$set dotted: %v", doc)
	}
	// findAndModify with upsert, new:false: null on the inserting call, the pre-image afterwards
	g := db.Collection("gen")
	var pre bson.M
	err = g.FindOneAndUpdate(ctx, bson.D{{"_id", "num"}}, bson.D{{"$inc", bson.D{{"v", 1}}}}, options.FindOneAndUpdate().SetUpsert(true)).Decode(&pre)
	if err != mongo.ErrNoDocuments {
		t.Fatalf("first findAndModify(upsert): %v %v", pre, err)
	}
	g.FindOneAndUpdate(ctx, bson.D{{"_id", "num"}}, bson.D{{"$inc", bson.D{{"v", 1}}}}, options.FindOneAndUpdate().SetUpsert(true)).Decode(&pre)
	if pre["v"] != int32(1) {
		t.Fatalf("pre-image: %v", pre)
	}
	g.FindOneAndUpdate(ctx, bson.D{{"_id", "num"}}, bson.D{{"$inc", bson.D{{"v", 1}}}}, options.FindOneAndUpdate().SetUpsert(true).SetReturnDocument(options.After)).Decode(&pre)
	if pre["v"] != int32(3) {
		t.Fatalf("post-image: %v", pre)
	}
	// replacement with upsert keeps the _id of the filter
	c.ReplaceOne(ctx, bson.D{{"_id", "z"}}, bson.D{{"k", "v"}}, options.Replace().SetUpsert(true))
	doc = nil
	c.FindOne(ctx, bson.D{{"_id", "z"}}).Decode(&doc)
	if doc["k"] != "v" || len(doc) != 2 {
		t.Fatalf("replace upsert: %v", doc)
	}
	// delete, distinct, findOneAndDelete
	vals, _ := c.Distinct(ctx, "n", bson.D{})
	if len(vals) != 2 {
		t.Fatalf("distinct: %v", vals)
	}
	c.FindOneAndDelete(ctx, bson.D{{"_id", "z"}}).Decode(&doc)
	dr, _ := c.DeleteMany(ctx, bson.D{{"n", bson.D{{"$gte", 3}}}})
	if dr.DeletedCount != 3 {
		t.Fatalf("deleteMany: %d", dr.DeletedCount)
	}
	if n, _ := c.CountDocuments(ctx, bson.D{}); n != 0 {
		t.Fatalf("left: %d", n)
	}
	// an unknown command is an error for the caller and is counted as a stand-in limitation
	before := s.StandInPanics()
	if err := db.RunCommand(ctx, bson.D{{"collStats", "c"}}).Err(); err == nil {
		t.Fatal("unknown command answered ok")
	}
	if s.StandInPanics() != before+1 {
		t.Fatal("unsupported request not counted")
	}
	// an injected failure is seen by the caller (not retried away by the driver)
	s.SetPlan(func(cmd *Cmd) Action {
		if cmd.Name == "find" {
			return Action{Fail: true}
		}
		return Action{}
	})
	if err := c.FindOne(ctx, bson.D{{"_id", "a"}}).Err(); err == nil || err == mongo.ErrNoDocuments {
		t.Fatalf("failed find not reported: %v", err)
	}
	nfind := 0
	for _, l := range s.LogFrom(0) {
		if l.Name == "find" && l.Failed {
			nfind++
		}
	}
	if nfind != 1 {
		t.Fatalf("the failed find was sent %d times (retried by the driver?)", nfind)
	}
}
