// Package fm: throw-away prototype of an in-memory MongoDB wire-protocol server.
package fakemongo

import (
	"encoding/binary"
	"fmt"
	"io"
	"net"
	"sort"
	"sync"
	"time"

	"go.mongodb.org/mongo-driver/bson"
	"go.mongodb.org/mongo-driver/bson/primitive"
)

type Cmd struct {
	Seq  int
	Conn int
	Name string
	Coll string
	DB   string
	Doc  bson.D
	Seqs map[string][]bson.D
}

type Server struct {
	mu    sync.Mutex
	l     net.Listener
	colls map[string][]bson.D // "db.coll" -> docs
	Log   []Cmd
	nconn int
	Hook  func(c *Cmd) (fail bool) // called under lock before executing
}

func New() *Server {
	l, err := net.Listen("tcp", "127.0.0.1:0")
	if err != nil {
		panic(err)
	}
	s := &Server{l: l, colls: map[string][]bson.D{}}
	go s.accept()
	return s
}

func (s *Server) Addr() string { return s.l.Addr().String() }

func (s *Server) accept() {
	for {
		c, err := s.l.Accept()
		if err != nil {
			return
		}
		s.mu.Lock()
		s.nconn++
		id := s.nconn
		s.mu.Unlock()
		go s.serve(c, id)
	}
}

func get(d bson.D, k string) (interface{}, bool) {
	for _, e := range d {
		if e.Key == k {
			return e.Value, true
		}
	}
	return nil, false
}

func set(d bson.D, k string, v interface{}) bson.D {
	for i, e := range d {
		if e.Key == k {
			d[i].Value = v
			return d
		}
	}
	return append(d, bson.E{Key: k, Value: v})
}

func num(v interface{}) (float64, bool) {
	switch x := v.(type) {
	case int32:
		return float64(x), true
	case int64:
		return float64(x), true
	case float64:
		return x, true
	case int:
		return float64(x), true
	}
	return 0, false
}

func cmp(a, b interface{}) int {
	if fa, ok := num(a); ok {
		if fb, ok := num(b); ok {
			switch {
			case fa < fb:
				return -1
			case fa > fb:
				return 1
			}
			return 0
		}
	}
	sa, oka := a.(string)
	sb, okb := b.(string)
	if oka && okb {
		switch {
		case sa < sb:
			return -1
		case sa > sb:
			return 1
		}
		return 0
	}
	ba, _ := bson.Marshal(bson.D{{"v", a}})
	bb, _ := bson.Marshal(bson.D{{"v", b}})
	if string(ba) == string(bb) {
		return 0
	}
	if string(ba) < string(bb) {
		return -1
	}
	return 1
}

func match(doc, filter bson.D) bool {
	for _, f := range filter {
		v, present := get(doc, f.Key)
		if ops, ok := f.Value.(bson.D); ok && len(ops) > 0 && len(ops[0].Key) > 0 && ops[0].Key[0] == '$' {
			for _, o := range ops {
				switch o.Key {
				case "$gte":
					if !present || cmp(v, o.Value) < 0 {
						return false
					}
				case "$lte":
					if !present || cmp(v, o.Value) > 0 {
						return false
					}
				case "$exists":
					if present != o.Value.(bool) {
						return false
					}
				default:
					panic("unsupported filter op " + o.Key)
				}
			}
			continue
		}
		if !present || cmp(v, f.Value) != 0 {
			return false
		}
	}
	return true
}

func clone(d bson.D) bson.D {
	b, _ := bson.Marshal(d)
	var o bson.D
	bson.Unmarshal(b, &o)
	return o
}

func same(a, b bson.D) bool {
	ba, _ := bson.Marshal(a)
	bb, _ := bson.Marshal(b)
	return string(ba) == string(bb)
}

func applyUpdate(doc bson.D, u bson.D, isInsert bool) bson.D {
	if len(u) > 0 && u[0].Key[0] == '$' {
		for _, op := range u {
			fields, _ := op.Value.(bson.D)
			switch op.Key {
			case "$set":
				for _, f := range fields {
					doc = set(doc, f.Key, f.Value)
				}
			case "$inc":
				for _, f := range fields {
					cur, ok := get(doc, f.Key)
					if !ok {
						doc = set(doc, f.Key, f.Value)
						continue
					}
					a, _ := num(cur)
					b, _ := num(f.Value)
					switch cur.(type) {
					case int32:
						doc = set(doc, f.Key, int32(a+b))
					case int64:
						doc = set(doc, f.Key, int64(a+b))
					default:
						doc = set(doc, f.Key, a+b)
					}
				}
			case "$currentDate":
				for _, f := range fields {
					doc = set(doc, f.Key, primitive.NewDateTimeFromTime(time.Now()))
				}
			default:
				panic("unsupported update op " + op.Key)
			}
		}
		return doc
	}
	// replacement
	id, _ := get(doc, "_id")
	nd := bson.D{{"_id", id}}
	for _, e := range u {
		if e.Key != "_id" {
			nd = append(nd, e)
		}
	}
	return nd
}

func (s *Server) exec(c *Cmd) bson.D {
	ns := c.DB + "." + c.Coll
	switch c.Name {
	case "isMaster", "ismaster", "hello":
		return bson.D{{"ismaster", true}, {"isWritablePrimary", true}, {"maxBsonObjectSize", 16777216}, {"maxMessageSizeBytes", 48000000}, {"maxWriteBatchSize", 100000}, {"localTime", time.Now()}, {"logicalSessionTimeoutMinutes", 30}, {"minWireVersion", 0}, {"maxWireVersion", 13}, {"readOnly", false}, {"ok", 1.0}}
	case "saslStart":
		return bson.D{{"conversationId", 1}, {"done", true}, {"payload", []byte{}}, {"ok", 1.0}}
	case "ping", "endSessions", "createIndexes", "commitTransaction", "abortTransaction":
		return bson.D{{"ok", 1.0}}
	case "listCollections":
		var names []string
		filter, _ := get(c.Doc, "filter")
		fd, _ := filter.(bson.D)
		for k := range s.colls {
			if len(k) > len(c.DB)+1 && k[:len(c.DB)+1] == c.DB+"." {
				n := k[len(c.DB)+1:]
				if match(bson.D{{"name", n}}, fd) {
					names = append(names, n)
				}
			}
		}
		sort.Strings(names)
		batch := bson.A{}
		for _, n := range names {
			batch = append(batch, bson.D{{"name", n}, {"type", "collection"}})
		}
		return bson.D{{"cursor", bson.D{{"id", int64(0)}, {"ns", c.DB + ".$cmd.listCollections"}, {"firstBatch", batch}}}, {"ok", 1.0}}
	case "insert":
		n := 0
		var werrs bson.A
		for i, d := range c.Seqs["documents"] {
			id, ok := get(d, "_id")
			if !ok {
				id = primitive.NewObjectID()
				d = append(bson.D{{"_id", id}}, d...)
			}
			dup := false
			for _, e := range s.colls[ns] {
				eid, _ := get(e, "_id")
				if cmp(eid, id) == 0 {
					dup = true
					break
				}
			}
			if dup {
				werrs = append(werrs, bson.D{{"index", int32(i)}, {"code", int32(11000)}, {"errmsg", fmt.Sprintf("E11000 duplicate key error collection: %s dup key: { _id: %v }", ns, id)}})
				break
			}
			s.colls[ns] = append(s.colls[ns], clone(d))
			n++
		}
		if _, ok := s.colls[ns]; !ok {
			s.colls[ns] = nil
		}
		r := bson.D{{"n", int32(n)}, {"ok", 1.0}}
		if werrs != nil {
			r = append(r, bson.E{"writeErrors", werrs})
		}
		return r
	case "delete":
		n := 0
		for _, d := range c.Seqs["deletes"] {
			q, _ := get(d, "q")
			lim, _ := get(d, "limit")
			l, _ := num(lim)
			var keep []bson.D
			del := 0
			for _, e := range s.colls[ns] {
				if (l == 0 || del < int(l)) && match(e, q.(bson.D)) {
					del++
					continue
				}
				keep = append(keep, e)
			}
			s.colls[ns] = keep
			n += del
		}
		return bson.D{{"n", int32(n)}, {"ok", 1.0}}
	case "find":
		filter, _ := get(c.Doc, "filter")
		fd, _ := filter.(bson.D)
		var res []bson.D
		for _, e := range s.colls[ns] {
			if match(e, fd) {
				res = append(res, e)
			}
		}
		if so, ok := get(c.Doc, "sort"); ok {
			sd := so.(bson.D)
			if len(sd) > 0 {
				k := sd[0].Key
				dir, _ := num(sd[0].Value)
				sort.SliceStable(res, func(i, j int) bool {
					a, _ := get(res[i], k)
					b, _ := get(res[j], k)
					if dir < 0 {
						return cmp(a, b) > 0
					}
					return cmp(a, b) < 0
				})
			}
		}
		if lim, ok := get(c.Doc, "limit"); ok {
			l, _ := num(lim)
			if l > 0 && len(res) > int(l) {
				res = res[:int(l)]
			}
		}
		batch := bson.A{}
		for _, r := range res {
			batch = append(batch, clone(r))
		}
		return bson.D{{"cursor", bson.D{{"id", int64(0)}, {"ns", ns}, {"firstBatch", batch}}}, {"ok", 1.0}}
	case "update":
		n, nMod := 0, 0
		var upserted bson.A
		for i, d := range c.Seqs["updates"] {
			q, _ := get(d, "q")
			u, _ := get(d, "u")
			up, _ := get(d, "upsert")
			multi, _ := get(d, "multi")
			found := false
			for j, e := range s.colls[ns] {
				if match(e, q.(bson.D)) {
					found = true
					n++
					nd := applyUpdate(clone(e), u.(bson.D), false)
					if !same(nd, e) {
						nMod++
						s.colls[ns][j] = nd
					}
					if m, _ := multi.(bool); !m {
						break
					}
				}
			}
			if !found {
				if b, _ := up.(bool); b {
					nd := bson.D{}
					for _, f := range q.(bson.D) {
						if _, isOp := f.Value.(bson.D); !isOp {
							nd = append(nd, f)
						}
					}
					if _, ok := get(nd, "_id"); !ok {
						if uid, ok := get(u.(bson.D), "_id"); ok {
							nd = append(bson.D{{"_id", uid}}, nd...)
						} else {
							nd = append(bson.D{{"_id", primitive.NewObjectID()}}, nd...)
						}
					}
					nd = applyUpdate(nd, u.(bson.D), true)
					s.colls[ns] = append(s.colls[ns], nd)
					id, _ := get(nd, "_id")
					upserted = append(upserted, bson.D{{"index", int32(i)}, {"_id", id}})
					n++
				}
			}
		}
		r := bson.D{{"n", int32(n)}, {"nModified", int32(nMod)}, {"ok", 1.0}}
		if upserted != nil {
			r = append(r, bson.E{"upserted", upserted})
		}
		return r
	case "findAndModify":
		q, _ := get(c.Doc, "query")
		u, _ := get(c.Doc, "update")
		up, _ := get(c.Doc, "upsert")
		nw, _ := get(c.Doc, "new")
		for j, e := range s.colls[ns] {
			if match(e, q.(bson.D)) {
				pre := clone(e)
				nd := applyUpdate(clone(e), u.(bson.D), false)
				s.colls[ns][j] = nd
				var val interface{} = pre
				if b, _ := nw.(bool); b {
					val = clone(nd)
				}
				return bson.D{{"lastErrorObject", bson.D{{"n", int32(1)}, {"updatedExisting", true}}}, {"value", val}, {"ok", 1.0}}
			}
		}
		if b, _ := up.(bool); b {
			nd := bson.D{}
			for _, f := range q.(bson.D) {
				nd = append(nd, f)
			}
			nd = applyUpdate(nd, u.(bson.D), true)
			s.colls[ns] = append(s.colls[ns], nd)
			id, _ := get(nd, "_id")
			var val interface{}
			if b, _ := nw.(bool); b {
				val = clone(nd)
			}
			return bson.D{{"lastErrorObject", bson.D{{"n", int32(1)}, {"updatedExisting", false}, {"upserted", id}}}, {"value", val}, {"ok", 1.0}}
		}
		return bson.D{{"lastErrorObject", bson.D{{"n", int32(0)}, {"updatedExisting", false}}}, {"value", nil}, {"ok", 1.0}}
	case "drop":
		if _, ok := s.colls[ns]; !ok {
			return bson.D{{"ok", 0.0}, {"errmsg", "ns not found"}, {"code", int32(26)}, {"codeName", "NamespaceNotFound"}}
		}
		delete(s.colls, ns)
		return bson.D{{"ok", 1.0}}
	}
	return bson.D{{"ok", 0.0}, {"errmsg", "no such command: " + c.Name}, {"code", int32(59)}, {"codeName", "CommandNotFound"}}
}

func (s *Server) Dump() map[string][]bson.D {
	s.mu.Lock()
	defer s.mu.Unlock()
	out := map[string][]bson.D{}
	for k, v := range s.colls {
		for _, d := range v {
			out[k] = append(out[k], clone(d))
		}
	}
	return out
}

func (s *Server) serve(c net.Conn, id int) {
	defer c.Close()
	for {
		hdr := make([]byte, 16)
		if _, err := io.ReadFull(c, hdr); err != nil {
			return
		}
		ln := int(binary.LittleEndian.Uint32(hdr[0:]))
		reqID := binary.LittleEndian.Uint32(hdr[4:])
		op := binary.LittleEndian.Uint32(hdr[12:])
		body := make([]byte, ln-16)
		if _, err := io.ReadFull(c, body); err != nil {
			return
		}
		cmd := &Cmd{Conn: id, Seqs: map[string][]bson.D{}}
		if op == 2013 {
			p := body[4:]
			for len(p) > 0 {
				kind := p[0]
				p = p[1:]
				if kind == 0 {
					dl := int(binary.LittleEndian.Uint32(p))
					bson.Unmarshal(p[:dl], &cmd.Doc)
					p = p[dl:]
				} else {
					sl := int(binary.LittleEndian.Uint32(p))
					sec := p[4:sl]
					p = p[sl:]
					i := 0
					for sec[i] != 0 {
						i++
					}
					name := string(sec[:i])
					sec = sec[i+1:]
					for len(sec) > 0 {
						dl := int(binary.LittleEndian.Uint32(sec))
						var d bson.D
						bson.Unmarshal(sec[:dl], &d)
						cmd.Seqs[name] = append(cmd.Seqs[name], d)
						sec = sec[dl:]
					}
				}
			}
		} else if op == 2004 {
			p := body[4:]
			i := 0
			for p[i] != 0 {
				i++
			}
			p = p[i+1+8:]
			bson.Unmarshal(p, &cmd.Doc)
		}
		if len(cmd.Doc) > 0 {
			cmd.Name = cmd.Doc[0].Key
			if cs, ok := cmd.Doc[0].Value.(string); ok {
				cmd.Coll = cs
			}
		}
		if db, ok := get(cmd.Doc, "$db"); ok {
			cmd.DB = db.(string)
		}
		// array-style (non document-sequence) payloads
		for _, k := range []string{"documents", "updates", "deletes"} {
			if arr, ok := get(cmd.Doc, k); ok {
				for _, e := range arr.(bson.A) {
					cmd.Seqs[k] = append(cmd.Seqs[k], e.(bson.D))
				}
			}
		}
		s.mu.Lock()
		cmd.Seq = len(s.Log)
		s.Log = append(s.Log, *cmd)
		var reply bson.D
		if s.Hook != nil && s.Hook(cmd) {
			reply = bson.D{{"ok", 0.0}, {"errmsg", "injected failure"}, {"code", int32(11600)}, {"codeName", "InterruptedAtShutdown"}}
		} else {
			reply = s.exec(cmd)
		}
		s.mu.Unlock()
		rb, err := bson.Marshal(reply)
		if err != nil {
			panic(err)
		}
		var out []byte
		if op == 2013 {
			out = make([]byte, 16+4+1)
			binary.LittleEndian.PutUint32(out[12:], 2013)
		} else {
			out = make([]byte, 16+20)
			binary.LittleEndian.PutUint32(out[12:], 1)
			binary.LittleEndian.PutUint32(out[16:], 8)
			binary.LittleEndian.PutUint32(out[32:], 1)
		}
		binary.LittleEndian.PutUint32(out[0:], uint32(len(out)+len(rb)))
		binary.LittleEndian.PutUint32(out[4:], uint32(cmd.Seq+1))
		binary.LittleEndian.PutUint32(out[8:], reqID)
		out = append(out, rb...)
		if _, err := c.Write(out); err != nil {
			return
		}
	}
}
