// Package fakemongo: in-memory MongoDB wire-protocol server (OP_MSG / OP_QUERY subset that
// server/mongodb issues) with a command log, dump/diff and a fault plan. Part of the
// trusted base of every E-svc check (DESIGN.md §2.2).
package fakemongo

import (
	"encoding/binary"
	"fmt"
	"io"
	"net"
	"os"
	"sort"
	"strings"
	"sync"
	"time"

	"go.mongodb.org/mongo-driver/bson"
	"go.mongodb.org/mongo-driver/bson/primitive"
)

// Cmd is one command received by the server.
type Cmd struct {
	Seq    int
	Conn   int
	App    string // application name of the connection (= server incarnation)
	Window string // request window label current when the command arrived
	Name   string
	Coll   string
	DB     string
	Doc    bson.D
	Seqs   map[string][]bson.D
	Failed bool
	Fault  string
	// Post holds, for an executed write command (update, findAndModify, insert), the documents
	// it wrote as they are stored afterwards (one per matched, upserted or inserted document, in
	// statement order): what a reader of the collection sees, whatever form the write took
	// (replacement, $set / $unset, find-and-replace, delete + insert, ...).
	Post []bson.D
	// Exec is the position of the command in the order of EXECUTION (1, 2, ...; 0 = not
	// executed). Seq is the order of arrival: a command that is delayed or gated by a plan
	// executes after commands that arrived later.
	Exec int
}

// Key is "name coll".
func (c *Cmd) Key() string { return c.Name + " " + c.Coll }

// IsData reports commands that are part of orda's own data traffic (not handshake).
func (c *Cmd) IsData() bool {
	switch c.Name {
	case "isMaster", "ismaster", "hello", "saslStart", "saslContinue", "ping", "endSessions", "":
		return false
	}
	return true
}

// Action is what the fault plan decides for a command.
type Action struct {
	Fail       bool          // answer {ok:0} without executing
	Sever      bool          // close the connection before executing; the incarnation is dead from now on
	SeverAfter bool          // execute, then close without replying; the incarnation is dead from now on
	Delay      time.Duration // sleep before executing (outside the server lock)
	GateBefore chan struct{} // wait for this channel (closed by the harness) before executing
	GateAfter  chan struct{} // execute, then wait before replying
	OnReached  func()        // called (outside the lock) when the command reaches its gate / delay
}

// Server is the stand-in.
type Server struct {
	mu     sync.Mutex
	l      net.Listener
	colls  map[string][]bson.D // "db.coll" -> docs
	Log    []Cmd
	nconn  int
	plan   func(c *Cmd) Action // called under lock before executing a data command
	window string
	dead   map[string]bool // incarnations whose connections are refused
	conns  map[int]net.Conn
	open   int // data commands being executed / gated right now

	standInPanics int
	execs         int // commands executed so far (Cmd.Exec)
}

// New starts a server on a loopback port.
func New() *Server {
	var l net.Listener
	var err error
	for i := 0; i < 50; i++ {
		if l, err = net.Listen("tcp", "127.0.0.1:0"); err == nil {
			break
		}
		time.Sleep(100 * time.Millisecond)
	}
	if err != nil {
		panic(err)
	}
	s := &Server{l: l, colls: map[string][]bson.D{}, dead: map[string]bool{}, conns: map[int]net.Conn{}}
	go s.accept()
	return s
}

// Addr returns host:port.
func (s *Server) Addr() string { return s.l.Addr().String() }

// Close stops listening and closes all connections.
func (s *Server) Close() {
	s.l.Close()
	s.mu.Lock()
	for _, c := range s.conns {
		c.Close()
	}
	s.mu.Unlock()
}

// Reset wipes all documents (collections keep existing, as after the server's own
// initialisation), the command log, the plan and the window label.
func (s *Server) Reset() {
	s.mu.Lock()
	for k := range s.colls {
		if strings.Contains(k, ".-_-") {
			s.colls[k] = nil
		} else {
			delete(s.colls, k)
		}
	}
	s.Log = nil
	s.plan = nil
	s.window = ""
	s.mu.Unlock()
}

// SetPlan installs the fault plan (nil: none). The plan runs under the server lock.
func (s *Server) SetPlan(p func(c *Cmd) Action) {
	s.mu.Lock()
	s.plan = p
	s.mu.Unlock()
}

// SetWindow labels the commands that arrive from now on.
func (s *Server) SetWindow(w string) {
	s.mu.Lock()
	s.window = w
	s.mu.Unlock()
}

// LogLen returns the number of commands logged so far.
func (s *Server) LogLen() int {
	s.mu.Lock()
	defer s.mu.Unlock()
	return len(s.Log)
}

// LogFrom returns a copy of the log from index i.
func (s *Server) LogFrom(i int) []Cmd {
	s.mu.Lock()
	defer s.mu.Unlock()
	if i > len(s.Log) {
		i = len(s.Log)
	}
	return append([]Cmd{}, s.Log[i:]...)
}

// OpenCommands returns the number of data commands in progress (executing or gated).
// StandInPanics returns how often executing a command panicked inside the stand-in itself
// (a defect of the harness: checks that see a non-zero value must not report "held").
func (s *Server) StandInPanics() int {
	s.mu.Lock()
	defer s.mu.Unlock()
	return s.standInPanics
}

func (s *Server) OpenCommands() int {
	s.mu.Lock()
	defer s.mu.Unlock()
	return s.open
}

// KillIncarnation severs all connections of an incarnation and refuses its later traffic.
func (s *Server) KillIncarnation(app string) {
	s.mu.Lock()
	s.dead[app] = true
	s.mu.Unlock()
}

func (s *Server) accept() {
	for {
		c, err := s.l.Accept()
		if err != nil {
			return
		}
		s.mu.Lock()
		s.nconn++
		id := s.nconn
		s.conns[id] = c
		s.mu.Unlock()
		go s.serve(c, id)
	}
}

func get(d bson.D, k string) (interface{}, bool) {
	for _, e := range d {
		if e.Key == k {
			return e.Value, true
		}
	}
	return nil, false
}

func set(d bson.D, k string, v interface{}) bson.D {
	for i, e := range d {
		if e.Key == k {
			d[i].Value = v
			return d
		}
	}
	return append(d, bson.E{Key: k, Value: v})
}

func num(v interface{}) (float64, bool) {
	switch x := v.(type) {
	case int32:
		return float64(x), true
	case int64:
		return float64(x), true
	case float64:
		return x, true
	case int:
		return float64(x), true
	}
	return 0, false
}

func cmp(a, b interface{}) int {
	if fa, ok := num(a); ok {
		if fb, ok := num(b); ok {
			switch {
			case fa < fb:
				return -1
			case fa > fb:
				return 1
			}
			return 0
		}
	}
	sa, oka := a.(string)
	sb, okb := b.(string)
	if oka && okb {
		switch {
		case sa < sb:
			return -1
		case sa > sb:
			return 1
		}
		return 0
	}
	ba, _ := bson.Marshal(bson.D{{"v", a}})
	bb, _ := bson.Marshal(bson.D{{"v", b}})
	if string(ba) == string(bb) {
		return 0
	}
	if string(ba) < string(bb) {
		return -1
	}
	return 1
}

func match(doc, filter bson.D) bool { return matchFilter(doc, filter) }

func clone(d bson.D) bson.D {
	b, _ := bson.Marshal(d)
	var o bson.D
	bson.Unmarshal(b, &o)
	return o
}

func same(a, b bson.D) bool {
	ba, _ := bson.Marshal(a)
	bb, _ := bson.Marshal(b)
	return string(ba) == string(bb)
}

func applyUpdate(doc bson.D, u bson.D, isInsert bool) bson.D {
	if len(u) > 0 && len(u[0].Key) > 0 && u[0].Key[0] == '$' {
		return applyOps(doc, u, isInsert)
	}
	// replacement
	id, _ := get(doc, "_id")
	nd := bson.D{{"_id", id}}
	for _, e := range u {
		if e.Key != "_id" {
			nd = append(nd, e)
		}
	}
	return nd
}

func (s *Server) exec(c *Cmd) bson.D {
	ns := c.DB + "." + c.Coll
	switch c.Name {
	case "isMaster", "ismaster", "hello":
		return bson.D{{"ismaster", true}, {"isWritablePrimary", true}, {"maxBsonObjectSize", 16777216}, {"maxMessageSizeBytes", 48000000}, {"maxWriteBatchSize", 100000}, {"localTime", time.Now()}, {"logicalSessionTimeoutMinutes", 30}, {"minWireVersion", 0}, {"maxWireVersion", 13}, {"readOnly", false}, {"ok", 1.0}}
	case "saslStart":
		return bson.D{{"conversationId", 1}, {"done", true}, {"payload", []byte{}}, {"ok", 1.0}}
	case "ping", "endSessions", "createIndexes", "commitTransaction", "abortTransaction":
		return bson.D{{"ok", 1.0}}
	case "listCollections":
		var names []string
		filter, _ := get(c.Doc, "filter")
		fd, _ := filter.(bson.D)
		for k := range s.colls {
			if len(k) > len(c.DB)+1 && k[:len(c.DB)+1] == c.DB+"." {
				n := k[len(c.DB)+1:]
				if match(bson.D{{"name", n}}, fd) {
					names = append(names, n)
				}
			}
		}
		sort.Strings(names)
		batch := bson.A{}
		for _, n := range names {
			batch = append(batch, bson.D{{"name", n}, {"type", "collection"}})
		}
		return bson.D{{"cursor", bson.D{{"id", int64(0)}, {"ns", c.DB + ".$cmd.listCollections"}, {"firstBatch", batch}}}, {"ok", 1.0}}
	case "insert":
		n := 0
		var werrs bson.A
		for i, d := range c.Seqs["documents"] {
			id, ok := get(d, "_id")
			if !ok {
				id = primitive.NewObjectID()
				d = append(bson.D{{"_id", id}}, d...)
			}
			dup := false
			for _, e := range s.colls[ns] {
				eid, _ := get(e, "_id")
				if cmp(eid, id) == 0 {
					dup = true
					break
				}
			}
			if dup {
				werrs = append(werrs, bson.D{{"index", int32(i)}, {"code", int32(11000)}, {"errmsg", fmt.Sprintf("E11000 duplicate key error collection: %s dup key: { _id: %v }", ns, id)}})
				if ord, given := get(c.Doc, "ordered"); given && ord == false {
					continue
				}
				break
			}
			s.colls[ns] = append(s.colls[ns], clone(d))
			c.Post = append(c.Post, clone(d))
			n++
		}
		if _, ok := s.colls[ns]; !ok {
			s.colls[ns] = nil
		}
		r := bson.D{{"n", int32(n)}, {"ok", 1.0}}
		if werrs != nil {
			r = append(r, bson.E{"writeErrors", werrs})
		}
		return r
	case "delete":
		n := 0
		for _, d := range c.Seqs["deletes"] {
			q, _ := get(d, "q")
			lim, _ := get(d, "limit")
			l, _ := num(lim)
			var keep []bson.D
			del := 0
			for _, e := range s.colls[ns] {
				if (l == 0 || del < int(l)) && match(e, q.(bson.D)) {
					del++
					continue
				}
				keep = append(keep, e)
			}
			s.colls[ns] = keep
			n += del
		}
		return bson.D{{"n", int32(n)}, {"ok", 1.0}}
	case "find":
		res := s.query(ns, subDoc(c.Doc, "filter"), subDoc(c.Doc, "sort"), intOpt(c.Doc, "skip"), intOpt(c.Doc, "limit"))
		if pr := subDoc(c.Doc, "projection"); len(pr) > 0 {
			var out []bson.D
			for _, d := range res {
				out = append(out, project(d, pr))
			}
			res = out
		}
		return cursorReply(ns, res)
	case "count":
		res := s.query(ns, subDoc(c.Doc, "query"), nil, intOpt(c.Doc, "skip"), intOpt(c.Doc, "limit"))
		return bson.D{{"n", int32(len(res))}, {"ok", 1.0}}
	case "aggregate":
		return s.aggregate(ns, c)
	case "distinct":
		key, _ := get(c.Doc, "key")
		ks, _ := key.(string)
		vals := bson.A{}
		for _, d := range s.query(ns, subDoc(c.Doc, "query"), nil, 0, 0) {
			if v, ok := getPath(d, ks); ok {
				dup := false
				for _, e := range vals {
					if cmp(e, v) == 0 {
						dup = true
					}
				}
				if !dup {
					vals = append(vals, v)
				}
			}
		}
		return bson.D{{"values", vals}, {"ok", 1.0}}
	case "getMore":
		return bson.D{{"cursor", bson.D{{"id", int64(0)}, {"ns", ns}, {"nextBatch", bson.A{}}}}, {"ok", 1.0}}
	case "killCursors":
		return bson.D{{"cursorsKilled", bson.A{}}, {"cursorsNotFound", bson.A{}}, {"cursorsAlive", bson.A{}}, {"cursorsUnknown", bson.A{}}, {"ok", 1.0}}
	case "create":
		if _, ok := s.colls[ns]; !ok {
			s.colls[ns] = nil
		}
		return bson.D{{"ok", 1.0}}
	case "listIndexes":
		return cursorReply(ns, []bson.D{{{"v", int32(2)}, {"key", bson.D{{"_id", int32(1)}}}, {"name", "_id_"}}})
	case "dropIndexes":
		return bson.D{{"nIndexesWas", int32(1)}, {"ok", 1.0}}
	case "dropDatabase":
		for k := range s.colls {
			if strings.HasPrefix(k, c.DB+".") {
				delete(s.colls, k)
			}
		}
		return bson.D{{"ok", 1.0}}
	case "buildInfo", "buildinfo":
		return bson.D{{"version", "5.0.0"}, {"versionArray", bson.A{int32(5), int32(0), int32(0), int32(0)}}, {"ok", 1.0}}
	case "update":
		n, nMod := 0, 0
		var upserted bson.A
		for i, d := range c.Seqs["updates"] {
			q, _ := get(d, "q")
			u, _ := get(d, "u")
			if _, isPipeline := toArray(u); isPipeline {
				panic(unsupported("update with a pipeline"))
			}
			up, _ := get(d, "upsert")
			multi, _ := get(d, "multi")
			found := false
			for j, e := range s.colls[ns] {
				if match(e, q.(bson.D)) {
					found = true
					n++
					nd := applyUpdate(clone(e), u.(bson.D), false)
					if !same(nd, e) {
						nMod++
						s.colls[ns][j] = nd
					}
					c.Post = append(c.Post, clone(nd))
					if m, _ := multi.(bool); !m {
						break
					}
				}
			}
			if !found {
				if b, _ := up.(bool); b {
					nd := bson.D{}
					for _, f := range q.(bson.D) {
						if _, isOp := isOpDoc(f.Value); !isOp && !strings.HasPrefix(f.Key, "$") {
							nd = append(nd, f)
						}
					}
					if _, ok := get(nd, "_id"); !ok {
						if uid, ok := get(u.(bson.D), "_id"); ok {
							nd = append(bson.D{{"_id", uid}}, nd...)
						} else {
							nd = append(bson.D{{"_id", primitive.NewObjectID()}}, nd...)
						}
					}
					nd = applyUpdate(nd, u.(bson.D), true)
					s.colls[ns] = append(s.colls[ns], nd)
					c.Post = append(c.Post, clone(nd))
					id, _ := get(nd, "_id")
					upserted = append(upserted, bson.D{{"index", int32(i)}, {"_id", id}})
					n++
				}
			}
		}
		r := bson.D{{"n", int32(n)}, {"nModified", int32(nMod)}, {"ok", 1.0}}
		if upserted != nil {
			r = append(r, bson.E{"upserted", upserted})
		}
		return r
	case "findAndModify":
		q, _ := get(c.Doc, "query")
		if q == nil {
			q = bson.D{}
		}
		u, _ := get(c.Doc, "update")
		up, _ := get(c.Doc, "upsert")
		nw, _ := get(c.Doc, "new")
		if rm, _ := get(c.Doc, "remove"); rm == true {
			hits := s.query(ns, q.(bson.D), subDoc(c.Doc, "sort"), 0, 1)
			if len(hits) == 0 {
				return bson.D{{"lastErrorObject", bson.D{{"n", int32(0)}}}, {"value", nil}, {"ok", 1.0}}
			}
			id, _ := get(hits[0], "_id")
			var keep []bson.D
			for _, e := range s.colls[ns] {
				if eid, _ := get(e, "_id"); cmp(eid, id) != 0 {
					keep = append(keep, e)
				}
			}
			s.colls[ns] = keep
			return bson.D{{"lastErrorObject", bson.D{{"n", int32(1)}}}, {"value", clone(hits[0])}, {"ok", 1.0}}
		}
		if _, isPipeline := toArray(u); isPipeline {
			panic(unsupported("findAndModify with an update pipeline"))
		}
		if sp := subDoc(c.Doc, "sort"); len(sp) > 0 {
			// with a sort the first match in sort order is modified
			if hits := s.query(ns, q.(bson.D), sp, 0, 1); len(hits) == 1 {
				id, _ := get(hits[0], "_id")
				q = bson.D{{"_id", id}}
			}
		}
		for j, e := range s.colls[ns] {
			if match(e, q.(bson.D)) {
				pre := clone(e)
				nd := applyUpdate(clone(e), u.(bson.D), false)
				s.colls[ns][j] = nd
				c.Post = append(c.Post, clone(nd))
				var val interface{} = pre
				if b, _ := nw.(bool); b {
					val = clone(nd)
				}
				return bson.D{{"lastErrorObject", bson.D{{"n", int32(1)}, {"updatedExisting", true}}}, {"value", val}, {"ok", 1.0}}
			}
		}
		if b, _ := up.(bool); b {
			nd := bson.D{}
			for _, f := range q.(bson.D) {
				nd = append(nd, f)
			}
			nd = applyUpdate(nd, u.(bson.D), true)
			s.colls[ns] = append(s.colls[ns], nd)
			c.Post = append(c.Post, clone(nd))
			id, _ := get(nd, "_id")
			var val interface{}
			if b, _ := nw.(bool); b {
				val = clone(nd)
			}
			return bson.D{{"lastErrorObject", bson.D{{"n", int32(1)}, {"updatedExisting", false}, {"upserted", id}}}, {"value", val}, {"ok", 1.0}}
		}
		return bson.D{{"lastErrorObject", bson.D{{"n", int32(0)}, {"updatedExisting", false}}}, {"value", nil}, {"ok", 1.0}}
	case "drop":
		if _, ok := s.colls[ns]; !ok {
			return bson.D{{"ok", 0.0}, {"errmsg", "ns not found"}, {"code", int32(26)}, {"codeName", "NamespaceNotFound"}}
		}
		delete(s.colls, ns)
		return bson.D{{"ok", 1.0}}
	}
	panic(unsupported("command " + c.Name))
}

func (s *Server) serve(c net.Conn, id int) {
	defer func() {
		c.Close()
		s.mu.Lock()
		delete(s.conns, id)
		s.mu.Unlock()
	}()
	app := ""
	for {
		hdr := make([]byte, 16)
		if _, err := io.ReadFull(c, hdr); err != nil {
			return
		}
		ln := int(binary.LittleEndian.Uint32(hdr[0:]))
		reqID := binary.LittleEndian.Uint32(hdr[4:])
		op := binary.LittleEndian.Uint32(hdr[12:])
		if ln < 16 || ln > 64<<20 {
			return
		}
		body := make([]byte, ln-16)
		if _, err := io.ReadFull(c, body); err != nil {
			return
		}
		cmd := &Cmd{Conn: id, Seqs: map[string][]bson.D{}}
		if op == 2013 {
			p := body[4:]
			for len(p) > 0 {
				kind := p[0]
				p = p[1:]
				if kind == 0 {
					dl := int(binary.LittleEndian.Uint32(p))
					bson.Unmarshal(p[:dl], &cmd.Doc)
					p = p[dl:]
				} else {
					sl := int(binary.LittleEndian.Uint32(p))
					sec := p[4:sl]
					p = p[sl:]
					i := 0
					for sec[i] != 0 {
						i++
					}
					name := string(sec[:i])
					sec = sec[i+1:]
					for len(sec) > 0 {
						dl := int(binary.LittleEndian.Uint32(sec))
						var d bson.D
						bson.Unmarshal(sec[:dl], &d)
						cmd.Seqs[name] = append(cmd.Seqs[name], d)
						sec = sec[dl:]
					}
				}
			}
		} else if op == 2004 {
			p := body[4:]
			i := 0
			for p[i] != 0 {
				i++
			}
			p = p[i+1+8:]
			bson.Unmarshal(p, &cmd.Doc)
		} else {
			return
		}
		if len(cmd.Doc) > 0 {
			cmd.Name = cmd.Doc[0].Key
			if cs, ok := cmd.Doc[0].Value.(string); ok {
				cmd.Coll = cs
			}
		}
		if db, ok := get(cmd.Doc, "$db"); ok {
			cmd.DB, _ = db.(string)
		}
		if cl, ok := get(cmd.Doc, "client"); ok { // handshake metadata: application name
			if cd, ok := cl.(bson.D); ok {
				if a, ok := get(cd, "application"); ok {
					if ad, ok := a.(bson.D); ok {
						if n, ok := get(ad, "name"); ok {
							app, _ = n.(string)
						}
					}
				}
			}
		}
		cmd.App = app
		// array-style (non document-sequence) payloads
		for _, k := range []string{"documents", "updates", "deletes"} {
			if arr, ok := get(cmd.Doc, k); ok {
				if a, ok := arr.(bson.A); ok {
					for _, e := range a {
						if d, ok := e.(bson.D); ok {
							cmd.Seqs[k] = append(cmd.Seqs[k], d)
						}
					}
				}
			}
		}
		s.mu.Lock()
		if s.dead[app] && app != "" {
			s.mu.Unlock()
			return
		}
		cmd.Seq = len(s.Log)
		cmd.Window = s.window
		var act Action
		if s.plan != nil && cmd.IsData() {
			act = s.plan(cmd)
		}
		switch {
		case act.Fail:
			cmd.Failed, cmd.Fault = true, "fail"
		case act.Sever:
			cmd.Failed, cmd.Fault = true, "sever"
		case act.SeverAfter:
			cmd.Fault = "sever-after"
		}
		s.Log = append(s.Log, *cmd)
		if act.Sever {
			s.dead[app] = true
			s.mu.Unlock()
			return
		}
		if cmd.IsData() {
			s.open++
		}
		if act.Delay > 0 || act.GateBefore != nil {
			s.mu.Unlock()
			if act.OnReached != nil {
				act.OnReached()
			}
			if act.Delay > 0 {
				time.Sleep(act.Delay)
			}
			if act.GateBefore != nil {
				<-act.GateBefore
			}
			s.mu.Lock()
		}
		var reply bson.D
		if act.Fail {
			reply = bson.D{{Key: "ok", Value: 0.0}, {Key: "errmsg", Value: "injected failure"}, {Key: "code", Value: int32(96)}, {Key: "codeName", Value: "OperationFailed"}}
		} else {
			// a defect of the stand-in must not look like a hang of the system under test: a
			// panic while executing a command is answered as a command failure and counted
			func() {
				defer func() {
					if p := recover(); p != nil {
						s.standInPanics++
						if u, ok := p.(unsupported); ok {
							fmt.Fprintf(os.NewFile(2, "/dev/stderr"), "HARNESS-INTERNAL-ERROR fakemongo was asked for something outside its subset (%s): %s\n", cmd.Key(), string(u))
							reply = unsupportedReply(string(u))
							return
						}
						fmt.Fprintf(os.NewFile(2, "/dev/stderr"), "HARNESS-INTERNAL-ERROR fakemongo panicked while executing %s: %v\n", cmd.Key(), p)
						reply = bson.D{{Key: "ok", Value: 0.0}, {Key: "errmsg", Value: fmt.Sprintf("fakemongo internal error: %v", p)}, {Key: "code", Value: int32(8)}, {Key: "codeName", Value: "UnknownError"}}
					}
				}()
				reply = s.exec(cmd)
				s.execs++
				if cmd.Seq < len(s.Log) {
					s.Log[cmd.Seq].Exec = s.execs
					if cmd.Post != nil {
						s.Log[cmd.Seq].Post = cmd.Post
					}
				}
			}()
		}
		if act.SeverAfter {
			s.dead[app] = true
			if cmd.IsData() {
				s.open--
			}
			s.mu.Unlock()
			return
		}
		s.mu.Unlock()
		if act.GateAfter != nil {
			if act.OnReached != nil {
				act.OnReached()
			}
			<-act.GateAfter
		}
		if cmd.IsData() {
			s.mu.Lock()
			s.open--
			s.mu.Unlock()
		}
		rb, err := bson.Marshal(reply)
		if err != nil {
			panic(err)
		}
		var out []byte
		if op == 2013 {
			out = make([]byte, 16+4+1)
			binary.LittleEndian.PutUint32(out[12:], 2013)
		} else {
			out = make([]byte, 16+20)
			binary.LittleEndian.PutUint32(out[12:], 1)
			binary.LittleEndian.PutUint32(out[16:], 8)
			binary.LittleEndian.PutUint32(out[32:], 1)
		}
		binary.LittleEndian.PutUint32(out[0:], uint32(len(out)+len(rb)))
		binary.LittleEndian.PutUint32(out[4:], uint32(cmd.Seq+1))
		binary.LittleEndian.PutUint32(out[8:], reqID)
		out = append(out, rb...)
		if _, err := c.Write(out); err != nil {
			return
		}
	}
}

// ------------------------------------------------------------------ dump / diff

// Dump returns a deep copy of all collections.
func (s *Server) Dump() map[string][]bson.D {
	s.mu.Lock()
	defer s.mu.Unlock()
	out := map[string][]bson.D{}
	for k, v := range s.colls {
		out[k] = []bson.D{}
		for _, d := range v {
			out[k] = append(out[k], clone(d))
		}
	}
	return out
}

// Coll returns a deep copy of one collection ("db.coll").
func (s *Server) Coll(ns string) []bson.D {
	s.mu.Lock()
	defer s.mu.Unlock()
	var out []bson.D
	for _, d := range s.colls[ns] {
		out = append(out, clone(d))
	}
	return out
}

// DeleteWhere removes documents of a collection for which pred holds (harness-side
// manipulation of the store, e.g. to move the latest snapshot back).
func (s *Server) DeleteWhere(ns string, pred func(d bson.D) bool) int {
	s.mu.Lock()
	defer s.mu.Unlock()
	var keep []bson.D
	n := 0
	for _, d := range s.colls[ns] {
		if pred(d) {
			n++
			continue
		}
		keep = append(keep, d)
	}
	s.colls[ns] = keep
	return n
}

// Flat returns the store as "ns/_id" -> canonical extended JSON of the document, with
// volatile timestamp fields removed when stripTimes is set.
func (s *Server) Flat(stripTimes bool) map[string]string {
	out := map[string]string{}
	for ns, docs := range s.Dump() {
		for _, d := range docs {
			id, _ := get(d, "_id")
			dd := d
			if stripTimes {
				dd = strip(d)
			}
			b, err := bson.MarshalExtJSON(dd, true, false)
			if err != nil {
				b = []byte(fmt.Sprint(dd))
			}
			out[fmt.Sprintf("%s/%v", ns, id)] = string(b)
		}
		if len(docs) == 0 {
			out[ns+"/"] = "(empty collection)"
		}
	}
	return out
}

var volatile = map[string]bool{"createdAt": true, "updatedAt": true, "at": true}

func strip(d bson.D) bson.D {
	var out bson.D
	for _, e := range d {
		if volatile[e.Key] {
			continue
		}
		if sub, ok := e.Value.(bson.D); ok {
			out = append(out, bson.E{Key: e.Key, Value: strip(sub)})
			continue
		}
		out = append(out, e)
	}
	return out
}

// Diff lists the keys of a Flat() map that were created, changed or deleted.
func Diff(before, after map[string]string) []string {
	var out []string
	for k, v := range after {
		if b, ok := before[k]; !ok {
			out = append(out, "created "+k)
		} else if b != v {
			out = append(out, "changed "+k)
		}
	}
	for k := range before {
		if _, ok := after[k]; !ok {
			out = append(out, "deleted "+k)
		}
	}
	sort.Strings(out)
	return out
}

// Get reads a top-level field of a document.
func Get(d bson.D, k string) (interface{}, bool) { return get(d, k) }

// GetPath reads a dotted path.
func GetPath(d bson.D, path string) (interface{}, bool) {
	var cur interface{} = d
	for _, p := range strings.Split(path, ".") {
		dd, ok := cur.(bson.D)
		if !ok {
			return nil, false
		}
		cur, ok = get(dd, p)
		if !ok {
			return nil, false
		}
	}
	return cur, true
}

// Num converts a BSON numeric to int64.
func Num(v interface{}) int64 {
	f, _ := num(v)
	return int64(f)
}
