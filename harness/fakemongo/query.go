package fakemongo

// Query / update language of the stand-in beyond the handful of forms the unchanged orda
// tree issues, so that an equivalent way of asking MongoDB for the same thing (another
// operator, a count instead of a find, a projection, a multi-key sort) is still answered the
// way MongoDB answers it. Anything outside this subset is answered with an error AND counted
// as an unsupported request of the stand-in: a check that saw one reports BROKEN-CHECK, never
// "held" or "violated".

import (
	"fmt"
	"sort"
	"strings"
	"sync/atomic"
	"time"

	"go.mongodb.org/mongo-driver/bson"
	"go.mongodb.org/mongo-driver/bson/primitive"
)

// unsupported is the panic value for requests outside the implemented subset.
type unsupported string

func getPath(d bson.D, path string) (interface{}, bool) {
	if v, ok := get(d, path); ok || !strings.Contains(path, ".") {
		return v, ok
	}
	i := strings.Index(path, ".")
	v, ok := get(d, path[:i])
	if !ok {
		return nil, false
	}
	switch sub := v.(type) {
	case bson.D:
		return getPath(sub, path[i+1:])
	case bson.M:
		var sd bson.D
		for k, x := range sub {
			sd = append(sd, bson.E{Key: k, Value: x})
		}
		return getPath(sd, path[i+1:])
	}
	return nil, false
}

func setPath(d bson.D, path string, val interface{}) bson.D {
	if !strings.Contains(path, ".") {
		return set(d, path, val)
	}
	if _, ok := get(d, path); ok { // a literal key containing a dot
		return set(d, path, val)
	}
	i := strings.Index(path, ".")
	head, rest := path[:i], path[i+1:]
	cur, _ := get(d, head)
	sub, _ := cur.(bson.D)
	return set(d, head, setPath(sub, rest, val))
}

func unsetPath(d bson.D, path string) bson.D {
	if i := strings.Index(path, "."); i > 0 {
		if _, ok := get(d, path); !ok {
			if cur, ok := get(d, path[:i]); ok {
				if sub, ok := cur.(bson.D); ok {
					return set(d, path[:i], unsetPath(sub, path[i+1:]))
				}
			}
			return d
		}
	}
	out := d[:0:0]
	for _, e := range d {
		if e.Key != path {
			out = append(out, e)
		}
	}
	return out
}

func toArray(v interface{}) (bson.A, bool) {
	switch a := v.(type) {
	case bson.A:
		return a, true
	case []interface{}:
		return bson.A(a), true
	}
	return nil, false
}

// valueMatches: equality in MongoDB's sense (an array field matches if it equals the value
// or contains it).
func valueMatches(v, want interface{}) bool {
	if cmp(v, want) == 0 {
		return true
	}
	if arr, ok := toArray(v); ok {
		for _, e := range arr {
			if cmp(e, want) == 0 {
				return true
			}
		}
	}
	return false
}

func matchOps(v interface{}, present bool, ops bson.D) bool {
	for _, o := range ops {
		switch o.Key {
		case "$eq":
			if !present || !valueMatches(v, o.Value) {
				return false
			}
		case "$ne":
			if present && valueMatches(v, o.Value) {
				return false
			}
		case "$gt":
			if !present || cmp(v, o.Value) <= 0 {
				return false
			}
		case "$gte":
			if !present || cmp(v, o.Value) < 0 {
				return false
			}
		case "$lt":
			if !present || cmp(v, o.Value) >= 0 {
				return false
			}
		case "$lte":
			if !present || cmp(v, o.Value) > 0 {
				return false
			}
		case "$in", "$nin":
			arr, ok := toArray(o.Value)
			if !ok {
				panic(unsupported(o.Key + " without an array"))
			}
			hit := false
			for _, w := range arr {
				if present && valueMatches(v, w) || !present && w == nil {
					hit = true
				}
			}
			if hit != (o.Key == "$in") {
				return false
			}
		case "$exists":
			want := true
			switch b := o.Value.(type) {
			case bool:
				want = b
			default:
				if f, ok := num(o.Value); ok {
					want = f != 0
				}
			}
			if present != want {
				return false
			}
		case "$not":
			sub, ok := o.Value.(bson.D)
			if !ok {
				panic(unsupported("$not with a non-document"))
			}
			if matchOps(v, present, sub) {
				return false
			}
		default:
			panic(unsupported("filter operator " + o.Key))
		}
	}
	return true
}

func isOpDoc(v interface{}) (bson.D, bool) {
	d, ok := v.(bson.D)
	if ok && len(d) > 0 && strings.HasPrefix(d[0].Key, "$") {
		return d, true
	}
	return nil, false
}

func matchFilter(doc, filter bson.D) bool {
	for _, f := range filter {
		switch f.Key {
		case "$and", "$or", "$nor":
			arr, ok := toArray(f.Value)
			if !ok {
				panic(unsupported(f.Key + " without an array"))
			}
			n := 0
			for _, sub := range arr {
				sd, ok := sub.(bson.D)
				if !ok {
					panic(unsupported(f.Key + " with a non-document clause"))
				}
				if matchFilter(doc, sd) {
					n++
				}
			}
			switch {
			case f.Key == "$and" && n != len(arr), f.Key == "$or" && n == 0, f.Key == "$nor" && n != 0:
				return false
			}
			continue
		case "$comment":
			continue
		}
		if strings.HasPrefix(f.Key, "$") {
			panic(unsupported("top-level filter operator " + f.Key))
		}
		v, present := getPath(doc, f.Key)
		if ops, ok := isOpDoc(f.Value); ok {
			if !matchOps(v, present, ops) {
				return false
			}
			continue
		}
		if f.Value == nil {
			if present && v != nil {
				return false
			}
			continue
		}
		if !present || !valueMatches(v, f.Value) {
			return false
		}
	}
	return true
}

func sortDocs(res []bson.D, spec bson.D) {
	if len(spec) == 0 {
		return
	}
	sort.SliceStable(res, func(i, j int) bool {
		for _, k := range spec {
			a, _ := getPath(res[i], k.Key)
			b, _ := getPath(res[j], k.Key)
			c := cmp(a, b)
			if c == 0 {
				continue
			}
			dir, _ := num(k.Value)
			if dir < 0 {
				return c > 0
			}
			return c < 0
		}
		return false
	})
}

func project(doc bson.D, spec bson.D) bson.D {
	if len(spec) == 0 {
		return doc
	}
	include := false
	idSpec, idGiven := 1.0, false
	for _, p := range spec {
		f, ok := num(p.Value)
		if b, isB := p.Value.(bool); isB {
			ok = true
			if b {
				f = 1
			} else {
				f = 0
			}
		}
		if !ok {
			panic(unsupported("projection expression on " + p.Key))
		}
		if p.Key == "_id" {
			idSpec, idGiven = f, true
			continue
		}
		if f != 0 {
			include = true
		}
	}
	var out bson.D
	if include {
		if idSpec != 0 {
			if id, ok := get(doc, "_id"); ok {
				out = append(out, bson.E{Key: "_id", Value: id})
			}
		}
		for _, p := range spec {
			if p.Key == "_id" {
				continue
			}
			if v, ok := getPath(doc, p.Key); ok {
				out = setPath(out, p.Key, v)
			}
		}
		return out
	}
	out = append(out, doc...)
	for _, p := range spec {
		if p.Key == "_id" {
			continue
		}
		out = unsetPath(out, p.Key)
	}
	if idGiven && idSpec == 0 {
		out = unsetPath(out, "_id")
	}
	return out
}

func intOpt(d bson.D, k string) int {
	v, ok := get(d, k)
	if !ok {
		return 0
	}
	f, _ := num(v)
	return int(f)
}

// query runs filter / sort / skip / limit over a collection (documents are not cloned).
func (s *Server) query(ns string, filter, sortSpec bson.D, skip, limit int) []bson.D {
	var res []bson.D
	for _, e := range s.colls[ns] {
		if matchFilter(e, filter) {
			res = append(res, e)
		}
	}
	sortDocs(res, sortSpec)
	if skip > 0 {
		if skip >= len(res) {
			res = nil
		} else {
			res = res[skip:]
		}
	}
	if limit < 0 {
		limit = -limit
	}
	if limit > 0 && len(res) > limit {
		res = res[:limit]
	}
	return res
}

func subDoc(d bson.D, k string) bson.D {
	v, _ := get(d, k)
	sd, _ := v.(bson.D)
	return sd
}

func cursorReply(ns string, docs []bson.D) bson.D {
	batch := bson.A{}
	for _, r := range docs {
		batch = append(batch, clone(r))
	}
	return bson.D{{Key: "cursor", Value: bson.D{{Key: "id", Value: int64(0)}, {Key: "ns", Value: ns}, {Key: "firstBatch", Value: batch}}}, {Key: "ok", Value: 1.0}}
}

// aggregate implements the stages a count / simple listing needs.
func (s *Server) aggregate(ns string, c *Cmd) bson.D {
	pv, _ := get(c.Doc, "pipeline")
	pipeline, ok := toArray(pv)
	if !ok {
		panic(unsupported("aggregate without a pipeline array"))
	}
	docs := append([]bson.D{}, s.colls[ns]...)
	for _, st := range pipeline {
		stage, ok := st.(bson.D)
		if !ok || len(stage) != 1 {
			panic(unsupported("aggregate stage shape"))
		}
		switch stage[0].Key {
		case "$match":
			f, _ := stage[0].Value.(bson.D)
			var keep []bson.D
			for _, d := range docs {
				if matchFilter(d, f) {
					keep = append(keep, d)
				}
			}
			docs = keep
		case "$sort":
			sp, _ := stage[0].Value.(bson.D)
			sortDocs(docs, sp)
		case "$skip":
			n, _ := num(stage[0].Value)
			if int(n) >= len(docs) {
				docs = nil
			} else {
				docs = docs[int(n):]
			}
		case "$limit":
			n, _ := num(stage[0].Value)
			if int(n) < len(docs) {
				docs = docs[:int(n)]
			}
		case "$project":
			sp, _ := stage[0].Value.(bson.D)
			var out []bson.D
			for _, d := range docs {
				out = append(out, project(d, sp))
			}
			docs = out
		case "$count":
			name, _ := stage[0].Value.(string)
			if len(docs) == 0 {
				docs = nil
			} else {
				docs = []bson.D{{{Key: name, Value: int32(len(docs))}}}
			}
		case "$group":
			g, _ := stage[0].Value.(bson.D)
			id, _ := get(g, "_id")
			if _, isStr := id.(string); isStr {
				panic(unsupported("$group by a field"))
			}
			if len(docs) == 0 {
				docs = nil
				break
			}
			out := bson.D{{Key: "_id", Value: id}}
			for _, acc := range g {
				if acc.Key == "_id" {
					continue
				}
				ad, _ := acc.Value.(bson.D)
				if len(ad) != 1 || ad[0].Key != "$sum" {
					panic(unsupported("$group accumulator on " + acc.Key))
				}
				one, isNum := num(ad[0].Value)
				if !isNum {
					panic(unsupported("$sum of an expression"))
				}
				out = append(out, bson.E{Key: acc.Key, Value: int32(one * float64(len(docs)))})
			}
			docs = []bson.D{out}
		default:
			panic(unsupported("aggregate stage " + stage[0].Key))
		}
	}
	return cursorReply(ns, docs)
}

// applyOps applies an operator update document.
func applyOps(doc bson.D, u bson.D, isInsert bool) bson.D {
	for _, op := range u {
		fields, _ := op.Value.(bson.D)
		switch op.Key {
		case "$set":
			for _, f := range fields {
				doc = setPath(doc, f.Key, f.Value)
			}
		case "$setOnInsert":
			if isInsert {
				for _, f := range fields {
					doc = setPath(doc, f.Key, f.Value)
				}
			}
		case "$unset":
			for _, f := range fields {
				doc = unsetPath(doc, f.Key)
			}
		case "$inc", "$mul":
			for _, f := range fields {
				cur, ok := getPath(doc, f.Key)
				if !ok {
					if op.Key == "$mul" {
						doc = setPath(doc, f.Key, zeroLike(f.Value))
					} else {
						doc = setPath(doc, f.Key, f.Value)
					}
					continue
				}
				a, _ := num(cur)
				b, _ := num(f.Value)
				r := a + b
				if op.Key == "$mul" {
					r = a * b
				}
				switch cur.(type) {
				case int32:
					if _, wide := f.Value.(int64); wide || r > 2147483647 || r < -2147483648 {
						doc = setPath(doc, f.Key, int64(r))
					} else {
						doc = setPath(doc, f.Key, int32(r))
					}
				case int64:
					doc = setPath(doc, f.Key, int64(r))
				default:
					doc = setPath(doc, f.Key, r)
				}
			}
		case "$min", "$max":
			for _, f := range fields {
				cur, ok := getPath(doc, f.Key)
				if !ok || op.Key == "$min" && cmp(f.Value, cur) < 0 || op.Key == "$max" && cmp(f.Value, cur) > 0 {
					doc = setPath(doc, f.Key, f.Value)
				}
			}
		case "$currentDate":
			for _, f := range fields {
				doc = setPath(doc, f.Key, primitive.DateTime(serverNowMillis()))
			}
		case "$rename":
			for _, f := range fields {
				if v, ok := getPath(doc, f.Key); ok {
					doc = unsetPath(doc, f.Key)
					to, _ := f.Value.(string)
					doc = setPath(doc, to, v)
				}
			}
		case "$push", "$addToSet":
			for _, f := range fields {
				cur, _ := getPath(doc, f.Key)
				arr, _ := toArray(cur)
				vals := bson.A{f.Value}
				if each, ok := f.Value.(bson.D); ok && len(each) > 0 && each[0].Key == "$each" {
					vals, _ = toArray(each[0].Value)
					if len(each) > 1 {
						panic(unsupported(op.Key + " modifiers"))
					}
				}
				for _, v := range vals {
					dup := false
					if op.Key == "$addToSet" {
						for _, e := range arr {
							if cmp(e, v) == 0 {
								dup = true
							}
						}
					}
					if !dup {
						arr = append(arr, v)
					}
				}
				doc = setPath(doc, f.Key, arr)
			}
		case "$pull":
			for _, f := range fields {
				cur, _ := getPath(doc, f.Key)
				arr, ok := toArray(cur)
				if !ok {
					continue
				}
				if _, isOp := isOpDoc(f.Value); isOp {
					panic(unsupported("$pull with a condition"))
				}
				keep := bson.A{}
				for _, e := range arr {
					if cmp(e, f.Value) != 0 {
						keep = append(keep, e)
					}
				}
				doc = setPath(doc, f.Key, keep)
			}
		default:
			panic(unsupported("update operator " + op.Key))
		}
	}
	return doc
}

func zeroLike(v interface{}) interface{} {
	switch v.(type) {
	case int32:
		return int32(0)
	case int64:
		return int64(0)
	}
	return 0.0
}

func unsupportedReply(what string) bson.D {
	return bson.D{{Key: "ok", Value: 0.0}, {Key: "errmsg", Value: "fakemongo: unsupported request: " + what}, {Key: "code", Value: int32(59)}, {Key: "codeName", Value: "CommandNotFound"}}
}

func describe(p interface{}) string { return fmt.Sprint(p) }

var lastServerMillis int64

// serverNowMillis is the stand-in's clock for $currentDate: wall time, but strictly increasing
// from call to call. Two updates of one document within the same millisecond - routine for an
// in-memory stand-in, practically impossible through a network - would otherwise leave the
// document unchanged (nModified 0) depending on wall-clock luck.
func serverNowMillis() int64 {
	for {
		last := atomic.LoadInt64(&lastServerMillis)
		now := time.Now().UnixMilli()
		if now <= last {
			now = last + 1
		}
		if atomic.CompareAndSwapInt64(&lastServerMillis, last, now) {
			return now
		}
	}
}
