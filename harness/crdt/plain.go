package crdt

import (
	"encoding/json"
	"reflect"
)

// IsNilValue reports nil and typed nil pointers / maps / slices ("null values").
func IsNilValue(v interface{}) bool {
	if v == nil {
		return true
	}
	rv := reflect.ValueOf(v)
	switch rv.Kind() {
	case reflect.Ptr, reflect.Map, reflect.Slice, reflect.Interface:
		return rv.IsNil()
	}
	return false
}

// Outcome classes of a call according to the plain-structure model.
const (
	OK      = iota // must succeed; return value as given
	MustErr        // invalid arguments: must return an error and change nothing
	MayErr         // not classified by the statement: error or silent no-op accepted, no other state change
)

// Expect is what the plain model says about a call before it is made.
type Expect struct {
	Class  int
	Ret    string // canonical JSON of the expected return value
	HasRet bool
	NOps   int // operations a successful call adds to the pending list
}

// Norm brings a Go value to plain JSON form (what a reader of the structure sees).
func Norm(v interface{}) interface{} {
	b, err := json.Marshal(v)
	if err != nil {
		return nil
	}
	var x interface{}
	if json.Unmarshal(b, &x) != nil {
		return nil
	}
	return x
}

func hasNull(v interface{}) bool {
	switch x := v.(type) {
	case nil:
		return true
	case map[string]interface{}:
		for _, c := range x {
			if hasNull(c) {
				return true
			}
		}
	case []interface{}:
		for _, c := range x {
			if hasNull(c) {
				return true
			}
		}
	}
	return false
}

// Plain is the obvious plain structure: an int32, a string-keyed map, a slice, a JSON tree.
type Plain struct {
	Typ string
	Cnt int32
	M   map[string]interface{}
	L   []interface{}
	D   map[string]interface{}
}

// NewPlain creates the empty plain structure for a datatype type.
func NewPlain(typ string) *Plain {
	return &Plain{Typ: typ, M: map[string]interface{}{}, L: []interface{}{}, D: map[string]interface{}{}}
}

// View is the canonical JSON view, shaped like the datatype's ToJSON().
func (p *Plain) View() string {
	switch p.Typ {
	case "counter":
		return Canon(p.Cnt)
	case "map":
		return Canon(p.M)
	case "list":
		return Canon(struct{ List []interface{} }{p.L})
	}
	return Canon(p.D)
}

// Size of the structure (-1 when the datatype has no Size()).
func (p *Plain) Size() int {
	switch p.Typ {
	case "map":
		return len(p.M)
	case "list":
		return len(p.L)
	}
	return -1
}

// Node navigates the JSON tree of a document model; ok=false if the path does not exist.
func (p *Plain) Node(path []interface{}) (interface{}, bool) {
	var cur interface{} = p.D
	for _, s := range path {
		switch k := s.(type) {
		case string:
			m, ok := cur.(map[string]interface{})
			if !ok {
				return nil, false
			}
			cur, ok = m[k]
			if !ok {
				return nil, false
			}
		case int:
			a, ok := cur.([]interface{})
			if !ok || k < 0 || k >= len(a) {
				return nil, false
			}
			cur = a[k]
		default:
			return nil, false
		}
	}
	return cur, true
}

// setNode replaces the node at path (path non-empty) with v.
func (p *Plain) setNode(path []interface{}, v interface{}) {
	parent, _ := p.Node(path[:len(path)-1])
	switch k := path[len(path)-1].(type) {
	case string:
		parent.(map[string]interface{})[k] = v
	case int:
		parent.([]interface{})[k] = v
	}
}

func anyNil(vs []interface{}) bool {
	for _, v := range vs {
		if IsNilValue(v) {
			return true
		}
	}
	return false
}

func anyNull(vs []interface{}) bool {
	for _, v := range vs {
		if hasNull(Norm(v)) {
			return true
		}
	}
	return false
}

func seqExpect(n int, o Op, isDoc bool) Expect {
	switch o.Kind {
	case "ins":
		if o.Pos < 0 || o.Pos > n {
			return Expect{Class: MustErr}
		}
		if anyNil(o.Vals) || (isDoc && anyNull(o.Vals)) {
			return Expect{Class: MustErr}
		}
		if len(o.Vals) == 0 {
			return Expect{Class: MayErr, NOps: 1}
		}
		return Expect{Class: OK, NOps: 1}
	case "del", "del1":
		cnt := o.N
		if o.Kind == "del1" {
			cnt = 1
		}
		if o.Pos < 0 || cnt < 1 || o.Pos >= n || o.Pos+cnt > n {
			return Expect{Class: MustErr}
		}
		return Expect{Class: OK, NOps: 1}
	case "upd":
		if o.Pos < 0 || len(o.Vals) < 1 || o.Pos >= n || o.Pos+len(o.Vals) > n {
			return Expect{Class: MustErr}
		}
		if anyNil(o.Vals) || (isDoc && anyNull(o.Vals)) {
			return Expect{Class: MustErr}
		}
		return Expect{Class: OK, NOps: 1}
	}
	return Expect{Class: MustErr}
}

// Classify says what the plain structure expects from a call (without changing the model).
func (p *Plain) Classify(o Op) Expect {
	switch p.Typ {
	case "counter":
		return Expect{Class: OK, Ret: Canon(p.Cnt + int32(o.N)), HasRet: true, NOps: 1}
	case "map":
		switch o.Kind {
		case "put":
			if o.Key == "" || IsNilValue(o.Val) {
				return Expect{Class: MustErr}
			}
			return Expect{Class: OK, Ret: Canon(p.M[o.Key]), HasRet: true, NOps: 1}
		case "rm":
			if o.Key == "" {
				return Expect{Class: MustErr}
			}
			if _, ok := p.M[o.Key]; !ok {
				return Expect{Class: MayErr, NOps: 1}
			}
			return Expect{Class: OK, Ret: Canon(p.M[o.Key]), HasRet: true, NOps: 1}
		}
	case "list":
		e := seqExpect(len(p.L), o, false)
		if e.Class == OK {
			switch o.Kind {
			case "del":
				e.Ret, e.HasRet = Canon(p.L[o.Pos:o.Pos+o.N]), true
			case "del1":
				e.Ret, e.HasRet = Canon(p.L[o.Pos]), true
			case "upd":
				e.Ret, e.HasRet = Canon(p.L[o.Pos:o.Pos+len(o.Vals)]), true
			}
		}
		return e
	case "doc":
		node, ok := p.Node(o.Path)
		if !ok {
			return Expect{Class: MustErr}
		}
		switch o.Kind {
		case "put", "rm":
			m, isObj := node.(map[string]interface{})
			if !isObj {
				return Expect{Class: MustErr} // wrong container kind
			}
			if o.Kind == "put" {
				if o.Val == nil || hasNull(Norm(o.Val)) {
					return Expect{Class: MustErr}
				}
				if o.Key == "" {
					return Expect{Class: MayErr, NOps: 1}
				}
				// the previous value of the key; when there is none the implementation may hand back
				// the handle of a value removed earlier (a tombstone) - not judged
				if prev, ok := m[o.Key]; ok {
					return Expect{Class: OK, NOps: 1, Ret: Canon(prev), HasRet: true}
				}
				return Expect{Class: OK, NOps: 1}
			}
			if _, ok := m[o.Key]; !ok {
				return Expect{Class: MayErr, NOps: 1}
			}
			return Expect{Class: OK, NOps: 1, Ret: Canon(m[o.Key]), HasRet: true}
		case "ins", "del", "del1", "upd":
			a, isArr := node.([]interface{})
			if !isArr {
				return Expect{Class: MustErr}
			}
			e := seqExpect(len(a), o, true)
			if e.Class == OK {
				// the values the call removed / replaced
				switch o.Kind {
				case "del":
					e.Ret, e.HasRet = Canon(a[o.Pos:o.Pos+o.N]), true
				case "del1":
					e.Ret, e.HasRet = Canon(a[o.Pos]), true
				case "upd":
					e.Ret, e.HasRet = Canon(a[o.Pos:o.Pos+len(o.Vals)]), true
				}
			}
			return e
		}
	}
	return Expect{Class: MustErr}
}

func normAll(vs []interface{}) []interface{} {
	out := make([]interface{}, 0, len(vs))
	for _, v := range vs {
		out = append(out, Norm(v))
	}
	return out
}

func seqCommit(a []interface{}, o Op) []interface{} {
	switch o.Kind {
	case "ins":
		out := append([]interface{}{}, a[:o.Pos]...)
		out = append(out, normAll(o.Vals)...)
		return append(out, a[o.Pos:]...)
	case "del", "del1":
		cnt := o.N
		if o.Kind == "del1" {
			cnt = 1
		}
		out := append([]interface{}{}, a[:o.Pos]...)
		return append(out, a[o.Pos+cnt:]...)
	case "upd":
		out := append([]interface{}{}, a...)
		for i, v := range o.Vals {
			out[o.Pos+i] = Norm(v)
		}
		return out
	}
	return a
}

// Commit applies a call that succeeded on the real datatype to the model. For MayErr calls
// that succeeded only the no-op / natural effect is applied.
func (p *Plain) Commit(o Op, e Expect) {
	switch p.Typ {
	case "counter":
		p.Cnt += int32(o.N)
	case "map":
		switch o.Kind {
		case "put":
			p.M[o.Key] = Norm(o.Val)
		case "rm":
			delete(p.M, o.Key)
		}
	case "list":
		if e.Class == MayErr {
			return
		}
		p.L = seqCommit(p.L, o)
	case "doc":
		node, _ := p.Node(o.Path)
		switch o.Kind {
		case "put":
			node.(map[string]interface{})[o.Key] = Norm(o.Val)
		case "rm":
			delete(node.(map[string]interface{}), o.Key)
		default:
			if e.Class == MayErr {
				return
			}
			na := seqCommit(node.([]interface{}), o)
			if len(o.Path) == 0 {
				return // root is always an object
			}
			p.setNode(o.Path, na)
		}
	}
}

// Clone deep-copies the model (used around transactions).
func (p *Plain) Clone() *Plain {
	q := &Plain{Typ: p.Typ, Cnt: p.Cnt}
	q.M, _ = Norm(p.M).(map[string]interface{})
	if q.M == nil {
		q.M = map[string]interface{}{}
	}
	q.L, _ = Norm(p.L).([]interface{})
	if q.L == nil {
		q.L = []interface{}{}
	}
	q.D, _ = Norm(p.D).(map[string]interface{})
	if q.D == nil {
		q.D = map[string]interface{}{}
	}
	return q
}
