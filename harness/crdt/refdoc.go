package crdt

import (
	"errors"

	"github.com/orda-io/orda/client/pkg/model"
)

// ErrUnresolvable: the reference met a live container whose identity it cannot derive
// without re-implementing orda's traversal (a container nested inside an object value).
var ErrUnresolvable = errors.New("reference: container identity not derivable")

// RefDoc computes the JSON view of a document from its operations only. Container
// identities used: the root (oldest timestamp); the top node of a put value
// (operation timestamp, delimiter 0); elements of array values and of insert / update
// batches (delimiter = running count of nodes before them). Containers nested inside an
// object value have identities that depend on orda's traversal order and are reported as
// ErrUnresolvable when an operation could address them (the generator of C02 avoids them).
func RefDoc(ops []DOp) (map[string]interface{}, error) {
	root := TS{C: NilCUID}
	addressed := map[TS]bool{}
	for _, o := range ops {
		if o.P != nil {
			addressed[*o.P] = true
		}
	}
	d := &docRef{ops: ops, addressed: addressed}
	return d.object(root, nil, TS{})
}

type docRef struct {
	ops       []DOp
	addressed map[TS]bool
}

func (d *docRef) object(id TS, initial map[string]interface{}, initTs TS) (map[string]interface{}, error) {
	cells := refMapCells(d.ops, model.TypeOfOperation_DOC_OBJ_PUT, model.TypeOfOperation_DOC_OBJ_RMV, &id)
	out := map[string]interface{}{}
	for k, v := range initial {
		if c, ok := cells[k]; ok && initTs.Less(c.t) {
			continue
		}
		// initial child: identity unknown unless primitive
		switch v.(type) {
		case map[string]interface{}, []interface{}:
			if len(d.addressed) > 0 && d.hasUnknownAddressed(id, initTs) {
				return nil, ErrUnresolvable
			}
		}
		out[k] = v
		delete(cells, k)
	}
	for k, c := range cells {
		if _, done := out[k]; done {
			continue
		}
		if c.rm {
			continue
		}
		v, err := d.value(c.val, TS{c.t.E, c.t.L, c.t.C, 0}, c.t)
		if err != nil {
			return nil, err
		}
		out[k] = v
	}
	return out, nil
}

// hasUnknownAddressed: some operation addresses a node of the same operation as this
// container with a delimiter > 0, i.e. possibly one of its nested containers.
func (d *docRef) hasUnknownAddressed(id, opTs TS) bool {
	for p := range d.addressed {
		if p.SameOp(opTs) && p.D > 0 {
			return true
		}
	}
	return false
}

// value renders a JSON value whose top node has identity id and was created by opTs.
func (d *docRef) value(v interface{}, id TS, opTs TS) (interface{}, error) {
	switch x := v.(type) {
	case map[string]interface{}:
		return d.object(id, x, opTs)
	case []interface{}:
		var init []TS
		dd := id.D + 1
		for _, e := range x {
			init = append(init, TS{id.E, id.L, id.C, dd})
			dd += CountNodes(e)
		}
		vals, _, valIDs, err := RefSeqIDs(d.ops, model.TypeOfOperation_DOC_ARR_INS, model.TypeOfOperation_DOC_ARR_DEL, model.TypeOfOperation_DOC_ARR_UPD, &id, init, x, CountNodes)
		if err != nil {
			return nil, err
		}
		out := make([]interface{}, 0, len(vals))
		for i, e := range vals {
			r, err := d.value(e, valIDs[i], TS{valIDs[i].E, valIDs[i].L, valIDs[i].C, 0})
			if err != nil {
				return nil, err
			}
			out = append(out, r)
		}
		return out, nil
	}
	return v, nil
}
