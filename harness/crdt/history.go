package crdt

import (
	"fmt"
	"strings"

	"github.com/orda-io/orda/client/pkg/orda"
)

// Stepper receives the script steps (core.Case implements it).
type Stepper interface {
	Step(format string, a ...interface{})
	Count(name string, n int64)
}

// Hist is a multi-replica history over one datatype and the log mini-server.
type Hist struct {
	S    Stepper
	G    *Gen
	Typ  string
	Reps []*Rep
	Log  *Log
	// ConcurrentDeliveries counts deliveries that reached a replica which had issued
	// operations not ordered before the delivered entry (i.e. real concurrency).
	ConcurrentDeliveries int
	LocalOK, LocalErr    int
	// AfterStep monitors run after every step with the replica that was touched.
	AfterStep []func(h *Hist, r *Rep) (sig, msg string)
	// OnLocal is called for every successful local call.
	OnLocal []func(h *Hist, r *Rep, op Op, ret interface{})
}

// NewHist creates n replicas of typ.
func NewHist(s Stepper, g *Gen, typ string, n int) *Hist {
	h := &Hist{S: s, G: g, Typ: typ, Log: &Log{}}
	seen := map[string]bool{}
	for i := 0; i < n; i++ {
		cuid := SeededCUID(g.R)
		for seen[cuid] {
			cuid = SeededCUID(g.R)
		}
		seen[cuid] = true
		h.Reps = append(h.Reps, NewRepCUID(i, typ, cuid))
	}
	return h
}

func (h *Hist) after(r *Rep) (string, string) {
	for _, m := range h.AfterStep {
		if sig, msg := m(h, r); sig != "" {
			return sig, msg
		}
	}
	return "", ""
}

// After runs the per-step monitors for r (for checks that drive replicas themselves).
func (h *Hist) After(r *Rep) (string, string) { return h.after(r) }

// Local performs a local call on r.
func (h *Hist) Local(r *Rep, op Op) (interface{}, error, string, string) {
	h.S.Step("r%d %s", r.Idx, op)
	ret, err := Apply(r.DT, op)
	if err != nil {
		h.LocalErr++
	} else {
		h.LocalOK++
		for _, f := range h.OnLocal {
			f(h, r, op, ret)
		}
	}
	sig, msg := h.after(r)
	return ret, err, sig, msg
}

// Sync pushes r's pending operations and delivers the log to r up to `upto` entries
// (upto<0: everything).
func (h *Hist) Sync(r *Rep, upto int) (string, string) {
	pushed := h.Log.Push(r)
	if upto < 0 || upto > len(h.Log.Entries) {
		upto = len(h.Log.Entries)
	}
	if upto < r.Recvd {
		upto = r.Recvd
	}
	h.S.Step("r%d sync pushed=%d deliver=[%d,%d)", r.Idx, pushed, r.Recvd, upto)
	return h.deliver(r, upto)
}

// DeliverOnly delivers without pushing (the replica keeps its operations to itself).
func (h *Hist) DeliverOnly(r *Rep, upto int) (string, string) {
	if upto < 0 || upto > len(h.Log.Entries) {
		upto = len(h.Log.Entries)
	}
	if upto < r.Recvd {
		upto = r.Recvd
	}
	h.S.Step("r%d deliver=[%d,%d)", r.Idx, r.Recvd, upto)
	return h.deliver(r, upto)
}

func (h *Hist) deliver(r *Rep, upto int) (string, string) {
	// concurrency accounting: r holds unpushed operations, or pushed entries that are
	// ordered after a foreign entry it is about to receive
	for i := r.Recvd; i < upto; i++ {
		if h.Log.Entries[i].From == r.Idx {
			continue
		}
		conc := len(r.Pending()) > r.Sent
		if !conc {
			for j := i + 1; j < len(h.Log.Entries); j++ {
				if h.Log.Entries[j].From == r.Idx {
					conc = true
					break
				}
			}
		}
		// an own entry before i that the sender had not seen is concurrency as well, but
		// needs per-entry knowledge of the sender's view; the two cases above suffice as a
		// conservative count.
		if conc {
			h.ConcurrentDeliveries++
		}
	}
	n, err := h.Log.Deliver(r, upto)
	h.S.Count("remote_ops_applied", int64(n))
	if err != nil {
		return "remote-apply-error", fmt.Sprintf("replica r%d: ReceiveRemoteModelOperations returned an error: %v", r.Idx, err)
	}
	return h.after(r)
}

// Quiesce pushes everything and delivers everything to everyone.
func (h *Hist) Quiesce() (string, string) {
	h.S.Step("quiesce")
	for _, r := range h.Reps {
		h.Log.Push(r)
	}
	for _, r := range h.Reps {
		if sig, msg := h.deliver(r, len(h.Log.Entries)); sig != "" {
			return sig, msg
		}
	}
	return "", ""
}

// Reads performs a sweep of element reads on a replica and returns them in canonical form.
func Reads(r *Rep, keys int) string {
	var sb strings.Builder
	switch t := r.DT.(type) {
	case orda.Counter:
		fmt.Fprintf(&sb, "get=%d", t.Get())
	case orda.Map:
		fmt.Fprintf(&sb, "size=%d;", t.Size())
		for i := 0; i < keys; i++ {
			k := fmt.Sprintf("k%d", i)
			fmt.Fprintf(&sb, "%s=%s;", k, Canon(t.Get(k)))
		}
		fmt.Fprintf(&sb, "idle=%s;", Canon(t.Get("idle")))
	case orda.List:
		n := t.Size()
		fmt.Fprintf(&sb, "size=%d;", n)
		for i := 0; i < n; i++ {
			v, err := t.Get(i)
			fmt.Fprintf(&sb, "%d=%s/%v;", i, Canon(v), err != nil)
		}
		if n > 0 {
			vs, err := t.GetMany(0, n)
			fmt.Fprintf(&sb, "many=%s/%v;", Canon(vs), err != nil)
		}
		_, err := t.Get(n)
		fmt.Fprintf(&sb, "oob=%v", err != nil)
	case orda.Document:
		sweepDoc(&sb, t, 0)
	}
	return sb.String()
}

// pointerToken escapes an object key for a JSON-pointer path.
func pointerToken(k string) string {
	return strings.ReplaceAll(strings.ReplaceAll(k, "~", "~0"), "/", "~1")
}

func sweepDoc(sb *strings.Builder, d orda.Document, depth int) {
	fmt.Fprintf(sb, "{t=%d v=%s g=%v", d.GetTypeOfJSON(), Canon(d.GetValue()), d.IsGarbage())
	if root := d.GetRootDocument(); root != nil {
		fmt.Fprintf(sb, " root=%s", Canon(root.GetValue()))
	}
	if depth < 3 {
		switch vv := d.GetValue().(type) {
		case map[string]interface{}:
			for _, k := range SortedKeys(vv) {
				c, err := d.GetFromObject(k)
				fmt.Fprintf(sb, " %s:", k)
				if err != nil || c == nil {
					fmt.Fprintf(sb, "<nil/%v>", err != nil)
					continue
				}
				// the same child reached by path, and its way back up
				if k != "" && !strings.Contains(k, "~") && !strings.Contains(k, "/") {
					if bp, e := d.GetByPath("/" + k); e != nil || bp == nil {
						fmt.Fprintf(sb, "<bypath-err/%v>", e != nil)
					} else {
						fmt.Fprintf(sb, "<bypath=%v,%s>", bp.Equal(c), Canon(bp.GetValue()))
					}
				}
				if par := c.GetParentDocument(); par != nil {
					fmt.Fprintf(sb, "<parent=%v>", par.Equal(d))
				}
				sweepDoc(sb, c, depth+1)
			}
		case []interface{}:
			for i := range vv {
				c, err := d.GetFromArray(i)
				fmt.Fprintf(sb, " %d:", i)
				if err != nil || c == nil {
					fmt.Fprintf(sb, "<nil/%v>", err != nil)
					continue
				}
				sweepDoc(sb, c, depth+1)
			}
			if len(vv) > 0 {
				cs, err := d.GetManyFromArray(0, len(vv))
				fmt.Fprintf(sb, " many=%d/%v[", len(cs), err != nil)
				for _, cd := range cs {
					if cd == nil {
						sb.WriteString("<nil>,")
						continue
					}
					fmt.Fprintf(sb, "%s,", Canon(cd.GetValue()))
				}
				sb.WriteString("]")
				if len(vv) > 1 { // a proper sub-range
					cs, err := d.GetManyFromArray(1, len(vv)-1)
					fmt.Fprintf(sb, " tail=%d/%v[", len(cs), err != nil)
					for _, cd := range cs {
						if cd != nil {
							fmt.Fprintf(sb, "%s,", Canon(cd.GetValue()))
						}
					}
					sb.WriteString("]")
				}
			}
		}
	}
	sb.WriteString("}")
}

// CompareAll compares every replica with replica 0: JSON view, size, element reads.
func (h *Hist) CompareAll() (string, string) {
	base := h.Reps[0]
	bv, bs, br := base.View(), base.Size(), Reads(base, h.G.Keys)
	for _, r := range h.Reps[1:] {
		if v := r.View(); v != bv {
			return "diverge-view", fmt.Sprintf("replicas hold the same operations but differ in ToJSON(): r0=%s r%d=%s", clip(bv, 600), r.Idx, clip(v, 600))
		}
		if s := r.Size(); s != bs {
			return "diverge-size", fmt.Sprintf("replicas hold the same operations but differ in Size(): r0=%d r%d=%d (view %s)", bs, r.Idx, s, clip(bv, 300))
		}
		if rd := Reads(r, h.G.Keys); rd != br {
			return "diverge-reads", fmt.Sprintf("replicas hold the same operations but differ in element reads: r0=%s r%d=%s", clip(br, 600), r.Idx, clip(rd, 600))
		}
	}
	return "", ""
}

func clip(s string, n int) string {
	if len(s) > n {
		return s[:n] + "…"
	}
	return s
}
