package crdt

import (
	"errors"
	"fmt"
	"math/rand"
	"sort"
	"strconv"

	"github.com/orda-io/orda/client/pkg/orda"
)

// Op is one public API call as data, so that it can be logged, replayed and applied to
// several replicas identically.
type Op struct {
	Kind string        `json:"k"`              // inc | put | rm | ins | del | upd
	Path []interface{} `json:"path,omitempty"` // document only: string key or int index per level
	Key  string        `json:"key,omitempty"`
	Pos  int           `json:"pos,omitempty"`
	N    int           `json:"n,omitempty"`
	Vals []interface{} `json:"vals,omitempty"`
	Val  interface{}   `json:"val,omitempty"`
}

func (o Op) String() string { return JS(o) }

// ErrNav is returned when a document path cannot be navigated.
var ErrNav = errors.New("harness: cannot navigate path")

// Navigate follows a path of keys / indices from a document.
func Navigate(d orda.Document, path []interface{}) orda.Document {
	cur := d
	for _, p := range path {
		var nx orda.Document
		switch x := p.(type) {
		case string:
			if cur.GetTypeOfJSON() != orda.TypeJSONObject {
				return nil
			}
			nx, _ = cur.GetFromObject(x)
		case int:
			if cur.GetTypeOfJSON() != orda.TypeJSONArray {
				return nil
			}
			nx, _ = cur.GetFromArray(x)
		case float64:
			if cur.GetTypeOfJSON() != orda.TypeJSONArray {
				return nil
			}
			nx, _ = cur.GetFromArray(int(x))
		}
		if nx == nil {
			return nil
		}
		cur = nx
	}
	return cur
}

func docVal(d orda.Document) interface{} {
	if d == nil {
		return nil
	}
	return d.GetValue()
}

func docVals(ds []orda.Document) []interface{} {
	var out []interface{}
	for _, d := range ds {
		out = append(out, docVal(d))
	}
	return out
}

// Apply performs the call on a public datatype (or its in-transaction view) and returns
// the API's return value in plain form.
func Apply(dt interface{}, o Op) (ret interface{}, err error) {
	// Pointers to primitives are handed over as pointers to private copies which are
	// overwritten as soon as the call has returned: a datatype that keeps the caller's pointer
	// instead of the value it pointed to at the time of the call then reads, exports and
	// encodes something else than what it applied (o.Val / o.Vals stay as generated for the
	// oracles).
	var pokes []func()
	_, isDoc := dt.(orda.DocumentInTx)
	alias := func(v interface{}) interface{} {
		if isDoc {
			// a document takes containers by value too (it copies them when the call is made):
			// generic JSON containers are handed over as private deep copies that are scribbled
			// over once the call has returned
			switch v.(type) {
			case map[string]interface{}, []interface{}:
				cp := copyContainers(v)
				pokes = append(pokes, func() { scribble(cp) })
				return cp
			}
		}
		return aliasArg(v, &pokes)
	}
	o.Val = alias(o.Val)
	if len(o.Vals) > 0 {
		vs := make([]interface{}, len(o.Vals))
		for i, v := range o.Vals {
			vs[i] = alias(v)
		}
		o.Vals = vs
		// the slice itself is what a variadic call hands over (f(pos, vs...) passes vs, not a
		// copy): a caller may reuse it for its next call, so it is overwritten as well
		pokes = append(pokes, func() {
			for i := range vs {
				vs[i] = "scribbled-slot"
			}
		})
	}
	defer func() {
		for _, f := range pokes {
			f()
		}
	}()
	switch t := dt.(type) {
	case orda.CounterInTx:
		if o.Kind == "inc" && o.N == 1 {
			v, e := t.Increase() // the one-step form of the same call
			if e != nil {
				return nil, e
			}
			return v, nil
		}
		if o.Kind == "inc" {
			v, e := t.IncreaseBy(int32(o.N))
			if e != nil {
				return nil, e
			}
			return v, nil
		}
	case orda.MapInTx:
		switch o.Kind {
		case "put":
			v, e := t.Put(o.Key, o.Val)
			if e != nil {
				return nil, e
			}
			return v, nil
		case "rm":
			v, e := t.Remove(o.Key)
			if e != nil {
				return nil, e
			}
			return v, nil
		}
	case orda.ListInTx:
		switch o.Kind {
		case "ins":
			if len(o.Vals) == 1 {
				v, e := t.Insert(o.Pos, o.Vals[0]) // the single-value form of the same call
				if e != nil {
					return nil, e
				}
				return v, nil
			}
			v, e := t.InsertMany(o.Pos, o.Vals...)
			if e != nil {
				return nil, e
			}
			return v, nil
		case "del":
			if o.N == 1 {
				v, e := t.Delete(o.Pos) // the single-element form of the same call
				if e != nil {
					return nil, e
				}
				return []interface{}{v}, nil
			}
			v, e := t.DeleteMany(o.Pos, o.N)
			if e != nil {
				return nil, e
			}
			return v, nil
		case "del1":
			v, e := t.Delete(o.Pos)
			if e != nil {
				return nil, e
			}
			return v, nil
		case "upd":
			v, e := t.Update(o.Pos, o.Vals...)
			if e != nil {
				return nil, e
			}
			return v, nil
		}
	case orda.DocumentInTx:
		var c orda.DocumentInTx = t
		if len(o.Path) > 0 {
			root, ok := t.(orda.Document)
			if !ok {
				return nil, ErrNav
			}
			n := Navigate(root, o.Path)
			if n == nil {
				return nil, ErrNav
			}
			c = n
		}
		switch o.Kind {
		case "put":
			old, e := c.PutToObject(o.Key, o.Val)
			if e != nil {
				return nil, e
			}
			return docVal(old), nil
		case "rm":
			old, e := c.DeleteInObject(o.Key)
			if e != nil {
				return nil, e
			}
			return docVal(old), nil
		case "ins":
			_, e := c.InsertToArray(o.Pos, o.Vals...)
			if e != nil {
				return nil, e
			}
			return nil, nil
		case "upd":
			old, e := c.UpdateManyInArray(o.Pos, o.Vals...)
			if e != nil {
				return nil, e
			}
			return docVals(old), nil
		case "del":
			if o.N == 1 {
				old, e := c.DeleteInArray(o.Pos) // the single-element form of the same call
				if e != nil {
					return nil, e
				}
				return docVals([]orda.Document{old}), nil
			}
			old, e := c.DeleteManyInArray(o.Pos, o.N)
			if e != nil {
				return nil, e
			}
			return docVals(old), nil
		case "del1":
			old, e := c.DeleteInArray(o.Pos)
			if e != nil {
				return nil, e
			}
			return docVal(old), nil
		}
	}
	return nil, fmt.Errorf("harness: bad op %s for %T", o, dt)
}

// Gen generates values and operations. All randomness comes from R; tags are unique per
// Gen (one Gen per case).
type Gen struct {
	curArr   []interface{} // the array a document operation is being generated for (nil otherwise)
	R        *rand.Rand
	tag      int
	Keys     int     // size of the key pool for maps / objects
	BigBatch float64 // probability that an insert is a batch of >= 11 values
	Nested   bool    // documents: allow nested container values
	Tagged   bool    // values are unique string tags only (C04)
	Shallow  bool    // documents: objects hold primitives only (C02's reference can derive every identity)
	Exotic   float64 // probability that a value is a Go-native exotic value (GoVal)
	UpdBias  float64 // extra probability of choosing an update on a non-empty sequence
	ExactF32 bool    // float32 values are limited to ones whose float64 widening prints identically
	NilField bool    // exotic structs may carry nil slice / map / pointer fields
	// HostileKeys: probability that a map / object key is one of three hostile strings drawn
	// once per generator (separators, escapes and escape look-alikes, non-ASCII)
	HostileKeys float64
	hostile     []string
	// Long: probability that a primitive value is a string of 1.2-6 KiB (operation bodies
	// beyond the sizes of buffers, log-line limits and inline storage)
	Long float64
}

// LongStr returns a string of 1.2-6 KiB: letters with hostile fragments and a unique tag.
func (g *Gen) LongStr() string {
	n := 1200 + g.R.Intn(4800)
	b := make([]byte, 0, n+64)
	for len(b) < n {
		if g.R.Intn(40) == 0 {
			b = append(b, hostileStrings[g.R.Intn(len(hostileStrings))]...)
			continue
		}
		b = append(b, byte('a'+g.R.Intn(26)))
	}
	return string(b) + g.Tag()
}

// NewGen returns a generator with the default conflict-dense shaping.
func NewGen(r *rand.Rand) *Gen {
	return &Gen{R: r, Keys: 3, BigBatch: 0.10, Nested: true}
}

// Tag returns a fresh unique string value.
func (g *Gen) Tag() string { g.tag++; return "t" + strconv.Itoa(g.tag) }

// Prim returns a primitive JSON value.
func (g *Gen) Prim() interface{} {
	if g.Tagged {
		return g.Tag()
	}
	if g.Exotic > 0 && g.R.Float64() < g.Exotic {
		return g.GoVal(g.NilField)
	}
	if g.Long > 0 && g.R.Float64() < g.Long {
		return g.LongStr()
	}
	switch g.R.Intn(8) {
	case 0:
		return float64(g.R.Intn(1000))
	case 1:
		return g.R.Intn(2) == 0
	case 2:
		return float64(g.R.Intn(100)) + 0.5
	default:
		return g.Tag()
	}
}

// Val returns a value for document operations: primitive, or nested containers to depth 3.
func (g *Gen) Val(depth int) interface{} {
	if !g.Nested || g.Tagged {
		return g.Prim()
	}
	if g.Shallow {
		return g.shallowVal(depth, false)
	}
	switch k := g.R.Intn(7); {
	case k <= 2 || depth >= 3:
		return g.Prim()
	case k <= 4:
		m := map[string]interface{}{}
		n := 1 + g.R.Intn(3)
		for i := 0; i < n; i++ {
			m["f"+strconv.Itoa(g.R.Intn(3))] = g.Val(depth + 1)
		}
		return m
	default:
		n := g.R.Intn(3)
		a := make([]interface{}, 0)
		for i := 0; i < n; i++ {
			a = append(a, g.Val(depth+1))
		}
		return a
	}
}

// shallowVal: primitive | flat object of primitives | array of (primitive | flat object |
// array of primitives).
func (g *Gen) shallowVal(depth int, inArray bool) interface{} {
	flatObj := func() interface{} {
		m := map[string]interface{}{}
		n := 1 + g.R.Intn(3)
		for i := 0; i < n; i++ {
			m["f"+strconv.Itoa(g.R.Intn(3))] = g.Prim()
		}
		return m
	}
	switch k := g.R.Intn(8); {
	case k <= 3:
		return g.Prim()
	case k <= 5:
		return flatObj()
	default:
		n := g.R.Intn(4)
		a := make([]interface{}, 0)
		for i := 0; i < n; i++ {
			switch {
			case inArray || g.R.Intn(3) == 0:
				a = append(a, g.Prim())
			case g.R.Intn(2) == 0:
				a = append(a, flatObj())
			default:
				a = append(a, g.shallowVal(depth+1, true))
			}
		}
		return a
	}
}

func (g *Gen) key() string {
	if g.HostileKeys > 0 && g.R.Float64() < g.HostileKeys {
		if g.hostile == nil {
			for len(g.hostile) < 3 {
				if k := hostileStrings[g.R.Intn(len(hostileStrings))]; k != "" {
					g.hostile = append(g.hostile, k)
				}
			}
		}
		return g.hostile[g.R.Intn(len(g.hostile))]
	}
	return "k" + strconv.Itoa(g.R.Intn(g.Keys))
}

func (g *Gen) batch() int {
	if g.R.Float64() < g.BigBatch {
		return 11 + g.R.Intn(4)
	}
	return 1 + g.R.Intn(3)
}

func minI(a, b int) int {
	if a < b {
		return a
	}
	return b
}

// SortedKeys returns the sorted keys of a JSON object value.
func SortedKeys(m map[string]interface{}) []string {
	var keys []string
	for k := range m {
		keys = append(keys, k)
	}
	sort.Strings(keys)
	return keys
}

// Op generates a valid operation for the replica's current state.
func (g *Gen) Op(rep *Rep) Op {
	r := g.R
	switch rep.Typ {
	case "counter":
		if r.Intn(12) == 0 {
			big := []int{2147483647, -2147483648, 1 << 30, -(1 << 30)}
			return Op{Kind: "inc", N: big[r.Intn(len(big))]}
		}
		return Op{Kind: "inc", N: r.Intn(21) - 10}
	case "map":
		if r.Intn(3) == 0 {
			return Op{Kind: "rm", Key: g.key()}
		}
		return Op{Kind: "put", Key: g.key(), Val: g.Prim()}
	case "list":
		n := rep.DT.(orda.List).Size()
		return g.seqOp(n, nil, 0)
	case "doc":
		d := rep.DT.(orda.Document)
		var path []interface{}
		cur := d
		for depth := 0; depth < 3; depth++ {
			if r.Intn(3) == 0 {
				break
			}
			var nx orda.Document
			var step interface{}
			switch vv := cur.GetValue().(type) {
			case map[string]interface{}:
				keys := SortedKeys(vv)
				if len(keys) == 0 {
					break
				}
				k := keys[r.Intn(len(keys))]
				nx, _ = cur.GetFromObject(k)
				step = k
			case []interface{}:
				if len(vv) == 0 {
					break
				}
				i := r.Intn(len(vv))
				nx, _ = cur.GetFromArray(i)
				step = i
			}
			if nx == nil || nx.GetTypeOfJSON() == orda.TypeJSONElement {
				break
			}
			cur = nx
			path = append(path, step)
		}
		if cur.GetTypeOfJSON() == orda.TypeJSONObject {
			if r.Intn(4) == 0 {
				return Op{Kind: "rm", Path: path, Key: g.key()}
			}
			return Op{Kind: "put", Path: path, Key: g.key(), Val: g.Val(0)}
		}
		arr, _ := cur.GetValue().([]interface{})
		g.curArr = arr
		op := g.seqOp(len(arr), path, 1)
		g.curArr = nil
		return op
	}
	panic("bad type")
}

// Burst returns one operation per replica, all aimed at the same place - the same map key, the
// same list index, the same key / index of one container of a document - for replicas that
// hold the same state (call it at a quiescent point: all clocks are equal then, so the
// operations of the burst are ordered by the client-id tie-break alone).
func (g *Gen) Burst(reps []*Rep) []Op {
	r := g.R
	first := reps[0]
	out := make([]Op, 0, len(reps))
	pickKey := func(m map[string]interface{}) string {
		if keys := SortedKeys(m); len(keys) > 0 && r.Intn(4) > 0 {
			return keys[r.Intn(len(keys))]
		}
		return g.key()
	}
	seq := func(n int, path []interface{}, val func() interface{}) {
		if n == 0 {
			for range reps {
				out = append(out, Op{Kind: "ins", Path: path, Pos: 0, Vals: []interface{}{val()}})
			}
			return
		}
		p := r.Intn(n)
		for range reps {
			switch r.Intn(4) {
			case 0:
				out = append(out, Op{Kind: "ins", Path: path, Pos: p + r.Intn(2), Vals: []interface{}{val()}})
			case 1:
				out = append(out, Op{Kind: "del", Path: path, Pos: p, N: 1})
			default:
				out = append(out, Op{Kind: "upd", Path: path, Pos: p, Vals: []interface{}{val()}})
			}
		}
	}
	switch first.Typ {
	case "map":
		m, _ := Norm(first.DT.(orda.Map).ToJSON()).(map[string]interface{})
		key := pickKey(m)
		for range reps {
			if r.Intn(2) == 0 {
				out = append(out, Op{Kind: "rm", Key: key})
			} else {
				out = append(out, Op{Kind: "put", Key: key, Val: g.Prim()})
			}
		}
	case "list":
		seq(first.DT.(orda.List).Size(), nil, g.Prim)
	case "doc":
		var path []interface{}
		cur := first.DT.(orda.Document)
		for depth := 0; depth < 2 && r.Intn(2) == 0; depth++ {
			var nx orda.Document
			var step interface{}
			switch vv := cur.GetValue().(type) {
			case map[string]interface{}:
				if keys := SortedKeys(vv); len(keys) > 0 {
					k := keys[r.Intn(len(keys))]
					nx, _ = cur.GetFromObject(k)
					step = k
				}
			case []interface{}:
				if len(vv) > 0 {
					i := r.Intn(len(vv))
					nx, _ = cur.GetFromArray(i)
					step = i
				}
			}
			if nx == nil || nx.GetTypeOfJSON() == orda.TypeJSONElement {
				break
			}
			cur = nx
			path = append(path, step)
		}
		if cur.GetTypeOfJSON() == orda.TypeJSONObject {
			m, _ := cur.GetValue().(map[string]interface{})
			key := pickKey(m)
			for range reps {
				if r.Intn(2) == 0 {
					out = append(out, Op{Kind: "rm", Path: path, Key: key})
				} else {
					out = append(out, Op{Kind: "put", Path: path, Key: key, Val: g.Val(0)})
				}
			}
		} else {
			arr, _ := cur.GetValue().([]interface{})
			seq(len(arr), path, func() interface{} { return g.Val(1) })
		}
	default:
		for _, rep := range reps {
			out = append(out, g.Op(rep))
		}
	}
	return out
}

// SeqOp: a valid insert / delete / update on a sequence of current length n at path.
func (g *Gen) SeqOp(n int, path []interface{}) Op {
	d := 0
	if path != nil {
		d = 1
	}
	return g.seqOp(n, path, d)
}

// seqOp: insert / delete / update on a sequence of current length n.
func (g *Gen) seqOp(n int, path []interface{}, depth int) Op {
	r := g.R
	isDoc := depth > 0
	val := func() interface{} {
		if isDoc {
			return g.Val(depth)
		}
		return g.Prim()
	}
	k := r.Intn(6)
	if n > 0 && g.UpdBias > 0 && r.Float64() < g.UpdBias {
		k = 5
	}
	if n == 0 || k <= 2 {
		cnt := g.batch()
		var vs []interface{}
		for i := 0; i < cnt; i++ {
			vs = append(vs, val())
		}
		pos := r.Intn(n + 1)
		switch r.Intn(5) {
		case 0:
			pos = 0
		case 1:
			pos = n
		}
		return Op{Kind: "ins", Path: path, Pos: pos, Vals: vs}
	}
	p := r.Intn(n)
	c := 1 + r.Intn(minI(3, n-p))
	if k == 3 || k == 4 {
		return Op{Kind: "del", Path: path, Pos: p, N: c}
	}
	var vs []interface{}
	for i := 0; i < c; i++ {
		vs = append(vs, val())
	}
	if isDoc && c >= 2 && len(g.curArr) >= p+c && r.Intn(3) == 0 {
		// a multi-value update that repeats what one slot already holds (a form that writes a
		// whole row back with one field changed) and puts a container behind it: every value
		// of the call is a new element, whatever it replaces
		i := r.Intn(c - 1)
		switch g.curArr[p+i].(type) {
		case string, float64, bool, int, int64:
			vs[i] = g.curArr[p+i]
			vs[c-1] = map[string]interface{}{"in": g.Tag(), "l": []interface{}{g.Tag()}}
		}
	}
	return Op{Kind: "upd", Path: path, Pos: p, Vals: vs}
}

// Idle returns a pair of operations that leaves the readable state unchanged but advances
// the replica's clock by two (and leaves tombstones behind).
func (g *Gen) Idle(typ string) []Op {
	switch typ {
	case "counter":
		return []Op{{Kind: "inc", N: 1}, {Kind: "inc", N: -1}}
	case "map":
		return []Op{{Kind: "put", Key: "idle", Val: "x"}, {Kind: "rm", Key: "idle"}}
	case "list":
		return []Op{{Kind: "ins", Pos: 0, Vals: []interface{}{g.Tag()}}, {Kind: "del", Pos: 0, N: 1}}
	case "doc":
		return []Op{{Kind: "put", Key: "idle", Val: "x"}, {Kind: "rm", Key: "idle"}}
	}
	return nil
}

// ---- generator V: Go-native values of every shape the public API accepts

// TaggedStruct is a flat struct with json tags.
type TaggedStruct struct {
	A int     `json:"a"`
	B string  `json:"b"`
	C float64 `json:"c"`
	D bool    `json:"d"`
}

// PlainStruct is a flat struct without json tags.
type PlainStruct struct {
	X int32
	Y string
}

// SliceStruct carries container fields (S may be nil).
type SliceStruct struct {
	N string         `json:"n"`
	S []int          `json:"s"`
	M map[string]int `json:"m"`
}

// NestedStruct nests a struct and a pointer.
type NestedStruct struct {
	In  TaggedStruct `json:"in"`
	Ptr *int         `json:"ptr"`
	L   []string     `json:"l"`
}

var hostileStrings = []string{"", "\x00", "a/b", "~", "~0", "~1", "a.b", "$x", " ", "𝄞𝄞", "日本語", " lead", "quote\"q", "back\\slash", "ü", "tab\tx", "nl\nx",
	// characters Go's JSON encoder escapes, and plain text that merely LOOKS like an escape
	"<", ">", "&", "a<b>&c", `\u003c`, `x\u003ey`, `\u0026`, `\u0000`, `\n`, `\\`, `\"`, `\`, "%5C", "\u2028", "\u2029", "\ufffd", "\x01", "\x1f", "\x7f", "'", `{"a":1}`, "[1,2]", "null", "true", "12", "1e3"}

// Str returns a valid-UTF-8 string from the hostile pool or a long one.
func (g *Gen) Str() string {
	switch g.R.Intn(6) {
	case 0:
		b := make([]byte, 200+g.R.Intn(300))
		for i := range b {
			b[i] = byte('a' + g.R.Intn(26))
		}
		return string(b)
	case 1:
		return g.Tag()
	}
	return hostileStrings[g.R.Intn(len(hostileStrings))] + g.Tag()
}

// copyContainers copies the generic JSON containers of v (leaves are shared).
func copyContainers(v interface{}) interface{} {
	switch x := v.(type) {
	case map[string]interface{}:
		m := make(map[string]interface{}, len(x))
		for k, c := range x {
			m[k] = copyContainers(c)
		}
		return m
	case []interface{}:
		a := make([]interface{}, len(x))
		for i, c := range x {
			a[i] = copyContainers(c)
		}
		return a
	}
	return v
}

// scribble overwrites every leaf of a container copy and adds a key to every object.
func scribble(v interface{}) {
	switch x := v.(type) {
	case map[string]interface{}:
		for k, c := range x {
			switch c.(type) {
			case map[string]interface{}, []interface{}:
				scribble(c)
			default:
				x[k] = "scribbled"
			}
		}
		x["~scribbled"] = true
	case []interface{}:
		for i, c := range x {
			switch c.(type) {
			case map[string]interface{}, []interface{}:
				scribble(c)
			default:
				x[i] = "scribbled"
			}
		}
	}
}

// aliasArg returns v itself, or for a non-nil pointer to a number / string / bool a pointer to a
// fresh copy plus (in pokes) the function that overwrites that copy after the call.
func aliasArg(v interface{}, pokes *[]func()) interface{} {
	switch p := v.(type) {
	case *int:
		if p != nil {
			c := *p
			*pokes = append(*pokes, func() { c = ^c })
			return &c
		}
	case *int8:
		if p != nil {
			c := *p
			*pokes = append(*pokes, func() { c = ^c })
			return &c
		}
	case *int16:
		if p != nil {
			c := *p
			*pokes = append(*pokes, func() { c = ^c })
			return &c
		}
	case *int32:
		if p != nil {
			c := *p
			*pokes = append(*pokes, func() { c = ^c })
			return &c
		}
	case *int64:
		if p != nil {
			c := *p
			*pokes = append(*pokes, func() { c = ^c })
			return &c
		}
	case *uint:
		if p != nil {
			c := *p
			*pokes = append(*pokes, func() { c = ^c })
			return &c
		}
	case *uint8:
		if p != nil {
			c := *p
			*pokes = append(*pokes, func() { c = ^c })
			return &c
		}
	case *uint16:
		if p != nil {
			c := *p
			*pokes = append(*pokes, func() { c = ^c })
			return &c
		}
	case *uint32:
		if p != nil {
			c := *p
			*pokes = append(*pokes, func() { c = ^c })
			return &c
		}
	case *uint64:
		if p != nil {
			c := *p
			*pokes = append(*pokes, func() { c = ^c })
			return &c
		}
	case *float32:
		if p != nil {
			c := *p
			*pokes = append(*pokes, func() {
				if c == 12345.5 {
					c = 1
				} else {
					c = 12345.5
				}
			})
			return &c
		}
	case *float64:
		if p != nil {
			c := *p
			*pokes = append(*pokes, func() {
				if c == 12345.5 {
					c = 1
				} else {
					c = 12345.5
				}
			})
			return &c
		}
	case *string:
		if p != nil {
			c := *p
			*pokes = append(*pokes, func() { c = "poked:" + c })
			return &c
		}
	case *bool:
		if p != nil {
			c := *p
			*pokes = append(*pokes, func() { c = !c })
			return &c
		}
	}
	return v
}

// numOfKind returns n as a Go number of the k-th kind (every width), as a value or a pointer.
func numOfKind(k int, n int64, ptr bool) interface{} {
	switch k % 10 {
	case 0:
		v := int(n)
		if ptr {
			return &v
		}
		return v
	case 1:
		v := int8(n)
		if ptr {
			return &v
		}
		return v
	case 2:
		v := int16(n)
		if ptr {
			return &v
		}
		return v
	case 3:
		v := int32(n)
		if ptr {
			return &v
		}
		return v
	case 4:
		v := n
		if ptr {
			return &v
		}
		return v
	case 5:
		v := uint(n)
		if ptr {
			return &v
		}
		return v
	case 6:
		v := uint8(n)
		if ptr {
			return &v
		}
		return v
	case 7:
		v := uint16(n)
		if ptr {
			return &v
		}
		return v
	case 8:
		v := uint32(n)
		if ptr {
			return &v
		}
		return v
	default:
		v := uint64(n)
		if ptr {
			return &v
		}
		return v
	}
}

// GoVal returns a Go-native value (typed numerics, pointers, structs, typed containers).
// withNilFields allows struct fields holding nil slices / maps / pointers.
func (g *Gen) GoVal(withNilFields bool) interface{} {
	r := g.R
	i64s := []int64{0, 1, -1, 127, -128, 255, 32767, 65535, 1 << 31, -(1 << 31), 1<<53 - 1, 1 << 53, 1<<53 + 1, -(1 << 53), 1<<62 + 12345, -1 << 63, 1<<63 - 1}
	n := i64s[r.Intn(len(i64s))]
	switch r.Intn(24) {
	case 0, 1, 2, 3, 4, 5, 6, 7:
		return numOfKind(r.Intn(10), n, false) // every integer width, signed and unsigned
	case 8:
		fs := []float32{0.1, 1.5, 3.4e38, -2.25, 1e-7, 16777217}
		if g.ExactF32 {
			fs = []float32{0.5, 1.5, -2.25, 16777216, 1024.125}
		}
		return fs[r.Intn(len(fs))]
	case 9:
		fs := []float64{0.1, 1e21, 1e-7, -0.0, 123456789.123456789, 5e-324, 1.7976931348623157e308}
		return fs[r.Intn(len(fs))]
	case 10:
		return numOfKind(r.Intn(10), n, true) // pointer to every integer width
	case 11:
		v := g.Str()
		return &v
	case 12:
		v := r.Intn(2) == 0
		return &v
	case 13:
		if r.Intn(2) == 0 {
			v := []float64{0.1, -2.25, 1e21, 5e-324}[r.Intn(4)]
			return &v
		}
		v := float32(0.1)
		if g.ExactF32 {
			v = 0.25
		}
		return &v
	case 14:
		return TaggedStruct{A: int(n % 1000), B: g.Str(), C: 0.25, D: true}
	case 15:
		return PlainStruct{X: int32(n), Y: g.Tag()}
	case 16:
		s := SliceStruct{N: g.Tag(), S: []int{1, 2}, M: map[string]int{"a": 1}}
		if withNilFields && r.Intn(2) == 0 {
			s.S = nil
		}
		if withNilFields && r.Intn(2) == 0 {
			s.M = nil
		}
		return s
	case 17:
		v := 7
		ns := NestedStruct{In: TaggedStruct{A: 1, B: g.Tag()}, Ptr: &v, L: []string{g.Tag()}}
		if withNilFields && r.Intn(2) == 0 {
			ns.Ptr = nil
		}
		return ns
	case 18:
		return []int{int(n % 100), 2, 3}
	case 19:
		return []string{g.Tag(), g.Str()}
	case 20:
		return map[string]int{"a": int(n % 100), "b": 2}
	case 21:
		return map[string]string{"x": g.Tag()}
	case 22:
		return &TaggedStruct{A: 5, B: g.Tag()}
	default:
		return g.Str()
	}
}
