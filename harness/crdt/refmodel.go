package crdt

import (
	"bytes"
	"encoding/json"
	"fmt"
	"sort"
	"strconv"

	"github.com/orda-io/orda/client/pkg/model"
)

// TS is a decoded timestamp / identity (era, lamport, client id, delimiter).
type TS struct {
	E uint32
	L uint64
	C string
	D uint32
}

func (a TS) String() string { return fmt.Sprintf("[%d:%d:%s:%d]", a.E, a.L, a.C, a.D) }

// Less compares (era, lamport, cuid) — the operation-timestamp order of the statement
// (logical clock, then client id). Clock differences are assumed < 2^62.
func (a TS) Less(b TS) bool {
	if a.E != b.E {
		return a.E < b.E
	}
	if a.L != b.L {
		return a.L < b.L
	}
	return a.C < b.C
}

// SameOp reports whether two identities come from the same operation.
func (a TS) SameOp(b TS) bool { return a.E == b.E && a.L == b.L && a.C == b.C }

// Model converts to the model type (to call the real Hash / Compare).
func (a TS) Model() *model.Timestamp { return model.NewTimestamp(a.E, a.L, a.C, a.D) }

// NilCUID is the client id of the oldest timestamp (list head / document root).
const NilCUID = "0000000000000000"

func numU64(v interface{}) (uint64, bool) {
	switch x := v.(type) {
	case float64:
		return uint64(x), true
	case json.Number:
		if u, err := strconv.ParseUint(string(x), 10, 64); err == nil {
			return u, true
		}
		if f, err := x.Float64(); err == nil {
			return uint64(f), true
		}
	}
	return 0, false
}

func numI64(v interface{}) (int64, bool) {
	switch x := v.(type) {
	case float64:
		return int64(x), true
	case json.Number:
		if i, err := x.Int64(); err == nil {
			return i, true
		}
		if f, err := x.Float64(); err == nil {
			return int64(f), true
		}
	}
	return 0, false
}

func tsFromJSON(v interface{}) (TS, bool) {
	m, ok := v.(map[string]interface{})
	if !ok {
		return TS{}, false
	}
	var t TS
	if x, ok := numU64(m["e"]); ok {
		t.E = uint32(x)
	}
	if x, ok := numU64(m["l"]); ok {
		t.L = x
	}
	if x, ok := m["c"].(string); ok {
		t.C = x
	}
	if x, ok := numU64(m["d"]); ok {
		t.D = uint32(x)
	}
	return t, true
}

// DOp is an operation decoded from its wire form (id + JSON body) only.
type DOp struct {
	ID   TS // operation timestamp (delimiter 0)
	Seq  uint64
	Type model.TypeOfOperation
	P    *TS           // document: parent container
	T    []TS          // targets (insert: one anchor)
	K    string        // key
	V    []interface{} // values (put: one)
	N    int64         // counter delta / transaction NumOfOps
	Tag  string
	Raw  *model.Operation
}

// Decode decodes a model operation's body.
func Decode(op *model.Operation) (DOp, error) {
	d := DOp{Type: op.OpType, Raw: op}
	if op.ID != nil {
		d.ID = TS{E: op.ID.Era, L: op.ID.Lamport, C: op.ID.CUID}
		d.Seq = op.ID.Seq
	}
	switch op.OpType {
	case model.TypeOfOperation_COUNTER_SNAPSHOT, model.TypeOfOperation_MAP_SNAPSHOT,
		model.TypeOfOperation_LIST_SNAPSHOT, model.TypeOfOperation_DOC_SNAPSHOT:
		return d, nil
	}
	var body map[string]interface{}
	dec := json.NewDecoder(bytes.NewReader(op.Body))
	dec.UseNumber() // clocks above 2^53 must survive decoding exactly
	if err := dec.Decode(&body); err != nil {
		return d, fmt.Errorf("operation %v body is not a JSON object: %v", op.ID, err)
	}
	if p, ok := body["P"]; ok && p != nil {
		if t, ok := tsFromJSON(p); ok {
			d.P = &t
		}
	}
	switch op.OpType {
	case model.TypeOfOperation_TRANSACTION:
		if n, ok := numI64(body["NumOfOps"]); ok {
			d.N = n
		}
		d.Tag, _ = body["Tag"].(string)
	case model.TypeOfOperation_COUNTER_INCREASE:
		if n, ok := numI64(body["Delta"]); ok {
			d.N = n
		}
	case model.TypeOfOperation_MAP_PUT:
		d.K, _ = body["Key"].(string)
		d.V = []interface{}{body["Value"]}
	case model.TypeOfOperation_MAP_REMOVE:
		d.K, _ = body["Key"].(string)
	case model.TypeOfOperation_DOC_OBJ_PUT:
		d.K, _ = body["K"].(string)
		d.V = []interface{}{body["V"]}
	case model.TypeOfOperation_DOC_OBJ_RMV:
		d.K, _ = body["K"].(string)
	case model.TypeOfOperation_LIST_INSERT, model.TypeOfOperation_DOC_ARR_INS:
		if t, ok := tsFromJSON(body["T"]); ok {
			d.T = []TS{t}
		}
		d.V, _ = body["V"].([]interface{})
	case model.TypeOfOperation_LIST_DELETE, model.TypeOfOperation_DOC_ARR_DEL,
		model.TypeOfOperation_LIST_UPDATE, model.TypeOfOperation_DOC_ARR_UPD:
		if ts, ok := body["T"].([]interface{}); ok {
			for _, x := range ts {
				if t, ok := tsFromJSON(x); ok {
					d.T = append(d.T, t)
				}
			}
		}
		d.V, _ = body["V"].([]interface{})
	}
	return d, nil
}

// DecodeAll decodes a list of operations, skipping snapshot / transaction headers.
func DecodeAll(ops []*model.Operation) ([]DOp, error) {
	var out []DOp
	for _, o := range ops {
		d, err := Decode(o)
		if err != nil {
			return nil, err
		}
		out = append(out, d)
	}
	return out, nil
}

// ------------------------------------------------------------------ counter

// RefCounter: 32-bit wrap-around sum of all deltas.
func RefCounter(ops []DOp) int32 {
	var s int32
	for _, o := range ops {
		if o.Type == model.TypeOfOperation_COUNTER_INCREASE {
			s += int32(o.N)
		}
	}
	return s
}

// ------------------------------------------------------------------ LWW map

type lwwCell struct {
	t   TS
	val interface{}
	rm  bool
}

// RefMap: each key holds the value of the put/remove with the greatest timestamp.
func RefMap(ops []DOp, putT, rmT model.TypeOfOperation, parent *TS) map[string]interface{} {
	cells := refMapCells(ops, putT, rmT, parent)
	out := map[string]interface{}{}
	for k, c := range cells {
		if !c.rm {
			out[k] = c.val
		}
	}
	return out
}

func refMapCells(ops []DOp, putT, rmT model.TypeOfOperation, parent *TS) map[string]lwwCell {
	m := map[string]lwwCell{}
	for _, o := range ops {
		if parent != nil && (o.P == nil || *o.P != *parent) {
			continue
		}
		var c lwwCell
		switch o.Type {
		case putT:
			c = lwwCell{o.ID, o.V[0], false}
		case rmT:
			c = lwwCell{o.ID, nil, true}
		default:
			continue
		}
		if old, ok := m[o.K]; !ok || old.t.Less(c.t) {
			m[o.K] = c
		}
	}
	return m
}

// ------------------------------------------------------------------ RGA list

type rnode struct {
	id       TS
	val      interface{}
	valTs    TS
	valID    TS // identity of the node currently holding the value (documents)
	deleted  bool
	children []*rnode
}

// RefSeq is the classic RGA reference: a tree built from insert operations (anchor T,
// element identities = (operation timestamp, batch index); children ordered newest first
// by (lamport, cuid); a batch is a chain); flattened; minus elements targeted by any
// delete; element value = value of the newest update by (lamport, cuid), else its insert
// value. ids maps element identities of the initial content (document arrays put as a
// value) when non-nil. countNodes gives the number of identities a value consumes (1 for
// lists; the node count of the value tree for documents).
func RefSeq(ops []DOp, insT, delT, updT model.TypeOfOperation, parent *TS, init []TS, initVals []interface{}, countNodes func(v interface{}) uint32) ([]interface{}, []TS, error) {
	vals, ids, _, err := RefSeqIDs(ops, insT, delT, updT, parent, init, initVals, countNodes)
	return vals, ids, err
}

// RefSeqIDs is RefSeq that also returns, per live element, the identity of the node that
// currently holds its value (differs from the element identity after an update).
func RefSeqIDs(ops []DOp, insT, delT, updT model.TypeOfOperation, parent *TS, init []TS, initVals []interface{}, countNodes func(v interface{}) uint32) ([]interface{}, []TS, []TS, error) {
	head := &rnode{id: TS{C: NilCUID}}
	idx := map[TS]*rnode{head.id: head}
	prev := head
	for i, id := range init {
		n := &rnode{id: id, val: initVals[i], valTs: TS{E: id.E, L: id.L, C: id.C}, valID: id}
		idx[id] = n
		prev.children = append(prev.children, n)
		prev = n
	}
	mine := make([]DOp, 0, len(ops))
	for _, o := range ops {
		if parent != nil && (o.P == nil || *o.P != *parent) {
			continue
		}
		if o.Type == insT || o.Type == delT || o.Type == updT {
			mine = append(mine, o)
		}
	}
	// inserts in timestamp order: an anchor is always older than the insert that uses it
	sorted := append([]DOp{}, mine...)
	sort.SliceStable(sorted, func(i, j int) bool { return sorted[i].ID.Less(sorted[j].ID) })
	for _, o := range sorted {
		if o.Type != insT {
			continue
		}
		if len(o.T) != 1 {
			return nil, nil, nil, fmt.Errorf("insert %v without anchor", o.ID)
		}
		p := idx[o.T[0]]
		if p == nil {
			return nil, nil, nil, fmt.Errorf("insert %v: anchor %v is not an element identity known to the reference", o.ID, o.T[0])
		}
		d := uint32(0)
		for _, v := range o.V {
			n := &rnode{id: TS{o.ID.E, o.ID.L, o.ID.C, d}, val: v, valTs: o.ID, valID: TS{o.ID.E, o.ID.L, o.ID.C, d}}
			idx[n.id] = n
			p.children = append(p.children, n)
			p = n
			d += countNodes(v)
		}
	}
	for _, o := range sorted {
		if o.Type != updT {
			continue
		}
		d := uint32(0)
		for i, t := range o.T {
			n := idx[t]
			if n == nil {
				return nil, nil, nil, fmt.Errorf("update %v: target %v unknown to the reference", o.ID, t)
			}
			if i < len(o.V) {
				if n.valTs.Less(o.ID) {
					n.val, n.valTs, n.valID = o.V[i], o.ID, TS{o.ID.E, o.ID.L, o.ID.C, d}
				}
				d += countNodes(o.V[i])
			}
		}
	}
	for _, o := range sorted {
		if o.Type != delT {
			continue
		}
		for _, t := range o.T {
			n := idx[t]
			if n == nil {
				return nil, nil, nil, fmt.Errorf("delete %v: target %v unknown to the reference", o.ID, t)
			}
			n.deleted = true
		}
	}
	out := []interface{}{}
	var ids, valIDs []TS
	var walk func(n *rnode)
	walk = func(n *rnode) {
		if n != head && !n.deleted {
			out = append(out, n.val)
			ids = append(ids, n.id)
			valIDs = append(valIDs, n.valID)
		}
		ch := append([]*rnode{}, n.children...)
		sort.SliceStable(ch, func(i, j int) bool { return ch[j].id.Less(ch[i].id) }) // newest first
		for _, c := range ch {
			walk(c)
		}
	}
	walk(head)
	return out, ids, valIDs, nil
}

// One counts one identity per value (List).
func One(interface{}) uint32 { return 1 }

// CountNodes counts the nodes of a JSON value tree (each container and each primitive
// consumes one identity in a document).
func CountNodes(v interface{}) uint32 {
	switch x := v.(type) {
	case map[string]interface{}:
		n := uint32(1)
		for _, c := range x {
			n += CountNodes(c)
		}
		return n
	case []interface{}:
		n := uint32(1)
		for _, c := range x {
			n += CountNodes(c)
		}
		return n
	}
	return 1
}
