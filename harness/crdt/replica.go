// Package crdt: the CRDT-only engine (DESIGN.md §2.5) — real replicas created through the
// public client API plus a deterministic log-order mini-server that reproduces exactly
// the delivery contract of the server (one total order per datatype, own operations in
// issue order, foreign operations delivered as a growing prefix in log order).
package crdt

import (
	"encoding/json"
	"fmt"
	octx "github.com/orda-io/orda/client/pkg/context"
	"io"
	"strconv"
	"strings"

	oerr "github.com/orda-io/orda/client/pkg/errors"
	"github.com/orda-io/orda/client/pkg/iface"
	"github.com/orda-io/orda/client/pkg/log"
	"github.com/orda-io/orda/client/pkg/model"
	"github.com/orda-io/orda/client/pkg/orda"
	"google.golang.org/protobuf/proto"
)

// Quiet is a logger that discards everything.
var Quiet = func() *log.OrdaLog {
	q := log.New()
	q.Logger.Out = io.Discard
	log.Logger.Logger.Out = io.Discard
	return q
}()

// QuietClient silences a client's logger (SetLogger is exported on the implementation
// but not part of the Client interface).
func QuietClient(c orda.Client) {
	if sl, ok := c.(interface{ SetLogger(*log.OrdaLog) }); ok {
		sl.SetLogger(Quiet)
	}
}

// Types of datatypes the engine drives.
var Types = []string{"counter", "map", "list", "doc"}

// JS marshals v as JSON (ignoring errors: views of datatypes are always marshalable).
func JS(v interface{}) string {
	b, err := json.Marshal(v)
	if err != nil {
		return "!marshal-error:" + err.Error()
	}
	return string(b)
}

// Canon brings a value to canonical JSON: marshal -> unmarshal into interface{} -> marshal
// (object keys sorted by encoding/json), so that a struct kept by the origin and the map
// other replicas decoded compare equal exactly when their JSON views are equal.
func Canon(v interface{}) string {
	b, err := json.Marshal(v)
	if err != nil {
		return "!marshal-error:" + err.Error()
	}
	var x interface{}
	if err := json.Unmarshal(b, &x); err != nil {
		return "!unmarshal-error:" + err.Error()
	}
	b, _ = json.Marshal(x)
	return string(b)
}

// CanonJSON brings a JSON text to the same canonical form as Canon (object keys sorted).
func CanonJSON(js string) string {
	var x interface{}
	if err := json.Unmarshal([]byte(js), &x); err != nil {
		return "!unparsable:" + js
	}
	b, _ := json.Marshal(x)
	return string(b)
}

// Rep is one replica of one datatype.
type Rep struct {
	Idx   int
	Typ   string
	Cli   orda.Client
	DT    orda.Datatype
	W     iface.Datatype
	Sent  int // number of operations of the pending list already pushed to the log
	Recvd int // prefix of the log already delivered
}

// NewRep creates a LOCAL_ONLY client with one datatype of the given type.
func NewRep(idx int, typ string) *Rep { return newRep(idx, typ, "") }

// newRep: with a non-empty cuid the client is given that id BEFORE the datatype is created
// (through the client record every datatype context of the client points to, reached from a
// throw-away datatype), so that the datatype under test is exactly as the library creates it -
// identifiers, rollback base and creation operation included.
func newRep(idx int, typ string, cuid string) *Rep {
	c := orda.NewClient(orda.NewLocalClientConfig("col"), "c"+strconv.Itoa(idx))
	QuietClient(c)
	if cuid != "" {
		seed := c.CreateCounter("-seed-", nil)
		if sw, ok := seed.(iface.Datatype); ok {
			sw.SetLogger(Quiet)
			if dc, ok := sw.GetCtx().(*octx.DatatypeContext); ok && dc.ClientContext != nil && dc.ClientContext.Client != nil {
				dc.ClientContext.Client.CUID = cuid
			}
		}
	}
	var dt orda.Datatype
	switch typ {
	case "list":
		dt = c.CreateList("k", nil)
	case "map":
		dt = c.CreateMap("k", nil)
	case "doc":
		dt = c.CreateDocument("k", nil)
	case "counter":
		dt = c.CreateCounter("k", nil)
	default:
		panic("bad type " + typ)
	}
	w := dt.(iface.Datatype)
	w.SetLogger(Quiet)
	// Operations[0] of a LOCAL_ONLY datatype is its creation snapshot operation.
	return &Rep{Idx: idx, Typ: typ, Cli: c, DT: dt, W: w, Sent: 1}
}

const uidAlphabet = "_-0123456789abcdefghijklmnopqrstuvwxyzABCDEFGHIJKLMNOPQRSTUVWXYZ"

// SeededCUID draws a client id of the real alphabet and length from a PRNG.
func SeededCUID(r interface{ Intn(int) int }) string {
	b := make([]byte, 16)
	for i := range b {
		b[i] = uidAlphabet[r.Intn(len(uidAlphabet))]
	}
	return string(b)
}

// NewRepCUID creates a replica whose client id is chosen by the harness (so that the tie
// breaks of a case are a function of its seed and replay files reproduce): the id is
// installed through GetMeta/SetMeta, the mechanism snapshot restore itself uses, before
// any operation other than the creation snapshot operation exists.
func NewRepCUID(idx int, typ string, cuid string) *Rep {
	r := newRep(idx, typ, cuid)
	if r.W.GetCUID() == cuid {
		return r // created under the chosen id: nothing installed afterwards
	}
	meta, err := r.W.GetMeta()
	if err != nil {
		panic(err)
	}
	var m map[string]interface{}
	if err := json.Unmarshal(meta, &m); err != nil {
		panic(err)
	}
	opid, _ := m["opID"].(map[string]interface{})
	if opid == nil {
		panic("meta without opID: " + string(meta))
	}
	opid["c"] = cuid
	nm, _ := json.Marshal(m)
	if err := r.W.SetMeta(nm); err != nil {
		panic(err)
	}
	r.ResetTransaction()
	if r.W.GetCUID() != cuid {
		panic("cuid not installed: " + string(nm))
	}
	return r
}

// InstallClock sets the replica's logical clock (through GetMeta/SetMeta) so that
// histories also run at large clock values.
func InstallClock(r *Rep, lamport uint64) {
	meta, err := r.W.GetMeta()
	if err != nil {
		panic(err)
	}
	var m map[string]interface{}
	dec := json.NewDecoder(strings.NewReader(string(meta)))
	dec.UseNumber()
	if err := dec.Decode(&m); err != nil {
		panic(err)
	}
	opid, _ := m["opID"].(map[string]interface{})
	opid["l"] = json.Number(strconv.FormatUint(lamport, 10))
	nm, _ := json.Marshal(m)
	if err := r.W.SetMeta(nm); err != nil {
		panic(err)
	}
	r.ResetTransaction()
}

// InstallEra sets the era of the replica's operation ids (through GetMeta/SetMeta).
func InstallEra(r *Rep, era uint32) {
	meta, err := r.W.GetMeta()
	if err != nil {
		panic(err)
	}
	var m map[string]interface{}
	dec := json.NewDecoder(strings.NewReader(string(meta)))
	dec.UseNumber()
	if err := dec.Decode(&m); err != nil {
		panic(err)
	}
	opid, _ := m["opID"].(map[string]interface{})
	opid["e"] = json.Number(strconv.FormatUint(uint64(era), 10))
	nm, _ := json.Marshal(m)
	if err := r.W.SetMeta(nm); err != nil {
		panic(err)
	}
	r.ResetTransaction()
	if ge, ok := r.W.(interface{ GetEra() uint32 }); !ok || ge.GetEra() != era {
		panic("era not installed: " + string(nm))
	}
}

// CUID returns the replica's client id.
func (r *Rep) CUID() string { return r.W.GetCUID() }

// Pending returns the operations awaiting push (including the creation snapshot op).
func (r *Rep) Pending() []*model.Operation { return r.W.CreatePushPullPack().Operations }

// View is the canonical JSON view of the replica.
func (r *Rep) View() string { return Canon(r.DT.ToJSON()) }

// Size returns the datatype's size (-1 for counters / documents).
func (r *Rep) Size() int {
	switch t := r.DT.(type) {
	case orda.Map:
		return t.Size()
	case orda.List:
		return t.Size()
	}
	return -1
}

// ResetTransaction calls the (exported, but not interface-listed) ResetTransaction.
func (r *Rep) ResetTransaction() {
	if rt, ok := r.W.(interface{ ResetTransaction() oerr.OrdaError }); ok {
		rt.ResetTransaction()
	} else {
		panic("datatype has no ResetTransaction")
	}
}

// CloneOps deep-copies operations through proto cloning.
func CloneOps(ops []*model.Operation) []*model.Operation {
	out := make([]*model.Operation, 0, len(ops))
	for _, o := range ops {
		out = append(out, proto.Clone(o).(*model.Operation))
	}
	return out
}

// WireOps pushes operations through proto.Marshal/Unmarshal (nothing shared by pointer).
func WireOps(ops []*model.Operation) []*model.Operation {
	out := make([]*model.Operation, 0, len(ops))
	for _, o := range ops {
		b, err := proto.Marshal(o)
		if err != nil {
			panic(err)
		}
		var n model.Operation
		if err := proto.Unmarshal(b, &n); err != nil {
			panic(err)
		}
		out = append(out, &n)
	}
	return out
}

// Entry is one push of one replica appended to the log.
type Entry struct {
	From int
	Ops  []*model.Operation
}

// Log is the log-order mini-server.
type Log struct {
	Entries []Entry
}

// Push appends the replica's not-yet-pushed operations to the log; returns how many.
func (l *Log) Push(r *Rep) int {
	ops := r.Pending()
	if len(ops) > r.Sent {
		n := len(ops) - r.Sent
		l.Entries = append(l.Entries, Entry{r.Idx, WireOps(ops[r.Sent:])})
		r.Sent = len(ops)
		return n
	}
	return 0
}

// Deliver delivers log entries [r.Recvd, upto) to r, skipping its own.
func (l *Log) Deliver(r *Rep, upto int) (int, error) {
	n := 0
	for ; r.Recvd < upto; r.Recvd++ {
		e := l.Entries[r.Recvd]
		if e.From == r.Idx {
			continue
		}
		if _, err := r.W.ReceiveRemoteModelOperations(CloneOps(e.Ops), false); err != nil {
			return n, fmt.Errorf("entry %d from r%d: %v", r.Recvd, e.From, err)
		}
		n += len(e.Ops)
	}
	return n, nil
}

// All returns every operation of the log in log order.
func (l *Log) All() []*model.Operation {
	var all []*model.Operation
	for _, e := range l.Entries {
		all = append(all, e.Ops...)
	}
	return all
}

// Replay builds a fresh LOCAL_ONLY datatype and replays the whole log into it in log
// order through ReceiveRemoteModelOperations — what snapshot.Manager.GetLatestDatatype does.
func (l *Log) Replay(typ string) (*Rep, error) {
	r := NewRep(-1, typ)
	if _, err := r.W.ReceiveRemoteModelOperations(CloneOps(l.All()), false); err != nil {
		return r, err
	}
	return r, nil
}
