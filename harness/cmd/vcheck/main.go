// vcheck: driver and worker of all property checks (see /verif/DESIGN.md).
//
//	vcheck run    -prop C01 -tier quick [-seed N] [-cases i,j,...]
//	vcheck worker -prop C01 -tier quick -seed N -cases i,j,... [-steps file]   (internal)
//	vcheck replay <replay-file>
package main

import (
	"encoding/json"
	"flag"
	"fmt"
	"os"
	"strconv"
	"strings"

	"vh/core"
	_ "vh/props"
)

func parseCases(s string) []int {
	if s == "" {
		return nil
	}
	var out []int
	for _, p := range strings.Split(s, ",") {
		if i := strings.Index(p, "-"); i > 0 {
			a, _ := strconv.Atoi(p[:i])
			b, _ := strconv.Atoi(p[i+1:])
			for k := a; k <= b; k++ {
				out = append(out, k)
			}
			continue
		}
		v, err := strconv.Atoi(p)
		if err == nil {
			out = append(out, v)
		}
	}
	return out
}

func main() {
	if len(os.Args) < 2 {
		fmt.Fprintln(os.Stderr, "usage: vcheck run|worker|replay|list ...")
		os.Exit(2)
	}
	switch os.Args[1] {
	case "list":
		for _, id := range core.IDs() {
			fmt.Println(id)
		}
	case "run", "worker":
		fs := flag.NewFlagSet(os.Args[1], flag.ExitOnError)
		prop := fs.String("prop", "", "property id")
		tier := fs.String("tier", "quick", "quick|thorough")
		seed := fs.Uint64("seed", core.EnvSeed(), "run seed (default VERIF_SEED or 1)")
		cases := fs.String("cases", "", "case indices (comma separated, a-b ranges)")
		steps := fs.String("steps", "", "step log file (worker)")
		fs.Parse(os.Args[2:])
		if t := os.Getenv("VERIF_TIER"); t != "" && os.Args[1] == "run" && !flagSet(fs, "tier") {
			*tier = t
		}
		if os.Args[1] == "worker" {
			os.Exit(core.WorkerMain(*prop, *tier, *seed, parseCases(*cases), *steps))
		}
		os.Exit(core.DriverMain(*prop, *tier, *seed, parseCases(*cases)))
	case "replay":
		if len(os.Args) < 3 {
			fmt.Fprintln(os.Stderr, "usage: vcheck replay <file>")
			os.Exit(2)
		}
		b, err := os.ReadFile(os.Args[2])
		if err != nil {
			fmt.Fprintln(os.Stderr, err)
			os.Exit(2)
		}
		var rep struct {
			Property string `json:"property"`
			Tier     string `json:"tier"`
			Seed     uint64 `json:"seed"`
			Case     int    `json:"case"`
		}
		if err := json.Unmarshal(b, &rep); err != nil {
			fmt.Fprintln(os.Stderr, err)
			os.Exit(2)
		}
		if rep.Case < 0 {
			fmt.Println("this replay file describes a run-level finding (race report / post-run check); re-running the whole check")
			os.Exit(core.DriverMain(rep.Property, rep.Tier, rep.Seed, nil))
		}
		os.Exit(core.DriverMain(rep.Property, rep.Tier, rep.Seed, []int{rep.Case}))
	default:
		fmt.Fprintln(os.Stderr, "unknown command", os.Args[1])
		os.Exit(2)
	}
}

func flagSet(fs *flag.FlagSet, name string) bool {
	found := false
	fs.Visit(func(f *flag.Flag) {
		if f.Name == name {
			found = true
		}
	})
	return found
}
