#!/bin/bash
# ./seedauto.sh <seed-id> <check-ids...>   reads demo coordinates from /tmp/seed-<id>/OUT/meta.json and calls seedrun.sh
ID="$1"; shift
M=/tmp/seed-$ID/OUT/meta.json
[ -f "$M" ] || { M=/verif/seeded/$ID/meta.json; export VERIF_SEED_ONLY_CHECKS=1; }
read MOD PKG DEMO RX < <(python3 -c "
import json;m=json.load(open('$M'))['demo'];print(m['module'],m['pkg_dir'],m['file'],m['run'])")
exec /verif/seedrun.sh "$ID" "$MOD" "$PKG" "$DEMO" "$RX" "$@"
