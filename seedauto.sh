#!/bin/bash
# ./seedauto.sh <seed-id> <check-ids...>   reads the demo coordinates from /tmp/seed-<id>/OUT/meta.json and calls
# seedrun.sh; when the scratch worktree is gone it re-runs the stored seed against the named checks only.
V="$(cd "$(dirname "$0")" && pwd)"   # the /verif tree these scripts belong to (also a snapshot of it)
ID="$1"; shift
M=/tmp/seed-$ID/OUT/meta.json
if [ ! -f "$M" ]; then
  VERIF_SEED_ONLY_CHECKS=1 exec "$V"/seedrun.sh "$ID" x x x x "$@"
fi
read MOD PKG DEMO RX < <(python3 -c "
import json;m=json.load(open('$M'))['demo'];print(m['module'],m['pkg_dir'],m['file'],m['run'])")
exec "$V"/seedrun.sh "$ID" "$MOD" "$PKG" "$DEMO" "$RX" "$@"
